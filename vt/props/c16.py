"""C16 — WebSocket close handshake is orderly and reported exactly once.

Decided statically (DESIGN.md §4 C16), all on the CFGs of tornado/websocket.py:

* one close frame: every ``_write_frame(.., 0x8, ..)`` is under ``not
  self.server_terminated`` and followed on every path by ``server_terminated =
  True`` (also when the write raises StreamClosedError);
* no data frame after our close: each public send API (handler and client
  connection, message and ping) reaches the protocol's frame writer only past an
  ``is None`` **and** ``is_closing()`` guard whose failing side raises
  WebSocketClosedError (or the protocol method itself is guarded);
* close notification at most/at least once: ``on_close()`` only past the
  ``_on_close_called`` test with the flag already set; the receive loop notifies
  exactly once on every normal path, passes the peer's code/reason, and no
  ``Exception`` raised while a frame is processed can skip the notification;
* echo and teardown: on a close frame ``client_terminated`` is set, code/reason
  parsed big-endian/UTF-8, ``close(self.close_code)`` called once; ``close``
  closes the stream when the peer has closed, arms the 5 s timer only when
  unset with ``_abort`` as callback, removes it on teardown, cancels the pinger;
* ping timeout: the pong flag is reset in every iteration before the timeout
  sleep, the pong dispatch sets it, a missed pong calls ``close`` and stops.

Not decided: real interleavings with virtual time, the IOStream/HTTP layers
that invoke ``on_connection_close``, client-side exactly-once (no flag exists).
"""
from __future__ import annotations

import ast

from .. import q
from .. import x_ws as X
from ..cfg import must_facts, explore, canon_fact, holds
from ..model import AnalysisError
from .. import x_wsnorm as NORM
from ..rules import event_facts, node_calls, require_after
from ..x_guardflow import expand_expr
from ..mutate import mutate, remove_stmts, replace_expr, replace_stmt, parse_stmt, parse_expr

TECHNIQUE = "guard-dominance and must-pass-through dataflow on the CFG, typestate per close scenario, sibling agreement of the send APIs"
EXPLANATION = (
    "Close-frame writes are located by folding the opcode argument of every _write_frame call; guards and follow-up assignments are decided with "
    "must-facts/explore on the exception-aware CFG. The four public send APIs are compared as siblings. close() is explored per (client_terminated, "
    "_waiting) scenario; _handle_message for opcode 8 and 0xA; periodic_ping with the timeout outcome stipulated."
)
NOT_DECIDED = (
    "interleavings over virtual time (crossing closes, timers firing during callbacks); that the HTTP/IOStream layers invoke on_connection_close; "
    "exactly-once on the client connection (there is no flag to analyse); data frames written by the application through the raw protocol object"
)

W = "tornado/websocket.py"
P13 = "WebSocketProtocol13"
CLOSED_ERR = "WebSocketClosedError"


def _raises(st, name):
    return isinstance(st, ast.Raise) and st.exc is not None and name in q.unparse(st.exc)


# ---------------------------------------------------------------------------


def rule_one_close_frame(ck, consts):
    R = "C16.one-close-frame"
    n_close = 0
    n_all = 0
    for fi in ck.repo.methods(W, P13):
        for node, c in fi.cfg.find(lambda x: q.is_call(x, "self._write_frame")):
            n_all += 1
            op = X.fold_in(c.args[1], consts, None) if len(c.args) > 1 else None
            if op is None:
                # opcode computed locally: fold over the function's constant assignments
                vals = set()
                if isinstance(c.args[1], ast.Name):
                    for st in q.stores_to(fi.node, c.args[1].id):
                        v = X.fold_in(getattr(st, "value", None), consts, None) if getattr(st, "value", None) is not None else None
                        vals.add(v)
                if not vals or None in vals:
                    raise AnalysisError("%s: opcode of _write_frame call does not fold" % fi.qualname)
                ck.ob(R, fi, c, 8 not in vals, "frame writer called with opcode in %s: not a close frame" % sorted(vals))
                continue
            if op != 8:
                continue
            n_close += 1
            facts = must_facts(fi.cfg)
            ck.ob(R, fi, c, holds(facts[node.id], "self.server_terminated", False), "the close frame (opcode 0x8) is written only under `not self.server_terminated`")
            ck.ob(R, fi, c, fi.qualname == P13 + ".close", "close frames are written by %s.close only" % P13)
            sets = lambda n: n.kind == "stmt" and isinstance(n.ast, ast.Assign) and "self.server_terminated" in q.assigned_paths(n.ast) and isinstance(n.ast.value, ast.Constant) and n.ast.value.value is True
            ck.ob(R, fi, c, _every_path_passes(fi.cfg, node, sets), "after the close frame write - also when it raises into a local handler - server_terminated = True is set before close() returns normally",
                  construct="after write: " + q.normalize_construct(c, q.local_names(fi.node)))
    ck.floor(R, n_close, 1, "close-frame writes")
    ck.floor(R, n_all, 4, "_write_frame call sites")


def _every_path_passes(cfg, start, end_pred) -> bool:
    """Every CFG path from ``start`` (all its out-edges, exception edges included)
    to the *normal* exit passes a node satisfying ``end_pred``."""
    stack = [sid for sid, _k in cfg.succ[start.id]]
    seen = set()
    while stack:
        nid = stack.pop()
        if nid in seen:
            continue
        seen.add(nid)
        n = cfg.nodes[nid]
        if end_pred(n):
            continue
        if nid == cfg.exit.id:
            return False
        stack.extend(sid for sid, _k in cfg.succ[nid])
    return True


def _protocol_guarded(ck, method):
    """The protocol-level send method refuses to write when closing."""
    fi = ck.repo.func(W, P13 + "." + method)
    facts = must_facts(fi.cfg)
    sites = fi.cfg.find(lambda x: q.is_call(x, "self._write_frame"))
    if not sites:
        return False
    for node, _c in sites:
        f = facts[node.id]
        if not (holds(f, "self.is_closing()", False) or (holds(f, "self.server_terminated", False) and holds(f, "self.client_terminated", False))):
            return False
    return True


def rule_send_apis(ck):
    R = "C16.no-data-after-close"
    apis = [
        ("WebSocketHandler.write_message", "write_message"),
        ("WebSocketHandler.ping", "write_ping"),
        ("WebSocketClientConnection.write_message", "write_message"),
        ("WebSocketClientConnection.ping", "write_ping"),
    ]
    n = 0
    for qn, meth in apis:
        fi = ck.func(W, qn)
        # local aliases of self attributes (`proto = self.protocol`), valid when the attribute is not re-assigned here
        aliases = {}
        for x in q.walk_body(fi.node):
            if isinstance(x, ast.Assign) and len(x.targets) == 1 and isinstance(x.targets[0], ast.Name) and (q.dotted(x.value) or "").startswith("self.") and not q.stores_to(fi.node, q.dotted(x.value)):
                aliases[x.targets[0].id] = q.dotted(x.value)
        sites = fi.cfg.find(lambda x: isinstance(x, ast.Call) and isinstance(x.func, ast.Attribute) and x.func.attr == meth and ((q.dotted(x.func.value) or "").startswith("self.") or q.dotted(x.func.value) in aliases))
        ck.floor(R, len(sites), 1, "protocol.%s call in %s" % (meth, qn))
        facts = must_facts(fi.cfg)
        pg = _protocol_guarded(ck, meth)
        names = set()
        for node, c in sites:
            n += 1
            recv = q.dotted(c.func.value)
            base = aliases.get(recv, recv)
            same = {base} | {a for a, p_ in aliases.items() if p_ == base}
            names |= same
            f = facts[node.id]
            not_none = any(holds(f, "%s is None" % e, False) or holds(f, e, True) for e in same)
            ck.ob(R, fi, c, not_none, "%s: %s.%s() reached only when %s is set" % (qn, base, meth, base))
            closing = any(holds(f, "%s.is_closing()" % e, False) for e in same)
            ck.ob(R, fi, c, closing or pg, "%s: frames are handed to the protocol only when it is not closing (guard `%s.is_closing()` here, or inside %s.%s) - otherwise a data/ping frame can follow our close frame" % (qn, base, P13, meth))
        # the refusing side raises WebSocketClosedError
        tests = [t for t in fi.cfg.stmt_nodes(lambda t: t.kind == "test") if (q.paths_in(t.ast) & names)]
        for t in tests:
            text, _p = canon_fact(t.ast, True)
            refuse_kind = "true" if (text.endswith(" is None") or text.endswith(".is_closing()")) else "false"
            succ = [s for s, k in fi.cfg.successors(t) if k == refuse_kind]
            bad = [s for s in succ if s.kind == "stmt" and not _raises(s.ast, CLOSED_ERR)]
            ck.ob(R, fi, t.ast, not bad, "%s: when the connection is gone/closing the call fails with WebSocketClosedError" % qn)
    return n


def rule_notify(ck):
    R = "C16.notify-once"
    h = ck.func(W, "WebSocketHandler.on_connection_close")
    FLAG = "self._on_close_called"
    calls = h.cfg.find(lambda x: q.is_call(x, "self.on_close"))
    ck.floor(R, len(calls), 1, "on_close() call sites in WebSocketHandler.on_connection_close")

    def ut(n, u, env):
        if n.kind == "stmt" and isinstance(n.ast, ast.Assign) and FLAG in q.assigned_paths(n.ast):
            v = n.ast.value
            if isinstance(v, ast.Constant) and v.value is True:
                return "set" if u == "tested" else "set-untested"
            return "other"
        return u

    def ue(n, kind, u, env):
        if n.kind == "test" and kind in ("true", "false") and canon_fact(n.ast, kind == "true") == (FLAG, False):
            return "tested" if u == "init" else u
        return u

    seen = X.explore_consts(h.cfg, {}, uinit="init", utransfer=ut, uedge=ue)
    for node, c in calls:
        sts = {u for _e, u in X.states_at(seen, node)}
        ck.ob(R, h, c, sts == {"set"}, "on_close() is called only after `not self._on_close_called` was tested and the flag was set to True (states %s)" % sorted(sts))
    # every other on_close() call in the module goes through on_connection_close
    others = 0
    for fi in ck.repo.module(W).funcs.values():
        if fi is h:
            continue
        for c in q.calls(fi.node):
            if q.is_call(c, "self.on_close") and fi.qualname.startswith("WebSocketHandler."):
                others += 1
                ck.ob(R, fi, c, False, "on_close() is invoked only from on_connection_close (flag discipline)")
    # flag initialised False
    init = ck.func(W, "WebSocketHandler.__init__")
    st = [s for s in q.stores_to(init.node, FLAG)]
    ck.ob(R, init, init.node, len(st) == 1 and isinstance(st[0].value, ast.Constant) and st[0].value.value is False, "_on_close_called starts False", construct="flag init")
    # both delegates: on_ws_connection_close records code/reason, then on_connection_close
    for cls in ("WebSocketHandler", "WebSocketClientConnection"):
        fi = ck.func(W, cls + ".on_ws_connection_close")
        ps = [p for p in fi.params() if p != "self"]
        ef = event_facts(fi, {"code": lambda n, ps=ps: n.kind == "stmt" and isinstance(n.ast, ast.Assign) and "self.close_code" in q.assigned_paths(n.ast) and q.dotted(n.ast.value) == ps[0],
                              "reason": lambda n, ps=ps: n.kind == "stmt" and isinstance(n.ast, ast.Assign) and "self.close_reason" in q.assigned_paths(n.ast) and q.dotted(n.ast.value) == ps[1]}, cond_facts=False)
        sites = fi.cfg.find(lambda x: q.is_call(x, "self.on_connection_close"))
        ck.floor(R, len(sites), 1, "on_connection_close() call in %s.on_ws_connection_close" % cls)
        for node, c in sites:
            ck.ob(R, fi, c, ("@code", True) in ef[node.id] and ("@reason", True) in ef[node.id], "%s.on_ws_connection_close stores the peer's close code and reason before notifying" % cls)
        at_exit = event_facts(fi, {"n": node_calls("self.on_connection_close")}, cond_facts=False)
        ck.ob(R, fi, fi.node, ("@n", True) in at_exit[fi.cfg.exit.id], "%s.on_ws_connection_close notifies on every path" % cls, construct="%s notifies" % cls)
    # receive loop: exactly once on every normal path, with the protocol's code/reason
    loop = ck.func(W, P13 + "._receive_frame_loop")
    nsites = loop.cfg.find(lambda x: q.is_call(x, "self.handler.on_ws_connection_close"))
    ck.floor(R, len(nsites), 1, "close notifications in _receive_frame_loop")
    ids = {n.id for n, _c in nsites}
    seen = explore(loop.cfg, 0, lambda n, v: min(v + (1 if n.id in ids else 0), 2), lambda t: False)
    cnts = {v for _f, v in seen.get(loop.cfg.exit.id, ())}
    ck.ob(R, loop, loop.node, cnts == {1}, "_receive_frame_loop notifies the delegate exactly once on every path that returns normally (counts %s)" % sorted(cnts), construct="loop notify counts %s" % sorted(cnts))
    for node, c in nsites:
        ok = [q.dotted(a) for a in c.args] == ["self.close_code", "self.close_reason"]
        ck.ob(R, loop, c, ok, "the notification carries the code and reason received from the peer (self.close_code, self.close_reason)")
    # no Exception raised while processing a frame may skip the notification
    pm = q.parent_map(loop.node)
    rsites = [c for c in q.calls(loop.node) if q.is_call(c, "self._receive_frame")]
    ck.floor(R, len(rsites), 1, "_receive_frame calls in the loop")
    for c in rsites:
        prot = q.protected_by(pm, c, "Exception")
        in_finally = False
        for a in q.ancestors(pm, c):
            if isinstance(a, ast.Try) and any(q.is_call(x, "self.handler.on_ws_connection_close") for st in a.finalbody for x in ast.walk(st)):
                in_finally = True
        ok = in_finally
        if prot is not None and not ok:
            # handler must fall through to (or contain) the notification
            hn = [n for n in loop.cfg.nodes if n.kind == "handler" and n.ast is prot]
            ok = bool(hn) and all(_reaches_notify(loop.cfg, n, ids) for n in hn)
        ck.ob(R, loop, c, ok, "an Exception raised while a frame is processed (corrupt data, a failing asynchronous on_message) is caught in the loop and the close notification still follows")


def _reaches_notify(cfg, start, ids) -> bool:
    """Every path from ``start`` to the normal exit passes a node in ``ids``."""
    stack = [start.id]
    seen = set()
    while stack:
        nid = stack.pop()
        if nid in seen or nid in ids:
            continue
        seen.add(nid)
        if nid == cfg.exit.id:
            return False
        for sid, kind in cfg.succ[nid]:
            if kind != "exc":
                stack.append(sid)
    return True


def rule_echo(ck, consts):
    R = "C16.echo"
    hm = ck.func(W, P13 + "._handle_message")
    ps = [p for p in hm.params() if p != "self"]
    data = ps[1]
    # locals that hold the payload: the parameter and names bound from expressions over it (e.g. after inlining a helper)
    dnames = {data}
    for _ in range(4):
        for x_ in q.walk_body(hm.node):
            if isinstance(x_, ast.Assign) and any(isinstance(y_, ast.Name) and y_.id in dnames for y_ in ast.walk(x_.value)) and (isinstance(x_.value, ast.Name) or (isinstance(x_.value, ast.Call) and q.call_attr(x_.value) == "decompress")):
                dnames |= {t_.id for t_ in x_.targets if isinstance(t_, ast.Name)}
    closes = hm.cfg.find(lambda x: q.is_call(x, "self.close"))

    def ut(n, u, env):
        ct, ncl = u
        if n.kind == "stmt" and isinstance(n.ast, ast.Assign) and "self.client_terminated" in q.assigned_paths(n.ast):
            ct = isinstance(n.ast.value, ast.Constant) and n.ast.value.value is True
        k = len(X.calls_in_node(n, "self.close"))
        if k:
            ncl = ncl + ((ct,) * k)
        return (ct, ncl)

    seen = X.explore_consts(hm.cfg, consts, init_env={ps[0]: 8}, assume={"self.client_terminated": False, X.FC: False}, uinit=(False, ()), utransfer=ut)
    exits = [u for _e, u in X.states_at(seen, hm.cfg.exit)]
    ck.ob(R, hm, hm.node, bool(exits), "close frame (opcode 8) is processed to a normal return", construct="close frame handled: %s" % bool(exits))
    for ct, ncl in exits:
        ck.ob(R, hm, hm.node, ct is True, "on a close frame client_terminated is set", construct="close frame: client_terminated=%s" % ct)
        ck.ob(R, hm, hm.node, ncl == (True,), "on a close frame close() is called exactly once, after client_terminated was set (so that it tears the connection down) (calls %r)" % (ncl,), construct="close frame: close calls %r" % (ncl,))
    # what is echoed
    for v in range(16):
        if v == 8:
            continue
    seen8 = seen
    for node, c in closes:
        if not X.reached(seen8, node):
            continue
        ok = len(c.args) >= 1 and q.dotted(c.args[0]) == "self.close_code" and len(c.args) == 1 and not c.keywords
        ck.ob(R, hm, c, ok, "the echo carries the received close code (close(self.close_code)) and nothing else")
    # parsing of code / reason
    facts = must_facts(hm.cfg)
    n_code = n_reason = 0
    for node in hm.cfg.stmt_nodes(lambda n: n.kind == "stmt" and isinstance(n.ast, ast.Assign)):
        ap = q.assigned_paths(node.ast)
        v = node.ast.value
        if "self.close_code" in ap:
            n_code += 1
            ok = isinstance(v, ast.Subscript) and isinstance(v.slice, ast.Constant) and v.slice.value == 0 and q.is_call(v.value, "struct.unpack") and len(v.value.args) == 2 \
                and isinstance(v.value.args[0], ast.Constant) and v.value.args[0].value in (">H", "!H") and q.unparse(v.value.args[1]) in {"%s[:2]" % d_ for d_ in dnames}
            if not ok:
                un = v.value if isinstance(v, ast.Subscript) else v
                recognised = q.is_call(un, "struct.unpack") and len(un.args) == 2 and isinstance(un.args[0], ast.Constant)
                if not recognised:
                    raise AnalysisError("_handle_message: the close code is not parsed by struct.unpack(<format>, <payload slice>)[0] (got %s)" % q.unparse(v)[:60])
            ck.ob(R, hm, node.ast, ok, "close code = first two payload bytes, big-endian unsigned")
            ck.ob(R, hm, node.ast, X.reached(seen8, node), "the close code is parsed on the opcode-8 path", construct="code parsed on close path")
        if "self.close_reason" in ap:
            n_reason += 1
            ok = isinstance(v, ast.Call) and v.args and q.unparse(v.args[0] if not isinstance(v.func, ast.Attribute) or v.func.attr != "decode" else v.func.value) in {"%s[2:]" % d_ for d_ in dnames}
            ck.ob(R, hm, node.ast, ok, "close reason = payload after the two code bytes")
    ck.floor(R, n_code, 1, "close_code assignments")
    ck.floor(R, n_reason, 1, "close_reason assignments")
    # for which payload lengths are code / reason taken?  (folded for lengths 0..6 from the guards that dominate the stores)
    for node in hm.cfg.stmt_nodes(lambda n: n.kind == "stmt" and isinstance(n.ast, ast.Assign)):
        ap = q.assigned_paths(node.ast)
        which = "code" if "self.close_code" in ap else ("reason" if "self.close_reason" in ap else None)
        if which is None:
            continue
        lens = set(range(0, 7))
        for (txt, pol) in facts[node.id]:
            try:
                e = ast.parse(txt, mode="eval").body
            except SyntaxError:
                continue
            e = expand_expr(ck.repo, hm, e)
            used = q.names_in(e) & dnames
            if len(used) == 1 and q.names_in(e) <= (used | {"len", "bool"}):
                try:
                    lens = {k for k in lens if bool(X.xfold(e, {next(iter(used)): "x" * k})) == pol}
                except q.NotFoldable:
                    raise AnalysisError("_handle_message: guard %s on the close payload does not fold" % txt)
        want = {2, 3, 4, 5, 6} if which == "code" else {3, 4, 5, 6}
        ck.ob(R, hm, node.ast, lens == want, "the close %s is taken exactly for payload lengths %s (of 0..6; got %s)" % (which, ">= 2" if which == "code" else "> 2", sorted(lens)),
              construct="close %s parsed for lengths %s" % (which, sorted(lens)))


def rule_teardown(ck, consts):
    R = "C16.teardown"
    cl = ck.func(W, P13 + ".close")
    WAIT = "self._waiting"

    def ut(n, u, env):
        closed, armed, removed, cancelled, cleared = u
        if X.calls_in_node(n, "self.stream.close"):
            closed = True
        for c in X.calls_in_node(n, "self.stream.io_loop.add_timeout", "self.stream.io_loop.call_later"):
            cb = c.args[1] if len(c.args) > 1 else q.kwarg(c, "callback")
            stored = n.kind == "stmt" and isinstance(n.ast, ast.Assign) and WAIT in q.assigned_paths(n.ast)
            cbn = q.dotted(cb) if cb is not None else None
            if isinstance(cb, ast.Lambda) and not cb.args.args and q.is_call(cb.body, "self._abort") and not cb.body.args:
                cbn = "self._abort"
            if isinstance(cb, ast.Call) and q.call_attr(cb) == "partial" and len(cb.args) == 1 and not cb.keywords:
                cbn = q.dotted(cb.args[0])
            armed = armed + ((cbn, stored),)
        for c in X.calls_in_node(n, "self.stream.io_loop.remove_timeout"):
            removed = removed or (len(c.args) == 1 and (q.dotted(c.args[0]) == WAIT or X.fold_in(c.args[0], env, None) == "TIMER-HANDLE"))
        for c in X.node_calls_all(n):
            if isinstance(c.func, ast.Attribute) and c.func.attr == "cancel" and (q.dotted(c.func.value) == "self._ping_coroutine" or X.fold_in(c.func.value, env, None) == "PINGER-TASK"):
                cancelled = True
        if n.kind == "stmt" and isinstance(n.ast, ast.Assign) and WAIT in q.assigned_paths(n.ast) and isinstance(n.ast.value, ast.Constant) and n.ast.value.value is None:
            cleared = True
        return (closed, armed, removed, cancelled, cleared)

    init = (False, (), False, False, False)
    scen = [
        ("peer already closed, timer pending", {"self.client_terminated": True, WAIT + " is None": False}),
        ("peer already closed, no timer", {"self.client_terminated": True, WAIT + " is None": True}),
        ("peer not closed yet, no timer", {"self.client_terminated": False, WAIT + " is None": True}),
        ("peer not closed yet, timer pending", {"self.client_terminated": False, WAIT + " is None": False}),
    ]
    for label, asm in scen:
        for pinger in (True, False):
            # the scenario is a concrete model of the three state fields (so that it also holds through local copies,
            # e.g. the take-and-clear `waiting, self._waiting = self._waiting, None`)
            cs = dict(consts)
            cs["self.client_terminated"] = asm["self.client_terminated"]
            cs[WAIT] = None if asm[WAIT + " is None"] else "TIMER-HANDLE"
            cs["self._ping_coroutine"] = "PINGER-TASK" if pinger else None
            seen = X.explore_consts(cl.cfg, cs, uinit=init, utransfer=ut, follow_exc=True)
            exits = [u for _e, u in X.states_at(seen, cl.cfg.exit)]
            ck.ob(R, cl, cl.node, bool(exits), "close() returns normally (%s)" % label, construct="returns: %s/%s" % (label, pinger))
            for closed, armed, removed, cancelled, cleared in exits:
                if asm["self.client_terminated"]:
                    ck.ob(R, cl, cl.node, closed, "%s: both sides have closed -> the stream is closed" % label, construct="%s: stream closed=%s" % (label, closed))
                    ck.ob(R, cl, cl.node, not armed, "%s: no closing timer is armed" % label, construct="%s: armed=%r" % (label, armed))
                    if not asm[WAIT + " is None"]:
                        ck.ob(R, cl, cl.node, removed and cleared, "%s: the pending closing timer is removed and forgotten" % label, construct="%s: removed=%s cleared=%s" % (label, removed, cleared))
                elif asm[WAIT + " is None"]:
                    ck.ob(R, cl, cl.node, armed == (("self._abort", True),), "%s: exactly one closing timer is armed, it calls _abort and is remembered in _waiting (got %r)" % (label, armed), construct="%s: armed=%r" % (label, armed))
                    ck.ob(R, cl, cl.node, not closed, "%s: the stream is left open for the peer's close frame" % label, construct="%s: stream closed=%s" % (label, closed))
                else:
                    ck.ob(R, cl, cl.node, not armed, "%s: no second timer is armed" % label, construct="%s: armed=%r" % (label, armed))
                if pinger:
                    ck.ob(R, cl, cl.node, cancelled, "%s: the periodic pinger is cancelled by close()" % label, construct="%s: pinger cancelled=%s" % (label, cancelled))
    # timer delay is a positive constant
    for c in q.find_calls(cl.node, "self.stream.io_loop.add_timeout"):
        d = c.args[0] if c.args else q.kwarg(c, "deadline")
        for _ in range(3):  # an explaining local (`deadline = now + N`) stands for its single definition
            if isinstance(d, ast.Name) and len(q.stores_to(cl.node, d.id)) == 1 and getattr(q.stores_to(cl.node, d.id)[0], "value", None) is not None:
                d = q.stores_to(cl.node, d.id)[0].value
        delay = None
        if isinstance(d, ast.BinOp) and isinstance(d.op, ast.Add):
            for now_, off in ((d.left, d.right), (d.right, d.left)):
                if isinstance(now_, ast.Call) and q.call_attr(now_) == "time":
                    delay = X.fold_in(off, consts, None)
        if not isinstance(delay, (int, float)) or isinstance(delay, bool):
            raise AnalysisError("close(): the deadline of the closing timer is not of the form <loop>.time() + <constant> (%s)" % (q.unparse(d) if d is not None else "?"))
        ck.ob(R, cl, c, delay > 0, "the closing timeout is now + a positive constant (%r)" % (delay,))
    # delegates: local close hands code/reason down and drops the protocol reference
    for qn in ("WebSocketHandler.close", "WebSocketClientConnection.close"):
        fi = ck.func(W, qn)
        ps = [p for p in fi.params() if p != "self"]
        sites = fi.cfg.find(lambda x: isinstance(x, ast.Call) and isinstance(x.func, ast.Attribute) and x.func.attr == "close" and (q.dotted(x.func.value) or "").startswith("self."))
        ck.floor(R, len(sites), 1, "protocol.close call in %s" % qn)
        for node, c in sites:
            recv = q.dotted(c.func.value)
            ck.ob(R, fi, c, [q.dotted(a) for a in c.args] == ps[:2], "%s passes code and reason to the protocol" % qn)
            isn = lambda n, node=node: n.id == node.id
            clr = lambda n, recv=recv: n.kind == "stmt" and isinstance(n.ast, ast.Assign) and recv in q.assigned_paths(n.ast) and isinstance(n.ast.value, ast.Constant) and n.ast.value.value is None
            require_after(ck, R, fi, isn, clr, "%s forgets the protocol after closing it (later writes raise WebSocketClosedError)" % qn, exits="normal")


def rule_ping_timeout(ck, consts):
    R = "C16.ping-timeout"
    pp = ck.func(W, P13 + ".periodic_ping")
    PONG = "self._received_pong"
    tests = [n for n in pp.cfg.stmt_nodes(lambda n: n.kind == "test") if canon_fact(n.ast, True)[0] == PONG]
    ck.floor(R, len(tests), 1, "tests of _received_pong in periodic_ping")
    tid = {n.id for n in tests}
    pings = pp.cfg.find(lambda x: q.is_call(x, "self.write_ping"))
    ck.floor(R, len(pings), 1, "write_ping calls in periodic_ping")
    ping_ids = {n.id for n, _c in pings}
    is_reset = lambda n: n.kind == "stmt" and isinstance(n.ast, ast.Assign) and PONG in q.assigned_paths(n.ast) and isinstance(n.ast.value, ast.Constant) and n.ast.value.value is False

    # per round (from one pong test to the next): the flag is reset, a ping is sent, and no suspension point lies
    # between the two (in either order) - otherwise a pong could be lost or a stale one counted
    def ptransfer(n, val):
        r, p_, gap = val
        if n.id in tid:
            return (False, False, False)
        if is_reset(n):
            r = True
        if n.id in ping_ids:
            p_ = True
        if n.suspends and (r != p_):
            gap = True
        return (r, p_, gap)

    pseen = explore(pp.cfg, (False, False, False), ptransfer, lambda t: False, follow_exc=False)
    for t in tests:
        sts = {v for _f, v in pseen.get(t.id, ())}
        ck.ob(R, pp, t.ast, bool(sts) and all(r and p_ and not gap for r, p_, gap in sts), "every time the pong flag is tested, the flag was reset and a ping was sent since the previous test, with no suspension point between reset and ping (states %s)" % sorted(sts))
    # missed pong -> close and stop
    def ut(n, u, env):
        closes, pings_after = u
        if X.calls_in_node(n, "self.close"):
            closes += 1
        if closes and X.calls_in_node(n, "self.write_ping"):
            pings_after += 1
        return (min(closes, 2), min(pings_after, 1))

    # a timeout of 0 disables the check: the timeout test folds to False for 0 and True for a positive value
    tnames = {"self.ping_timeout"} | {t_.id for x_ in q.walk_body(pp.node) if isinstance(x_, ast.Assign) and q.dotted(x_.value) == "self.ping_timeout" for t_ in x_.targets if isinstance(t_, ast.Name)}
    n_tt = 0
    for tn in pp.cfg.stmt_nodes(lambda n: n.kind == "test" and isinstance(n.ast, ast.Compare) and (q.paths_in(n.ast) & tnames)):
        n_tt += 1
        try:
            v0, v1 = bool(q.fold(tn.ast, {k: 0 for k in tnames})), bool(q.fold(tn.ast, {k: 5 for k in tnames}))
        except q.NotFoldable:
            raise AnalysisError("periodic_ping: timeout test %s does not fold" % q.unparse(tn.ast))
        ck.ob(R, pp, tn.ast, (v0, v1) == (False, True), "the pong deadline applies only for a positive ping timeout (0 disables it)")
    tv = [q.unparse(n.ast) for n in pp.cfg.stmt_nodes(lambda n: n.kind == "test") if q.unparse(n.ast) not in (PONG, "True")]
    stip = {PONG: False}
    for t in tv:
        stip[t] = True
    seen = X.explore_consts(pp.cfg, consts, stipulate=stip, uinit=(0, 0), utransfer=ut, follow_exc=False)
    exits = [u for _e, u in X.states_at(seen, pp.cfg.exit)]
    ck.ob(R, pp, pp.node, bool(exits) and all(c == 1 and p == 0 for c, p in exits), "pong missed within a positive timeout: close() is called once and the pinger stops (exit states %r)" % (exits,), construct="missed pong -> %r" % (sorted(set(exits)),))
    stip[PONG] = True
    seen = X.explore_consts(pp.cfg, consts, stipulate=stip, uinit=(0, 0), utransfer=ut, follow_exc=False)
    bad = [n for n, _c in pp.cfg.find(lambda x: q.is_call(x, "self.close")) if X.reached(seen, n)]
    ck.ob(R, pp, pp.node, not bad, "pong received: the pinger does not close the connection", construct="pong received -> close reached: %s" % bool(bad))
    for node, c in pp.cfg.find(lambda x: q.is_call(x, "self.close")):
        ck.ob(R, pp, c, not c.args and q.kwarg(c, "reason") is not None and q.kwarg(c, "code") is None or len(c.args) >= 1, "ping-timeout close goes through close() (close frame + closing timer)")
    # the pong dispatch sets the flag
    hm = ck.func(W, P13 + "._handle_message")
    ps = [p for p in hm.params() if p != "self"]
    seen = X.explore_consts(hm.cfg, consts, init_env={ps[0]: 0xA}, assume={"self.client_terminated": False, X.FC: False}, uinit=False,
                            utransfer=lambda n, u, env: True if (n.kind == "stmt" and isinstance(n.ast, ast.Assign) and PONG in q.assigned_paths(n.ast) and isinstance(n.ast.value, ast.Constant) and n.ast.value.value is True) else u)
    exits = [u for _e, u in X.states_at(seen, hm.cfg.exit)]
    ck.ob(R, hm, hm.node, bool(exits) and all(exits), "a pong frame (opcode 0xA) sets _received_pong on every path", construct="pong sets flag: %r" % (sorted(set(exits)),))
    # start_pinging: one pinger at a time
    sp = ck.func(W, P13 + ".start_pinging")
    facts = must_facts(sp.cfg)
    for node in sp.cfg.stmt_nodes(lambda n: n.kind == "stmt" and isinstance(n.ast, ast.Assign) and "self._ping_coroutine" in q.assigned_paths(n.ast)):
        ck.ob(R, sp, node.ast, holds(facts[node.id], "self._ping_coroutine", False), "a new pinger is started only when none is running")


def _part_impl(e, tags, env, rp):
    if isinstance(e, ast.Constant) and e.value == b"":
        return ()
    if q.is_call(e, "struct.pack") and len(e.args) == 2 and isinstance(e.args[0], ast.Constant):
        if e.args[0].value in (">H", "!H"):
            return (("code", X.fold_in(e.args[1], env, "?")),)
        return (("code packed as %r" % (e.args[0].value,), X.fold_in(e.args[1], env, "?")),)
    if isinstance(e, ast.Call) and q.call_attr(e) in ("utf8", "encode"):
        src = e.args[0] if (e.args and q.call_attr(e) == "utf8") else getattr(e.func, "value", None)
        if src is not None and (q.dotted(src) == rp or (env.get(rp) is not None and X.fold_in(src, env, None) == env.get(rp))):
            return (("reason",),)
    if isinstance(e, ast.BinOp) and isinstance(e.op, ast.Add):
        a, b = _part_impl(e.left, tags, env, rp), _part_impl(e.right, tags, env, rp)
        return None if a is None or b is None else a + b
    if isinstance(e, ast.IfExp):
        t = X.fold_in(e.test, env, "?")
        if t == "?":
            return None
        return _part_impl(e.body if t else e.orelse, tags, env, rp)
    d = q.dotted(e) if isinstance(e, (ast.Name, ast.Attribute)) else None
    if d is not None and d in tags:
        return tags[d]
    return None



def rule_close_payload(ck, consts):
    """close(code, reason): payload = 2-byte big-endian code [+ utf8 reason]; a reason without a code gets 1000."""
    R = "C16.close-payload"
    cl = ck.func(W, P13 + ".close")
    ps = [p for p in cl.params() if p != "self"]
    if len(ps) < 2:
        raise AnalysisError("close(): expected (code, reason)")
    cp, rp = ps[0], ps[1]
    writes = cl.cfg.find(lambda x: q.is_call(x, "self._write_frame"))

    def ut(n, u, env):
        tags = dict(u)

        def part(e):
            return _part_impl(e, tags, env, rp)

        if n.kind == "stmt" and isinstance(n.ast, (ast.Assign, ast.AugAssign)) and n.ast.value is not None:
            v = n.ast.value

            tg = [q.dotted(t) for t in (n.ast.targets if isinstance(n.ast, ast.Assign) else [n.ast.target])]
            pv = part(v)
            for t in tg:
                if t is None or t in (cp, rp):
                    continue
                if isinstance(n.ast, ast.AugAssign):
                    old_ = tags.get(t)
                    tags[t] = None if (old_ is None or pv is None or not isinstance(n.ast.op, ast.Add)) else old_ + pv
                elif pv is not None:
                    tags[t] = pv
                else:
                    tags.pop(t, None)
        return tuple(sorted(tags.items(), key=lambda kv: kv[0]))

    for code in (None, 1001):
        for reason in (None, "bye"):
            seen = X.explore_consts(cl.cfg, consts, init_env={cp: code, rp: reason}, assume={"self.server_terminated": False, "self.stream.closed()": False}, uinit=(), utransfer=ut)
            got = set()
            for node, c in writes:
                for env, u in X.states_at(seen, node):
                    payload = _part_impl(c.args[2], dict(u), env, rp) if len(c.args) > 2 else None
                    got.add((X.fold_in(c.args[0], env, "?"), X.fold_in(c.args[1], env, "?"), payload))
            if any(g[2] is None for g in got):
                raise AnalysisError("close(): the composition of the close frame payload is not modelled (expected b'' / struct.pack('>H', code) [+ utf8(reason)])")
            if code is None and reason is None:
                want = ()
            else:
                want = (("code", code if code is not None else 1000),) + ((("reason",),) if reason is not None else ())
            ck.ob(R, cl, cl.node, got == {(True, 8, want)}, "close(code=%r, reason=%r) writes one final close frame whose payload is %s (got %s)" % (code, reason, want or "empty", sorted(map(repr, got))),
                  construct="close(%r,%r) -> %s" % (code, reason, sorted(map(repr, got))))


def rule_client_notify(ck):
    R = "C16.notify-once"
    fi = ck.func(W, "WebSocketClientConnection.on_connection_close")
    sites = fi.cfg.find(lambda x: q.is_call(x, "self._on_message"))
    ids = {n.id for n, _c in sites}
    for _n, c in sites:
        ck.ob(R, fi, c, len(c.args) == 1 and isinstance(c.args[0], ast.Constant) and c.args[0].value is None, "the client's reader is told about the close with the None message")
    seen = explore(fi.cfg, 0, lambda n, v: min(v + (1 if n.id in ids else 0), 2), lambda t: False, follow_exc=False)
    cnts = {v for _f, v in seen.get(fi.cfg.exit.id, ())}
    ck.ob(R, fi, fi.node, cnts == {1}, "WebSocketClientConnection.on_connection_close delivers the None message exactly once on every normal path (counts %s)" % sorted(cnts), construct="client None message counts %s" % sorted(cnts))
    # a connect() still pending is failed, guarded by done()
    facts = must_facts(fi.cfg)
    for node, c in fi.cfg.find(lambda x: isinstance(x, ast.Call) and isinstance(x.func, ast.Attribute) and x.func.attr == "set_exception" and q.dotted(x.func.value) == "self.connect_future"):
        ck.ob(R, fi, c, holds(facts[node.id], "self.connect_future.done()", False), "the pending connect future is failed only if it is not done yet")
    om = ck.func(W, "WebSocketClientConnection._on_message")
    mp = [p for p in om.params() if p != "self"][0]
    outs = [c for c in q.calls(om.node) if (q.is_call(c, "self._on_message_callback") or q.is_call(c, "self.read_queue.put")) and len(c.args) == 1 and q.dotted(c.args[0]) == mp]
    ck.ob(R, om, om.node, len(outs) >= 2, "_on_message hands its argument (message or None) to the callback or the read queue unchanged", construct="_on_message sinks: %d" % len(outs))


def rule_is_closing(ck):
    R = "C16.no-data-after-close"
    ic = ck.func(W, P13 + ".is_closing")
    rets = [x for x in q.walk_body(ic.node) if isinstance(x, ast.Return) and x.value is not None]
    if len(rets) != 1:
        raise AnalysisError("is_closing: expected a single return expression")
    import copy

    class T(ast.NodeTransformer):
        def visit_Call(self, node):
            if q.is_call(node, "self.stream.closed"):
                return ast.Name(id="__stream_closed", ctx=ast.Load())
            node = self.generic_visit(node)
            if isinstance(node.func, ast.Name) and node.func.id in ("any", "all") and len(node.args) == 1 and isinstance(node.args[0], (ast.Tuple, ast.List)) and node.args[0].elts and not node.keywords:
                # any((a, b, c)) is bool(a or b or c)
                return ast.Call(func=ast.Name(id="bool", ctx=ast.Load()), args=[ast.BoolOp(op=ast.Or() if node.func.id == "any" else ast.And(), values=list(node.args[0].elts))], keywords=[])
            return node

    rv = copy.deepcopy(rets[0].value)
    for _ in range(4):  # locals bound once (e.g. an argument of an inlined helper) stand for their definition
        class S_(ast.NodeTransformer):
            def visit_Name(self, node):
                if isinstance(node.ctx, ast.Load):
                    sts_ = q.stores_to(ic.node, node.id)
                    if len(sts_) == 1 and isinstance(sts_[0], ast.Assign) and node.id not in ic.params():
                        return copy.deepcopy(sts_[0].value)
                return node

        rv = S_().visit(rv)
    e = T().visit(rv)
    bad = []
    for sc in (False, True):
        for ct in (False, True):
            for st_ in (False, True):
                try:
                    v = bool(q.fold(e, {"__stream_closed": sc, "self.client_terminated": ct, "self.server_terminated": st_}))
                except q.NotFoldable:
                    raise AnalysisError("is_closing: return expression %s does not fold" % q.unparse(rets[0].value))
                if v != (sc or ct or st_):
                    bad.append((sc, ct, st_, v))
    ck.ob(R, ic, rets[0].value, not bad, "is_closing() is true exactly when the stream is closed or either side has started closing (all 8 combinations; mismatches %s)" % bad)


def rule_closed_error(ck):
    R = "C16.closed-error"
    wm = ck.func(W, P13 + ".write_message")
    pm = q.parent_map(wm.node)
    sites = [c for c in q.calls(wm.node) if q.is_call(c, "self._write_frame")]
    ck.floor(R, len(sites), 1, "_write_frame calls in write_message")
    for c in sites:
        h = q.protected_by(pm, c, "StreamClosedError")
        ck.ob(R, wm, c, h is not None and any(_raises(st, CLOSED_ERR) for st in h.body), "a synchronously failing write on a closed stream surfaces as WebSocketClosedError")
    # the future of the stream write is awaited inside a translating function: a nested closure of write_message or a
    # private method of the class that write_message calls (a closure moved to a method is analysed the same way)
    cands = list(ck.repo.nested(wm))
    called = {c.func.attr for c in q.calls(wm.node) if isinstance(c.func, ast.Attribute) and isinstance(c.func.value, ast.Name) and c.func.value.id == "self"}
    called |= {x.attr for x in q.walk_body(wm.node) if isinstance(x, ast.Attribute) and isinstance(x.value, ast.Name) and x.value.id == "self"}
    for m in ck.repo.direct_methods(W, P13):
        if m.name in called and m.name.startswith("_") and isinstance(m.node, ast.AsyncFunctionDef) and m.name not in ("_receive_frame", "_receive_frame_loop", "_accept_connection", "_read_bytes"):
            cands.append(m)
    translating = set()
    n_aw = 0
    for fi in cands:
        npm = q.parent_map(fi.node)
        aws = [x for x in q.walk_body(fi.node) if isinstance(x, ast.Await)]
        if not aws:
            continue
        allok = True
        for x in aws:
            n_aw += 1
            h = q.protected_by(npm, x, "StreamClosedError")
            ok = h is not None and any(_raises(st, CLOSED_ERR) for st in h.body)
            allok = allok and ok
            ck.ob(R, fi, x, ok, "an asynchronously failing write surfaces as WebSocketClosedError")
        if allok:
            translating.add(fi.name)
    ck.floor(R, n_aw, 1, "awaited write futures in write_message")
    # no shortcut: the raw future of the stream write never leaves write_message other than through a translating function
    raw = set()
    for st_ in q.walk_body(wm.node):
        if isinstance(st_, (ast.Assign, ast.AnnAssign)) and getattr(st_, "value", None) is not None and any(c is x for c in sites for x in ast.walk(st_.value)):
            raw |= {p_ for p_ in q.assigned_paths(st_)}
    rets = [x for x in q.walk_body(wm.node) if isinstance(x, ast.Return) and x.value is not None]
    ck.floor(R, len(rets), 1, "return statements in write_message")

    def leaks(e) -> bool:
        if isinstance(e, ast.Call) and q.call_attr(e) in translating:
            return False  # handed to the translating function
        if isinstance(e, ast.Name) and e.id in raw:
            return True
        if any(e is c for c in sites):
            return True
        return any(leaks(ch) for ch in ast.iter_child_nodes(e))

    for r in rets:
        ck.ob(R, wm, r, not leaks(r.value), "write_message never returns the stream's own write future (its StreamClosedError would not be translated to WebSocketClosedError): every returned future goes through the translating wrapper")


def run(ck):
    ck.repo = NORM.normalize(ck.repo, W, NORM.KEEP_WS)  # aliases, temporaries, 1-tuple unpacks, single-use private helpers (vt/x_wsnorm.py)
    ck.rule("C16.one-close-frame", "the close frame is written only by WebSocketProtocol13.close under `not self.server_terminated`, and server_terminated = True follows on every path")
    ck.rule("C16.no-data-after-close", "every public send API (handler/client x message/ping) hands frames to the protocol only when it exists and is not closing; the refusing branch raises WebSocketClosedError")
    ck.rule("C16.notify-once", "on_close() only behind the _on_close_called flag (set first); the receive loop notifies exactly once with the peer's code/reason and no Exception from frame processing can skip it")
    ck.rule("C16.echo", "a received close frame sets client_terminated, parses code/reason and calls close(self.close_code) exactly once")
    ck.rule("C16.teardown", "close(): stream closed once both sides closed; the closing timer (-> _abort) is armed only when unset and removed on teardown; pinger cancelled; delegates drop the protocol after close")
    ck.rule("C16.ping-timeout", "periodic_ping resets the pong flag each round in the section that sends the ping, a pong sets it, a missed pong calls close() once and stops")
    ck.rule("C16.close-payload", "close(code, reason) writes exactly one final opcode-8 frame: empty, or 2-byte big-endian code (1000 when only a reason is given) followed by the UTF-8 reason")
    ck.rule("C16.closed-error", "stream-closed failures of write_message surface as WebSocketClosedError (sync and async)")
    consts = X.class_consts(ck.repo, W, P13)
    rule_one_close_frame(ck, consts)
    n = rule_send_apis(ck)
    ck.floor("C16.no-data-after-close", n, 4, "send API call sites")
    rule_notify(ck)
    rule_echo(ck, consts)
    rule_teardown(ck, consts)
    rule_ping_timeout(ck, consts)
    rule_close_payload(ck, consts)
    rule_is_closing(ck)
    rule_client_notify(ck)
    rule_closed_error(ck)


def _in(qn, edit, rel=W):
    return lambda repo: mutate(repo, rel, qn, edit)


def _src(st):
    return ast.unparse(st)


def _swap_adjacent(pred_first):
    def edit(root):
        for n in ast.walk(root):
            for fld in ("body", "orelse", "finalbody"):
                body = getattr(n, fld, None)
                if isinstance(body, list):
                    for i in range(len(body) - 1):
                        if isinstance(body[i], ast.stmt) and pred_first(body[i]):
                            body[i], body[i + 1] = body[i + 1], body[i]
                            return True
        return False

    return edit


def _notify_only_in_handler(root):
    tr = [n for n in root.body if isinstance(n, ast.Try)]
    nt = [n for n in root.body if isinstance(n, ast.Expr) and "on_ws_connection_close" in _src(n)]
    if not tr or not nt:
        return False
    root.body.remove(nt[0])
    tr[0].handlers[0].body.append(nt[0])
    return True


def _reset_before_loop(root):
    for i, st in enumerate(root.body):
        if isinstance(st, ast.While):
            r = [x for x in st.body if _src(x) == "self._received_pong = False"]
            if not r:
                return False
            st.body.remove(r[0])
            root.body.insert(i, r[0])
            return True
    return False


def _drop_handler(name):
    def edit(root):
        for n in ast.walk(root):
            if isinstance(n, ast.Try):
                hs = [h for h in n.handlers if h.type is not None and _src(h.type) == name]
                if hs and len(n.handlers) > 1:
                    n.handlers.remove(hs[0])
                    return True
        return False

    return edit


MUTANTS = [
    ("seeded C16-adv1: close echo only `if not self.server_terminated`", _in(P13 + "._handle_message", replace_stmt(lambda st: _src(st) == "self.close(self.close_code)", lambda st: [ast.If(test=parse_expr("not self.server_terminated"), body=[st], orelse=[])])), "C16.echo"),
    ("teardown branch of close() only when we had not closed first", _in(P13 + ".close", replace_expr(lambda n: isinstance(n, ast.Attribute) and n.attr == "client_terminated" and isinstance(n.ctx, ast.Load), lambda n: parse_expr("(self.client_terminated and self._waiting is None)"))), "C16.teardown"),
    ("is_closing() ignores that we already sent our close frame", _in(P13 + ".is_closing", replace_expr(lambda n: isinstance(n, ast.BoolOp), lambda n: ast.BoolOp(op=n.op, values=n.values[:2]))), "C16.no-data-after-close"),
    ("ping timeout 0 (disabled) closes the connection", _in(P13 + ".periodic_ping", replace_expr(lambda n: isinstance(n, ast.Compare) and _src(n) == "timeout > 0", lambda n: parse_expr("timeout >= 0"))), "C16.ping-timeout"),
    ("seeded C16-adv2: already-done write future returned without the error translation", _in(P13 + ".write_message", lambda root: bool([root.body.insert(i + 1, parse_stmt("if fut.done():\n    return fut")) for i, st in enumerate(list(root.body)) if isinstance(st, ast.Try) and "_write_frame" in _src(st)])), "C16.closed-error"),
    ("seeded C16-adv4: the client delivers the close notification before storing code and reason", _in("WebSocketClientConnection.on_ws_connection_close", lambda root: bool(root.body.insert(len([x for x in root.body if isinstance(x, ast.Expr) and isinstance(x.value, ast.Constant)]), root.body.pop()) or True)), "C16.notify-once"),
    ("undo the G5-2 repair: the receive loop handles only StreamClosedError", _in(P13 + "._receive_frame_loop", _drop_handler("Exception")), "C16.notify-once"),
    ("broad loop handler returns before the close notification", _in(P13 + "._receive_frame_loop", lambda root: bool([h.body.append(parse_stmt("return")) for n in ast.walk(root) if isinstance(n, ast.Try) for h in n.handlers if h.type is not None and _src(h.type) == "Exception"])), "C16.notify-once"),
    ("close code parsed only when a reason follows (>= 2 -> > 2)", _in(P13 + "._handle_message", replace_expr(lambda n: isinstance(n, ast.Compare) and _src(n) == "len(data) >= 2", lambda n: parse_expr("len(data) > 2"))), "C16.echo"),
    ("reason without code sent without the 1000 default", _in(P13 + ".close", remove_stmts(lambda st: isinstance(st, ast.If) and "reason is not None" in _src(st.test) and "code is None" in _src(st.test))), "C16.close-payload"),
    ("close code packed little-endian", _in(P13 + ".close", replace_expr(lambda n: isinstance(n, ast.Constant) and n.value == ">H", lambda n: ast.Constant(value="<H"))), "C16.close-payload"),
    ("close reason dropped from the frame", _in(P13 + ".close", remove_stmts(lambda st: isinstance(st, ast.If) and _src(st.test) == "reason is not None" and "close_data" in _src(st))), "C16.close-payload"),
    ("client reader never told about the close", _in("WebSocketClientConnection.on_connection_close", remove_stmts(lambda st: _src(st) == "self._on_message(None)")), "C16.notify-once"),
    ("close() forgets server_terminated = True", _in(P13 + ".close", remove_stmts(lambda st: _src(st) == "self.server_terminated = True")), "C16.one-close-frame"),
    ("close frame written regardless of server_terminated", _in(P13 + ".close", replace_expr(lambda n: isinstance(n, ast.UnaryOp) and _src(n) == "not self.server_terminated", lambda n: ast.Constant(value=True))), "C16.one-close-frame"),
    ("server_terminated set only when the write succeeded", _in(P13 + ".close", lambda root: _set_in_try(root)), "C16.one-close-frame"),
    ("undo the F13 repair: client write_message only tests `protocol is None`", _in("WebSocketClientConnection.write_message", replace_expr(lambda n: isinstance(n, ast.BoolOp) and "is_closing" in _src(n), lambda n: n.values[0])), "C16.no-data-after-close"),
    ("undo the F13 repair: client ping only tests `protocol is None`", _in("WebSocketClientConnection.ping", replace_expr(lambda n: isinstance(n, ast.BoolOp) and "is_closing" in _src(n), lambda n: n.values[0])), "C16.no-data-after-close"),
    ("WebSocketHandler.write_message ignores is_closing()", _in("WebSocketHandler.write_message", replace_expr(lambda n: isinstance(n, ast.BoolOp) and "is_closing" in _src(n), lambda n: n.values[0])), "C16.no-data-after-close"),
    ("WebSocketHandler.ping silently returns when closing", _in("WebSocketHandler.ping", replace_stmt(lambda st: isinstance(st, ast.Raise), lambda st: [parse_stmt("return None")])), "C16.no-data-after-close"),
    ("on_close() outside the flag test", _in("WebSocketHandler.on_connection_close", replace_expr(lambda n: isinstance(n, ast.UnaryOp) and "_on_close_called" in _src(n), lambda n: ast.Constant(value=True))), "C16.notify-once"),
    ("flag set after on_close() returns", _in("WebSocketHandler.on_connection_close", _swap_adjacent(lambda st: _src(st) == "self._on_close_called = True")), "C16.notify-once"),
    ("loop notifies only on StreamClosedError", _in(P13 + "._receive_frame_loop", _notify_only_in_handler), "C16.notify-once"),
    ("notification without the peer's code/reason", _in(P13 + "._receive_frame_loop", replace_expr(lambda n: q.is_call(n, "self.handler.on_ws_connection_close"), lambda n: ast.Call(func=n.func, args=[], keywords=[]))), "C16.notify-once"),
    ("handler drops the close code before notifying", _in("WebSocketHandler.on_ws_connection_close", remove_stmts(lambda st: _src(st) == "self.close_code = close_code")), "C16.notify-once"),
    ("received close frame is not echoed", _in(P13 + "._handle_message", remove_stmts(lambda st: _src(st) == "self.close(self.close_code)")), "C16.echo"),
    ("client_terminated set after the echo", _in(P13 + "._handle_message", lambda root: _move_ct_after_close(root)), "C16.echo"),
    ("close code parsed little-endian", _in(P13 + "._handle_message", replace_expr(lambda n: isinstance(n, ast.Constant) and n.value == ">H", lambda n: ast.Constant(value="<H"))), "C16.echo"),
    ("a second closing timer is armed on every close()", _in(P13 + ".close", lambda root: _elif_to_else(root)), "C16.teardown"),
    ("stream left open after both sides closed", _in(P13 + ".close", remove_stmts(lambda st: _src(st) == "self.stream.close()")), "C16.teardown"),
    ("closing timer not removed on teardown", _in(P13 + ".close", remove_stmts(lambda st: isinstance(st, ast.If) and _src(st.test) == "self._waiting is not None")), "C16.teardown"),
    ("pinger keeps running after close()", _in(P13 + ".close", remove_stmts(lambda st: isinstance(st, ast.If) and _src(st.test) == "self._ping_coroutine")), "C16.teardown"),
    ("client connection keeps the protocol after close()", _in("WebSocketClientConnection.close", remove_stmts(lambda st: _src(st).startswith("self.protocol = None"))), "C16.teardown"),
    ("pong flag reset once before the loop", _in(P13 + ".periodic_ping", _reset_before_loop), "C16.ping-timeout"),
    ("pinger continues after the timeout close", _in(P13 + ".periodic_ping", remove_stmts(lambda st: isinstance(st, ast.Return))), "C16.ping-timeout"),
    ("pong does not set the flag", _in(P13 + "._handle_message", remove_stmts(lambda st: _src(st) == "self._received_pong = True")), "C16.ping-timeout"),
    ("async write failure leaks StreamClosedError", _in(P13 + ".write_message", replace_expr(lambda n: isinstance(n, ast.Name) and n.id == "StreamClosedError", lambda n: ast.Name(id="WebSocketError", ctx=ast.Load()), limit=2)), "C16.closed-error"),
]


def _set_in_try(root):
    """move `self.server_terminated = True` into the try body after the write (skipped when the write raises)."""
    for n in ast.walk(root):
        if isinstance(n, ast.If) and _src(n.test) == "not self.server_terminated":
            st = [x for x in n.body if _src(x) == "self.server_terminated = True"]
            tr = [x for x in ast.walk(n) if isinstance(x, ast.Try)]
            if st and tr:
                n.body.remove(st[0])
                tr[0].body.append(st[0])
                tr[0].handlers[0].body = [parse_stmt("return None")]
                return True
    return False


def _move_ct_after_close(root):
    for n in ast.walk(root):
        body = getattr(n, "body", None)
        if isinstance(body, list):
            a = [x for x in body if isinstance(x, ast.stmt) and _src(x) == "self.client_terminated = True"]
            b = [x for x in body if isinstance(x, ast.stmt) and _src(x) == "self.close(self.close_code)"]
            if a and b:
                body.remove(a[0])
                body.insert(body.index(b[0]) + 1, a[0])
                return True
    return False


def _elif_to_else(root):
    for n in ast.walk(root):
        if isinstance(n, ast.If) and _src(n.test) == "self.client_terminated" and n.orelse and isinstance(n.orelse[0], ast.If):
            n.orelse = n.orelse[0].body
            return True
    return False
