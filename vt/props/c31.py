"""C31 -- routing picks the first matching rule and reverse URLs route back.

Decided (tornado/routing.py, web.py Application routing, util.re_unescape):
* first match: RuleRouter.find_handler iterates self.rules in order and returns inside the loop at the first
  non-None delegate; everything after the loop returns None; add_rules appends in order; Application keeps
  its catch-all rule last (add_handlers inserts before it);
* whole-string matching: string patterns get a trailing '$' before compilation and are applied with
  match()/fullmatch() to request.path / request.host_name;
* codec agreement: every captured group goes through the None-safe url_unescape(plus=False, bytes) wrapper and
  reverse() url_escape()s every argument with plus=False;
* format-string hygiene: literal pattern text that is joined into the '%'-format used by reverse() is
  '%'-escaped on every path, and every consumer of that format applies '%' (no raw return);
* un-reversible patterns: re_unescape rejects alphanumeric escapes with ValueError, every call in
  _find_groups is protected, reverse() refuses a missing format;
* argument plumbing: match() results reach _HandlerDelegate under the right parameter names; 404/default
  fallbacks; named-rule registration and lookup use the same key.

Not decided: reverse()/match() round trip for arbitrary regular expressions, host-pattern semantics.
"""
from __future__ import annotations

import ast

from .. import q
from ..cfg import explore, must_facts, holds, canon_fact
from ..mutate import mutate, remove_stmts, replace_expr, replace_stmt, parse_stmt, parse_expr
from ..model import AnalysisError
from ..rules import tainted_names
from ..x_valuewalk import untupled, single_assignment, own_nodes, const_collection, branch_flag, iter_order, alias_expand, xdotted, xunparse, walk

TECHNIQUE = "loop-shape + guard-dominance facts, path-sensitive anchoring typestate, must-escaped dataflow into the %-format, handler protection, argument-binding tables"
EXPLANATION = (
    "find_handler: the loop iterable is resolved (self.rules, not reversed/sorted), the in-loop return of the delegate is checked under the must-facts "
    "'delegate is not None' and 'match result is not None', all later returns are None.  __init__ of PathMatches/HostMatches: exploration tracking "
    "`p.endswith('$')` with state 'dollar appended' at every re.compile(p).  _find_groups: forward exploration carrying the set of variables whose "
    "value is %-escaped (source self.regex.pattern, sanitizer .replace('%','%%')), every pieces.append() argument must be escaped; every read of the "
    "format attribute must be a `%` application or a None test.  Bindings of call arguments to parameter names are compared across "
    "match() -> find_handler -> get_target_delegate -> get_handler_delegate -> _HandlerDelegate."
)
NOT_DECIDED = "that reverse_url(name, *args) routes back to the rule for every pattern/argument (depends on the regex); host matching semantics; nested-router composition beyond argument plumbing"

R = "tornado/routing.py"
W = "tornado/web.py"
U = "tornado/util.py"


def _impl(ck, rel, name):
    m = ck.repo.module(rel)
    c = [f for qn, f in m.funcs.items() if f.name == name and "." not in qn.replace("#", "") and not any(q.dotted(d) in ("overload", "typing.overload") for d in f.node.decorator_list)]
    if len(c) != 1:
        raise AnalysisError("%s: implementation of %s not found" % (rel, name))
    return ck.use(c[0])


def rule_first_match(ck):
    rid = "C31.first-match"
    f = ck.func(R, "RuleRouter.find_handler")
    cfg = f.cfg
    loops = [n for n in cfg.nodes if n.kind == "for" and n.id in cfg.reachable()]
    if len(loops) != 1:
        raise AnalysisError("RuleRouter.find_handler: expected one loop over the rules")
    lp = loops[0]
    order = iter_order(lp.ast.iter, "self.rules")
    if order is None:
        raise AnalysisError("RuleRouter.find_handler: loop iterable not understood: %s" % q.unparse(lp.ast.iter))
    ck.ob(rid, f, lp.ast.iter, order == "forward", "the rules are tried in the order in which they were added (iteration is %s)" % order)
    # match result and delegate variables
    rule_var = q.dotted(lp.ast.target) if isinstance(lp.ast.target, ast.Name) else None
    if isinstance(lp.ast.target, ast.Tuple):
        rule_var = q.dotted(lp.ast.target.elts[-1])
    mres = [st for st in ast.walk(lp.ast) if isinstance(st, ast.Assign) and isinstance(st.value, ast.Call) and isinstance(st.value.func, ast.Attribute) and st.value.func.attr == "match" and (q.dotted(st.value.func.value) or "").startswith(rule_var + ".")]
    dele = [st for st in ast.walk(lp.ast) if isinstance(st, ast.Assign) and isinstance(st.value, ast.Call) and q.dotted(st.value.func) == "self.get_target_delegate"]
    if len(mres) != 1 or len(dele) != 1:
        raise AnalysisError("RuleRouter.find_handler: match / delegate assignments not found")
    mvar, dvar = q.dotted(mres[0].targets[0]), q.dotted(dele[0].targets[0])
    dc = dele[0].value
    ck.ob(rid, f, dc, len(dc.args) >= 2 and q.dotted(dc.args[0]) == rule_var + ".target" and q.dotted(dc.args[1]) == f.params()[1], "the delegate is built from the matching rule's own target for this request")
    ck.ob(rid, f, mres[0].value, len(mres[0].value.args) == 1 and q.dotted(mres[0].value.args[0]) == f.params()[1], "the rule's matcher is asked about this request")
    facts = must_facts(cfg)
    rets = cfg.stmt_nodes(lambda n: n.kind == "stmt" and isinstance(n.ast, ast.Return))
    in_loop = [r for r in rets if any(r.ast is x for x in ast.walk(lp.ast))]
    after = [r for r in rets if r not in in_loop]
    hits = [r for r in in_loop if q.dotted(r.ast.value) == dvar]
    if not hits and any(isinstance(x, ast.Break) for x in ast.walk(lp.ast)):
        # single-exit form (`break` out of the loop and one return after it): not read by this rule -> fail closed
        raise AnalysisError("RuleRouter.find_handler: the loop is left with `break` instead of returning the delegate; this exit shape is not understood")
    ck.ob(rid, f, lp.ast.iter if not hits else hits[0].ast, len(hits) >= 1, "the loop returns the delegate as soon as one is found (first match wins)", construct="in-loop return of the delegate: %d" % len(hits))
    matched = branch_flag(cfg, "%s is None" % mvar, False, [mvar])
    found = branch_flag(cfg, "%s is None" % dvar, False, [dvar])
    for r in in_loop:
        if q.dotted(r.ast.value) == dvar:
            ck.ob(rid, f, r.ast, found.get(r.id, False), "only a non-None delegate ends the search")
            ck.ob(rid, f, r.ast, matched.get(r.id, False), "a delegate is only built and returned for a rule whose matcher matched")
        else:
            ck.ob(rid, f, r.ast, False, "the only value returned from inside the loop is the delegate of the matching rule")
    for r in after:
        ck.ob(rid, f, r.ast, r.ast.value is None or (isinstance(r.ast.value, ast.Constant) and r.ast.value.value is None), "when no rule produced a delegate the router returns None (caller falls back to 404/default)")
    # the delegate call happens under 'matched'
    for n in cfg.nodes_for(dc):
        ck.ob(rid, f, dc, matched.get(n.id, False), "targets of rules that did not match are never consulted")
    # no break/else games
    brk = [x for x in ast.walk(lp.ast) if isinstance(x, ast.Break)]
    ck.ob(rid, f, lp.ast.iter, not brk and not lp.ast.orelse, "the search loop has no break/else (a None delegate moves on to the next rule)", construct="break/else in loop")

    # add_rules keeps the caller's order
    ar = ck.func(R, "RuleRouter.add_rules")
    lp2 = [n for n in own_nodes(ar.node) if isinstance(n, ast.For)]
    if len(lp2) != 1:
        raise AnalysisError("RuleRouter.add_rules: loop not found")
    o2 = iter_order(lp2[0].iter, ar.params()[1])
    if o2 is None:
        raise AnalysisError("RuleRouter.add_rules: iterable not understood")
    ck.ob(rid, ar, lp2[0].iter, o2 == "forward", "add_rules walks the given rules in order")
    adds = [c for c in q.calls(ar.node) if isinstance(c.func, ast.Attribute) and q.dotted(c.func.value) == "self.rules" and c.func.attr in ("append", "insert", "extend", "appendleft")]
    ck.floor(rid, len(adds), 1, "stores into self.rules in add_rules")
    for c in adds:
        ck.ob(rid, ar, c, c.func.attr == "append" and any(c is x for x in ast.walk(lp2[0])), "each rule is appended at the end, inside the loop")
    ri = ck.func(R, "RuleRouter.__init__")
    st = q.stores_to(ri.node, "self.rules")
    ck.ob(rid, ri, ri.node, len(st) == 1 and isinstance(st[0].value, ast.List) and not st[0].value.elts, "a router starts with an empty rule list", construct="self.rules = []")

    # Application: catch-all last
    ai = ck.func(W, "Application.__init__")
    dr = [s for s in q.stores_to(ai.node, "self.default_router")]
    ok = False
    if len(dr) == 1 and isinstance(dr[0].value, ast.Call) and len(dr[0].value.args) == 2 and isinstance(dr[0].value.args[1], ast.List) and len(dr[0].value.args[1].elts) == 1:
        r0 = dr[0].value.args[1].elts[0]
        ok = q.is_call(r0, "Rule") and len(r0.args) == 2 and q.is_call(r0.args[0], "AnyMatches") and q.dotted(r0.args[1]) == "self.wildcard_router"
    ck.ob(rid, ai, dr[0] if dr else ai.node, ok, "the application's top router consists of one catch-all rule targeting the wildcard router")
    ah = ck.func(W, "Application.add_handlers")
    ins = [c for c in q.calls(ah.node) if isinstance(c.func, ast.Attribute) and q.dotted(c.func.value) == "self.default_router.rules"]
    ck.floor(rid, len(ins), 1, "stores into default_router.rules")
    for c in ins:
        okc = False
        if c.func.attr == "insert" and len(c.args) == 2:
            i = c.args[0]
            try:
                okc = q.fold(i, {}) == -1
            except q.NotFoldable:
                okc = isinstance(i, ast.BinOp) and isinstance(i.op, ast.Sub) and q.is_const(i.right, 1) and q.is_call(i.left, "len") and q.dotted(i.left.args[0]) == "self.default_router.rules"
        ck.ob(rid, ah, c, okc, "host-specific rules are inserted just before the catch-all (after earlier host rules, before the wildcard)")
    # every call of add_handlers adds a *new* rule at that position: later handlers never join an earlier group
    hp_, hh_ = ah.params()[1], ah.params()[2]
    for n_, c in [(n_, c) for n_, c in ah.cfg.find(lambda x: x in ins)]:
        ck.ob(rid, ah, c, ah.cfg.postdominates(n_, ah.cfg.entry), "a rule for the new handlers is inserted on every path of add_handlers (not merged into a rule added earlier)")
        obj = alias_expand(ah.node, c.args[-1])
        okr = q.is_call(obj, "Rule") and len(obj.args) >= 2 and q.is_call(obj.args[0], "HostMatches") and q.dotted(obj.args[0].args[0]) == hp_ and q.is_call(obj.args[1], "_ApplicationRouter") and len(obj.args[1].args) == 2 and q.dotted(obj.args[1].args[1]) == hh_
        ck.ob(rid, ah, c, bool(okr), "the inserted rule is built in this call: HostMatches(%s) -> a fresh router over exactly %s" % (hp_, hh_))
    others = [c for c in q.calls(ah.node) if isinstance(c.func, ast.Attribute) and c.func.attr in ("add_rules", "extend", "append", "insert") and hh_ in q.names_in(c) and q.dotted(c.func.value) not in ("self.wildcard_router", "self.default_router.rules")]
    ck.ob(rid, ah, others[0] if others else ah.node, not others, "the new handlers are not appended to a router that already serves an earlier rule", construct="handlers merged into %s" % [q.unparse(c.func) for c in others])
    afh = ck.func(W, "Application.find_handler")
    calls = [c for c in q.calls(afh.node) if q.dotted(c.func) == "self.default_router.find_handler"]
    ck.ob(rid, afh, calls[0] if calls else afh.node, len(calls) == 1 and q.dotted(calls[0].args[0]) == afh.params()[1], "the application routes through its top router")


def _either(a, b):
    return {k: a.get(k, False) or b.get(k, False) for k in set(a) | set(b)}


def _suffix_of(value, p):
    """the constant S when ``value`` builds ``<p> + S`` (any string-formatting spelling), else None"""
    from ..x_emit import fold_format, PH

    if any(isinstance(n, ast.FormattedValue) and n.format_spec is not None for n in ast.walk(value)):
        return None
    ff = fold_format(value)
    if ff is None or len(ff[1]) != 1 or q.dotted(ff[1][0]) != p or ff[2] != ["s"] or not ff[0].startswith(PH) or PH in ff[0][1:]:
        return None
    return ff[0][1:]


def rule_anchored(ck):
    rid = "C31.anchored"
    n_sites = 0
    for cls, subject in (("PathMatches", "path"), ("HostMatches", "host_name")):
        f = ck.func(R, cls + ".__init__")
        p = f.params()[1]
        cfg = f.cfg
        comps = [(n, c) for n, c in cfg.find(lambda x: q.is_call(x, "re.compile"))]
        ck.floor(rid, len(comps), 1, "re.compile in %s.__init__" % cls)
        t_ends = "%s.endswith('$')" % p

        def transfer(n, val, p=p):
            if n.kind == "stmt" and p in q.assigned_paths(n.ast):
                st = n.ast
                if isinstance(st, ast.AugAssign) and isinstance(st.op, ast.Add) and q.is_const(st.value, "$"):
                    return "dollar"
                if isinstance(st, ast.Assign) and isinstance(st.value, ast.BinOp) and isinstance(st.value.op, ast.Add) and q.dotted(st.value.left) == p and q.is_const(st.value.right, "$"):
                    return "dollar"
                if isinstance(st, ast.Assign) and _suffix_of(st.value, p) == "$":
                    # same concatenation written as f-string / % / str.format / "".join
                    return "dollar"
                return "unknown"
            return val

        seen = explore(cfg, "orig", transfer, lambda t: t == t_ends, follow_exc=False)
        for n, c in comps:
            n_sites += 1
            if not (c.args and q.dotted(c.args[0]) == p):
                raise AnalysisError("%s.__init__: compiled expression not understood: %s" % (cls, q.unparse(c)))
            for facts, val in sorted(seen.get(n.id, ()), key=repr):
                ok = val == "dollar" or (val == "orig" and (t_ends, True) in facts)
                ck.ob(rid, f, c, ok, "%s: a string pattern is compiled only with a trailing '$' (state %s, endswith('$') %s)" % (cls, val, "known" if (t_ends, True) in facts else "not known"),
                      construct="%s compile state=%s ends=%s" % (cls, val, (t_ends, True) in facts))
        # the compiled regex is what match() applies
        attrs = [q.dotted(st.targets[0]) for st in own_nodes(f.node) if isinstance(st, ast.Assign) and any(c is st.value for _, c in comps)]
        if len(attrs) != 1:
            raise AnalysisError("%s.__init__: compiled regex is not stored in one attribute" % cls)
        attr = attrs[0]
        mfun = ck.func(R, cls + ".match")
        req = mfun.params()[1]
        uses = [c for c in q.calls(mfun.node) if isinstance(c.func, ast.Attribute) and q.dotted(c.func.value) == attr]
        ck.floor(rid, len(uses), 1, "uses of %s in %s.match" % (attr, cls))
        for c in uses:
            ck.ob(rid, mfun, c, c.func.attr in ("match", "fullmatch"), "%s.match applies the pattern anchored at the start (match/fullmatch), not search" % cls)
            ck.ob(rid, mfun, c, len(c.args) == 1 and q.dotted(c.args[0]) == "%s.%s" % (req, subject), "%s matches against request.%s" % (cls, subject))
        # a miss is reported as None
        facts = must_facts(mfun.cfg)
        res = [q.dotted(st.targets[0]) for st in own_nodes(mfun.node) if isinstance(st, ast.Assign) and st.value in uses]
        hit = _either(branch_flag(mfun.cfg, "%s is None" % res[0], False, [res[0]]), branch_flag(mfun.cfg, res[0], True, [res[0]])) if res else {}
        miss = _either(branch_flag(mfun.cfg, "%s is None" % res[0], True, [res[0]]), branch_flag(mfun.cfg, res[0], False, [res[0]])) if res else {}
        for r in mfun.cfg.stmt_nodes(lambda n: n.kind == "stmt" and isinstance(n.ast, ast.Return)):
            v = r.ast.value
            none_ret = v is None or (isinstance(v, ast.Constant) and v.value is None)
            if res:
                if miss.get(r.id, False):
                    ck.ob(rid, mfun, r.ast, none_ret, "%s.match: no regex match -> None (rule does not apply)" % cls)
                elif not none_ret:
                    ck.ob(rid, mfun, r.ast, hit.get(r.id, False), "%s.match: parameters are returned only after a successful regex match" % cls)
            else:
                # `if regex.match(..): return {}` form
                if not none_ret:
                    ok = any(pol and any(q.unparse(u) == t for u in uses) for t, pol in facts[r.id])
                    ck.ob(rid, mfun, r.ast, ok, "%s.match: a match is reported only when the regex matched" % cls)
    ck.floor(rid, n_sites, 2, "pattern compilation sites")
    dh = ck.func(R, "DefaultHostMatches.match")
    for c in [c for c in q.calls(dh.node) if isinstance(c.func, ast.Attribute) and q.dotted(c.func.value) == "self.host_pattern"]:
        ck.ob(rid, dh, c, c.func.attr in ("match", "fullmatch"), "DefaultHostMatches applies the host pattern anchored (match/fullmatch)")


def _kw_or_pos(call, name, pos):
    return q.kwarg(call, name) or (call.args[pos] if len(call.args) > pos else None)


def rule_codec(ck):
    rid = "C31.codec"
    un = _impl(ck, R, "_unquote_or_none")
    p = un.params()[0]
    calls = [(n, c) for n, c in un.cfg.find(lambda x: q.is_call(x, "url_unescape"))]
    ck.floor(rid, len(calls), 1, "url_unescape in _unquote_or_none")
    for n, c in calls:
        plus = _kw_or_pos(c, "plus", 2)
        enc = _kw_or_pos(c, "encoding", 1)
        ck.ob(rid, un, c, plus is not None and q.is_const(plus, False), "captured path segments are unescaped in path mode (plus=False: '+' stays '+')")
        ck.ob(rid, un, c, enc is not None and isinstance(enc, ast.Constant) and enc.value is None, "captured groups are delivered as bytes (encoding=None)")
        ck.ob(rid, un, c, c.args and q.dotted(c.args[0]) == p, "the captured text itself is unescaped")
    # case analysis over the group value: unmatched (None), matched-but-empty (''), non-empty
    def outcome(e, env):
        """'none' | 'call' | None(unknown) for a returned expression under a concrete argument"""
        hops = 0
        while isinstance(e, ast.IfExp) and hops < 4:
            try:
                e = e.body if q.fold(e.test, env) else e.orelse
            except q.NotFoldable:
                return None
            hops += 1
        if e is None or (isinstance(e, ast.Constant) and e.value is None):
            return "none"
        if q.dotted(e) == p:
            return "none" if env[p] is None else None
        if any(e is c for _, c in calls):
            return "call"
        if isinstance(e, ast.BoolOp):
            # `s and f(s)` / `f(s) if s else None` style: value of a short-circuit expression
            try:
                vals = []
                for v_ in e.values:
                    if any(v_ is c for _, c in calls):
                        return "call" if (isinstance(e.op, ast.And)) else "call"
                    r_ = q.fold(v_, env)
                    if isinstance(e.op, ast.And) and not r_:
                        return "none" if r_ is None else None
                    if isinstance(e.op, ast.Or) and r_:
                        return None
                return None
            except q.NotFoldable:
                return None
        return None

    for label_, val, want in (("an unmatched optional group (None)", None, "none"), ("a group that matched the empty string", "", "call"), ("a non-empty group", "x%20y", "call")):
        env = {p: val}

        def decide(n_, env=env):
            try:
                return bool(q.fold(n_.ast, env))
            except q.NotFoldable:
                return None

        r_ = walk(un.cfg, [(un.cfg.entry.id, 0)], lambda n_, v_: v_, decide=decide)
        outs = [un.cfg.nodes[i] for i in r_ if un.cfg.nodes[i].kind == "stmt" and isinstance(un.cfg.nodes[i].ast, ast.Return)]
        if not outs:
            raise AnalysisError("_unquote_or_none: no return reached for %s" % label_)
        for o in outs:
            got = outcome(o.ast.value, env)
            if got is None:
                raise AnalysisError("_unquote_or_none: value returned for %s is not understood: %s" % (label_, q.unparse(o.ast)))
            ck.ob(rid, un, o.ast, got == want, "%s yields %s" % (label_, "None (and is not passed to url_unescape)" if want == "none" else "its unescaped bytes (the empty string is a value, not 'no match')"), construct="_unquote_or_none(%r) -> %s" % (val, got))
    pm = ck.func(R, "PathMatches.match")
    mobj = None
    for st in own_nodes(pm.node):
        if isinstance(st, ast.Assign) and isinstance(st.value, ast.Call) and isinstance(st.value.func, ast.Attribute) and st.value.func.attr in ("match", "fullmatch", "search") and q.dotted(st.value.func.value) == "self.regex":
            mobj = q.dotted(st.targets[0])
    if mobj is None:
        raise AnalysisError("PathMatches.match: match object not found")
    grp = [c for c in ast.walk(pm.node) if isinstance(c, ast.Call) and isinstance(c.func, ast.Attribute) and c.func.attr in ("groups", "groupdict", "group") and q.dotted(c.func.value) == mobj]
    ck.floor(rid, len(grp), 2, "group accesses in PathMatches.match")

    def group_kind(it):
        """which group accessor the (alias-expanded) iterable draws from"""
        mforms = (mobj, xunparse(pm.node, ast.Name(id=mobj, ctx=ast.Load())))
        ks = {c.func.attr for c in ast.walk(alias_expand(pm.node, it)) if isinstance(c, ast.Call) and isinstance(c.func, ast.Attribute) and c.func.attr in ("groups", "groupdict") and q.unparse(c.func.value) in mforms}
        return next(iter(ks)) if len(ks) == 1 else None

    comps = [x for x in ast.walk(pm.node) if isinstance(x, (ast.ListComp, ast.DictComp, ast.GeneratorExp)) and group_kind(x.generators[0].iter)]
    loops_g = [x for x in ast.walk(pm.node) if isinstance(x, ast.For) and group_kind(x.iter)]
    produced = {}      # id(comprehension) -> kind
    produced_vars = {}  # container name -> kind
    hosts = {}
    for x in comps:
        kind = group_kind(x.generators[0].iter)
        elt = x.value if isinstance(x, ast.DictComp) else x.elt
        tv = [t.id for t in ast.walk(x.generators[0].target) if isinstance(t, ast.Name)]
        ok = q.is_call(elt, un.name) and len(elt.args) == 1 and q.dotted(elt.args[0]) in tv and len(x.generators) == 1 and not x.generators[0].ifs
        hosts.setdefault(kind, []).append((x, ok))
        if ok:
            produced[id(x)] = kind
    for lp in loops_g:
        kind = group_kind(lp.iter)
        tv = [t.id for t in ast.walk(lp.target) if isinstance(t, ast.Name)]
        sinks = []
        for st in ast.walk(lp):
            if isinstance(st, ast.Call) and isinstance(st.func, ast.Attribute) and st.func.attr == "append" and isinstance(st.func.value, ast.Name):
                sinks.append((st.func.value.id, st.args[0]))
            elif isinstance(st, ast.Assign) and isinstance(st.targets[0], ast.Subscript) and isinstance(st.targets[0].value, ast.Name):
                sinks.append((st.targets[0].value.id, st.value))
        if not sinks:
            raise AnalysisError("PathMatches.match: loop over %s() does not fill a container" % kind)
        ok = all(q.is_call(alias_expand(pm.node, v), un.name) and q.dotted(alias_expand(pm.node, v).args[0]) in tv for _, v in sinks) and not any(isinstance(y, (ast.Continue, ast.Break, ast.If)) for y in ast.walk(lp))
        hosts.setdefault(kind, []).append((lp, ok))
        if ok:
            for nm, _ in sinks:
                produced_vars[nm] = kind
    for kind in ("groups", "groupdict"):
        hs = hosts.get(kind, [])
        if not hs:
            if any(g.func.attr == kind for g in grp):
                raise AnalysisError("PathMatches.match: %s() is not consumed by a recognised comprehension or loop" % kind)
            continue
        for x, ok in hs:
            ck.ob(rid, pm, x.generators[0].iter if not isinstance(x, ast.For) else x.iter, ok, "every captured group (%s()) is passed through %s, none skipped" % (kind, un.name))
    for st in own_nodes(pm.node):
        if isinstance(st, (ast.Assign, ast.AnnAssign)) and st.value is not None and id(st.value) in produced:
            for t_ in (st.targets if isinstance(st, ast.Assign) else [st.target]):
                if isinstance(t_, ast.Name):
                    produced_vars[t_.id] = produced[id(st.value)]
    # returned dict
    rets = [r for r in own_nodes(pm.node) if isinstance(r, ast.Return) and isinstance(r.value, ast.Call) and q.is_call(r.value, "dict") or isinstance(r, ast.Return) and isinstance(r.value, ast.Dict) and r.value.keys]
    ck.floor(rid, len(rets), 1, "parameter-returning exits of PathMatches.match")
    for r in rets:
        if isinstance(r.value, ast.Call):
            kv = {k.arg: k.value for k in r.value.keywords}
        else:
            kv = {k.value: v for k, v in zip(r.value.keys, r.value.values) if isinstance(k, ast.Constant)}
        for key, kind in (("path_args", "groups"), ("path_kwargs", "groupdict")):
            v = kv.get(key)
            okv = False
            if isinstance(v, ast.Name):
                vals = [st.value for st in own_nodes(pm.node) if isinstance(st, (ast.Assign, ast.AnnAssign)) and v.id in q.assigned_paths(st) and st.value is not None]
                okv = produced_vars.get(v.id) == kind and all((isinstance(x, (ast.List, ast.Dict)) and not (getattr(x, "elts", None) or getattr(x, "keys", None))) or produced.get(id(x)) == kind for x in vals)
            elif v is not None:
                okv = produced.get(id(v)) == kind
            ck.ob(rid, pm, r, okv, "%s carries the unescaped %s() of the match (or is empty)" % (key, kind), construct="%s from %s" % (key, kind))
    # named patterns deliver keyword arguments, positional patterns positional ones
    named = branch_flag(pm.cfg, "self.regex.groupindex", True, [])
    unnamed = branch_flag(pm.cfg, "self.regex.groupindex", False, [])
    for x in comps + loops_g:
        kind = produced.get(id(x)) if not isinstance(x, ast.For) else group_kind(x.iter)
        if kind is None:
            continue
        nodes = [n for n in pm.cfg.stmt_nodes(lambda n: n.kind == "stmt") if any(x is y for y in ast.walk(n.ast))] if not isinstance(x, ast.For) else [n for n in pm.cfg.nodes if n.kind == "for" and n.ast is x]
        for n in nodes:
            if kind == "groupdict":
                ck.ob(rid, pm, n.ast, named.get(n.id, False), "keyword arguments are built (from groupdict) exactly for patterns with named groups")
            else:
                ck.ob(rid, pm, n.ast, unnamed.get(n.id, False), "positional arguments are built (from groups) exactly for patterns without named groups")
    rv = ck.func(R, "PathMatches.reverse")
    esc = [c for c in q.calls(rv.node) if q.is_call(c, "url_escape")]
    ck.floor(rid, len(esc), 1, "url_escape in reverse")
    for c in esc:
        plus = _kw_or_pos(c, "plus", 1)
        ck.ob(rid, rv, c, plus is not None and q.is_const(plus, False), "reverse() escapes arguments in path mode (plus=False), the inverse of what match() undoes")
        a0 = c.args[0] if c.args else None
        ck.ob(rid, rv, c, isinstance(a0, ast.Call) and q.call_attr(a0) == "utf8", "arguments are UTF-8 encoded before escaping")
    # non-string arguments (numbers) are stringified before encoding: case analysis over the argument's type
    from .c21 import _type_oracle
    m_ = ck.repo.module(R)
    loops_r = [n for n in rv.cfg.nodes if n.kind == "for" and n.id in rv.cfg.reachable()]

    def expr_tag(e, tags, lv, tau):
        """'raw' (the argument itself) / 'str' (str() of it) / None for the value of expression ``e``"""
        if isinstance(e, ast.Name):
            return dict(tags).get(e.id, "raw" if e.id == lv else None)
        if q.is_call(e, "str") and len(e.args) == 1:
            t_ = expr_tag(e.args[0], tags, lv, tau)
            return "str" if t_ in ("raw", "str") else None
        if isinstance(e, ast.IfExp):
            class _N:  # adapt the oracle (it wants a cfg test node)
                kind = "test"
            n_ = _N()
            n_.ast = e.test
            d_ = _type_oracle(ck, m_, lv, tau)(n_)
            if d_ is None:
                return None
            return expr_tag(e.body if d_ else e.orelse, tags, lv, tau)
        return None

    for c in esc:
        a0 = c.args[0] if c.args else None
        inner = a0.args[0] if isinstance(a0, ast.Call) and a0.args else None
        comp_host = [x for x in ast.walk(rv.node) if isinstance(x, (ast.GeneratorExp, ast.ListComp)) and any(c is y for y in ast.walk(x.elt))]
        if inner is None:
            raise AnalysisError("PathMatches.reverse: argument conversion not understood: %s" % q.unparse(c))
        if comp_host:
            if len(comp_host[0].generators) != 1 or not isinstance(comp_host[0].generators[0].target, ast.Name):
                raise AnalysisError("PathMatches.reverse: comprehension over the arguments not understood")
            lv = comp_host[0].generators[0].target.id
            for tau in ("str", "bytes", "int"):
                tag = expr_tag(inner, frozenset(), lv, tau)
                if tag is None:
                    raise AnalysisError("PathMatches.reverse: value encoded for a %s argument is not understood: %s" % (tau, q.unparse(inner)))
                want = "str" if tau == "int" else "raw"
                ck.ob(rid, rv, c, tag == want, "reverse(<%s argument>): %s" % (tau if tau != "int" else "non-string", "converted with str() before it is encoded" if tau == "int" else "encoded as it is (no str() of bytes/str)"), construct="reverse arg type=%s tag=%s" % (tau, tag))
            continue
        if len(loops_r) != 1 or not isinstance(loops_r[0].ast.target, ast.Name):
            raise AnalysisError("PathMatches.reverse: argument conversion not understood: %s" % q.unparse(c))
        lv = loops_r[0].ast.target.id
        cnodes = rv.cfg.nodes_for(c)
        for tau in ("str", "bytes", "int"):
            def transfer(n, tags, lv=lv, tau=tau):
                if n.kind == "for" and n.ast is loops_r[0].ast:
                    return frozenset({(lv, "raw")})
                if n.kind == "stmt" and isinstance(n.ast, (ast.Assign, ast.AnnAssign)) and n.ast.value is not None:
                    tg = n.ast.targets if isinstance(n.ast, ast.Assign) else [n.ast.target]
                    if len(tg) == 1 and isinstance(tg[0], ast.Name):
                        d = dict(tags)
                        d[tg[0].id] = expr_tag(n.ast.value, tags, lv, tau) or "?"
                        return frozenset(d.items())
                return tags
            r_ = walk(rv.cfg, [(rv.cfg.entry.id, frozenset())], transfer, decide=_type_oracle(ck, m_, lv, tau))
            for cn in cnodes:
                for tags in r_.get(cn.id, ()):
                    tag = expr_tag(inner, tags, lv, tau)
                    if tag == "?" or tag is None:
                        raise AnalysisError("PathMatches.reverse: value encoded for a %s argument is not understood" % tau)
                    want = "str" if tau == "int" else "raw"
                    ck.ob(rid, rv, c, tag == want, "reverse(<%s argument>): %s" % (tau if tau != "int" else "non-string", "converted with str() before it is encoded" if tau == "int" else "encoded as it is (no str() of bytes/str)"), construct="reverse arg type=%s tag=%s" % (tau, tag))
    # every argument is converted and all of them are substituted
    loops = [n for n in own_nodes(rv.node) if isinstance(n, ast.For)]
    args_p = rv.node.args.vararg.arg if rv.node.args.vararg else None
    ok = False
    if len(loops) == 1 and args_p and q.dotted(loops[0].iter) == args_p:
        app = [c for c in q.calls(loops[0]) if isinstance(c.func, ast.Attribute) and c.func.attr == "append"]
        ok = len(app) == 1 and app[0].args[0] in esc and not any(isinstance(x, (ast.Continue, ast.Break)) for x in ast.walk(loops[0]))
        if ok:
            lst = q.dotted(app[0].func.value)
            mods = [r for r in own_nodes(rv.node) if isinstance(r, ast.Return) and isinstance(r.value, ast.BinOp) and isinstance(r.value.op, ast.Mod)]
            ok = bool(mods) and all(q.is_call(r.value.right, "tuple") and q.dotted(r.value.right.args[0]) == lst for r in mods)
    elif not loops:
        mods = [r for r in own_nodes(rv.node) if isinstance(r, ast.Return) and isinstance(r.value, ast.BinOp) and isinstance(r.value.op, ast.Mod)]
        gen = [x for r in mods for x in ast.walk(alias_expand(rv.node, r.value.right)) if isinstance(x, (ast.GeneratorExp, ast.ListComp))]
        ok = bool(gen) and all(q.is_call(x.elt, "url_escape") and q.dotted(x.generators[0].iter) == args_p and not x.generators[0].ifs and len(x.generators) == 1 for x in gen)
    ck.ob(rid, rv, loops[0] if loops else rv.node, ok, "every reverse() argument is escaped and substituted, in order")


def _is_pct_escape(c):
    return isinstance(c, ast.Call) and isinstance(c.func, ast.Attribute) and c.func.attr == "replace" and len(c.args) == 2 and q.is_const(c.args[0], "%") and q.is_const(c.args[1], "%%")


def _unescaped(e, tainted, escset):
    """Tainted names used in ``e`` outside a .replace('%','%%') application and not known escaped."""
    out = []

    def visit(x):
        if _is_pct_escape(x):
            return
        if isinstance(x, (ast.Name, ast.Attribute)):
            d = q.dotted(x)
            if d is not None:
                parts = d.split(".")
                pre = [".".join(parts[:i]) for i in range(1, len(parts) + 1)]
                if any(p_ in tainted for p_ in pre):
                    if not any(p_ in escset for p_ in pre):
                        out.append(d)
                    return
        for ch in ast.iter_child_nodes(x):
            visit(ch)

    visit(e)
    return out


def rule_format(ck):
    rid = "C31.format-hygiene"
    fg = untupled(ck.func(R, "PathMatches._find_groups"))
    init = ck.func(R, "PathMatches.__init__")
    # which attribute holds the format
    fmt_attr = None
    for st in own_nodes(init.node):
        if isinstance(st, ast.Assign) and q.is_call(st.value, "self._find_groups") and isinstance(st.targets[0], ast.Tuple):
            fmt_attr = q.dotted(st.targets[0].elts[0])
    if fmt_attr is None:
        raise AnalysisError("PathMatches.__init__: result of _find_groups is not unpacked into attributes")
    # consumers
    cls_funcs = ck.repo.methods(R, "PathMatches")
    n_mod = 0
    consumers = []
    for f in cls_funcs:
        pm = q.parent_map(f.node)
        for x in q.walk_body(f.node):
            if isinstance(x, ast.Attribute) and q.dotted(x) == fmt_attr and isinstance(x.ctx, ast.Load):
                par = pm.get(x)
                consumers.append((f, x, par))
    uses_mod = any(isinstance(par, ast.BinOp) and isinstance(par.op, ast.Mod) and par.left is x for _, x, par in consumers)
    if not uses_mod:
        raise AnalysisError("PathMatches: %s is not consumed by a %%-format application (unknown reversal idiom)" % fmt_attr)
    for f, x, par in consumers:
        if isinstance(par, ast.BinOp) and isinstance(par.op, ast.Mod) and par.left is x:
            n_mod += 1
            ck.ob(rid, f, par, True, "%s is applied as a %%-format" % fmt_attr)
        elif isinstance(par, ast.Compare) and all(isinstance(o, (ast.Is, ast.IsNot)) for o in par.ops):
            continue
        elif isinstance(par, (ast.If, ast.UnaryOp, ast.BoolOp)):
            continue  # truthiness test
        else:
            ck.use(f)
            ck.ob(rid, f, par if isinstance(par, ast.AST) else x, False, "%s is a %%-format ('%%%%' stands for a literal '%%'): it must not be used or returned without applying '%%'" % fmt_attr)
    ck.floor(rid, n_mod, 1, "%-format applications")
    # producer
    cfg = fg.cfg
    tainted = tainted_names(fg, ["self.regex.pattern"])
    rets = [r for r in cfg.stmt_nodes(lambda n: n.kind == "stmt" and isinstance(n.ast, ast.Return))]
    joined = set()
    for r in rets:
        v = r.ast.value
        first = v.elts[0] if isinstance(v, ast.Tuple) and v.elts else None
        if first is None or (isinstance(first, ast.Constant) and first.value is None):
            continue
        if isinstance(first, ast.Call) and isinstance(first.func, ast.Attribute) and first.func.attr == "join" and len(first.args) == 1 and isinstance(first.args[0], ast.Name):
            joined.add(first.args[0].id)
        else:
            raise AnalysisError("_find_groups: returned format not understood: %s" % q.unparse(first))
    if len(joined) != 1:
        raise AnalysisError("_find_groups: no joined piece list returned")
    pieces = joined.pop()
    sinks = [(n, c) for n, c in cfg.find(lambda x: isinstance(x, ast.Call) and isinstance(x.func, ast.Attribute) and q.dotted(x.func.value) == pieces and x.func.attr in ("append", "extend", "insert"))]
    ck.floor(rid, len(sinks), 1, "piece stores in _find_groups")

    def transfer(n, esc):
        if n.kind == "for":
            tg = {x.id for x in ast.walk(n.ast.target) if isinstance(x, ast.Name)}
            clean = not _unescaped(n.ast.iter, tainted, esc)
            src = bool(q.paths_in(n.ast.iter) & tainted)
            return (esc - tg) | (frozenset(tg) if (clean and src) else frozenset())
        if n.kind == "stmt" and isinstance(n.ast, (ast.Assign, ast.AnnAssign, ast.AugAssign)) and n.ast.value is not None:
            tg = set()
            for t in ([n.ast.target] if not isinstance(n.ast, ast.Assign) else n.ast.targets):
                tg |= {x.id for x in ast.walk(t) if isinstance(x, ast.Name) and isinstance(x.ctx, ast.Store)}
            v = n.ast.value
            src = bool(q.paths_in(v) & tainted) or any(_is_pct_escape(c) for c in ast.walk(v))
            clean = not _unescaped(v, tainted, esc)
            if isinstance(n.ast, ast.AugAssign):
                clean = clean and all(t in esc for t in tg)
            return (esc - frozenset(tg)) | (frozenset(tg) if (clean and src) else frozenset())
        return esc

    seen = explore(cfg, frozenset(), transfer, lambda t: False, follow_exc=False)
    for n, c in sinks:
        arg = c.args[-1]
        states = seen.get(n.id, set())
        bad = sorted({nm for _f, esc in states for nm in _unescaped(arg, tainted, esc)})
        ck.ob(rid, fg, c, bool(states) and not bad, "pattern text stored into the %%-format is '%%'-escaped on every path%s" % ("" if not bad else " (unescaped: %s)" % bad))
        lits = [k.value for k in ast.walk(arg) if isinstance(k, ast.Constant) and isinstance(k.value, str) and not any(_is_pct_escape(p_) and k in p_.args for p_ in ast.walk(arg))]
        for nm in [x.id for x in ast.walk(arg) if isinstance(x, ast.Name) and x.id not in tainted and not any(_is_pct_escape(p_) and x in ast.walk(p_) for p_ in ast.walk(arg))]:
            vals_ = [st_.value for st_ in q.stores_to(fg.node, nm)]
            if vals_ and all(isinstance(v_, ast.Constant) and isinstance(v_.value, str) for v_ in vals_):
                lits += [v_.value for v_ in vals_]
            elif vals_:
                raise AnalysisError("_find_groups: piece component %s is neither pattern text nor a string constant" % nm)
        ck.ob(rid, fg, c, all(s.replace("%s", "").replace("%%", "").count("%") == 0 for s in lits), "literal pieces contain only %s directives", construct="literals %s" % lits)
    return fmt_attr


def rule_unescape(ck):
    rid = "C31.unescape"
    fg = untupled(ck.func(R, "PathMatches._find_groups"))
    calls = [c for c in q.calls(fg.node) if q.is_call(c, "re_unescape")]
    ck.floor(rid, len(calls), 1, "re_unescape calls in _find_groups")
    pm = q.parent_map(fg.node)
    for c in calls:
        h = q.protected_by(pm, c, "ValueError")
        ck.ob(rid, fg, c, h is not None, "a pattern fragment that cannot be unescaped (ValueError) is handled: the rule is just not reversible")
        if h is not None:
            rets = [r for r in ast.walk(h) if isinstance(r, ast.Return)]
            ok = bool(rets) and all(isinstance(r.value, ast.Tuple) and r.value.elts and isinstance(r.value.elts[0], ast.Constant) and r.value.elts[0].value is None for r in rets) and not [x for x in ast.walk(h) if isinstance(x, ast.Raise)]
            ck.ob(rid, fg, h, ok, "the handler reports 'no reverse format' (None)")
    # patterns whose '(' count differs from the number of capturing groups (non-capturing groups, escaped
    # parentheses, nesting) cannot be reversed by splitting on '(': the piece construction is guarded
    cfg = fg.cfg
    guard = None
    for t in cfg.stmt_nodes(lambda n: n.kind == "test"):
        e = t.ast
        if isinstance(e, ast.Compare) and len(e.ops) == 1 and isinstance(e.ops[0], (ast.Eq, ast.NotEq)):
            sides = [e.left, e.comparators[0]]
            cnt = [x for x in sides if isinstance(x, ast.Call) and isinstance(x.func, ast.Attribute) and x.func.attr == "count" and x.args and q.is_const(x.args[0], "(")]
            grp = [x for x in sides if q.dotted(x) == "self.regex.groups"]
            if len(cnt) == 1 and len(grp) == 1:
                guard = (e, isinstance(e.ops[0], ast.Eq), q.dotted(cnt[0].func.value))
    sinks = [n for n, c in cfg.find(lambda x: isinstance(x, ast.Call) and isinstance(x.func, ast.Attribute) and x.func.attr == "append")]
    if guard is None:
        ck.ob(rid, fg, fg.node, False, "a pattern whose '(' count differs from its number of groups is declared not reversible", construct="group-count guard missing")
    else:
        bf = branch_flag(cfg, q.unparse(guard[0]), guard[1], [])
        for n in sinks:
            ck.ob(rid, fg, n.ast, bf.get(n.id, False), "reverse pieces are built only when every '(' of the pattern opens a capturing group")
        split_src = [c for c in ast.walk(fg.node) if isinstance(c, ast.Call) and isinstance(c.func, ast.Attribute) and c.func.attr == "split" and c.args and q.is_const(c.args[0], "(")]
        ck.ob(rid, fg, split_src[0] if split_src else fg.node, len(split_src) == 1 and q.dotted(split_src[0].func.value) == guard[2], "the text that is split on '(' is the text whose '(' were counted")
    # exactly the anchors are stripped, exactly the text after the closing parenthesis is kept
    for t in cfg.stmt_nodes(lambda t: t.kind == "test"):
        e = t.ast
        if isinstance(e, ast.Call) and isinstance(e.func, ast.Attribute) and e.func.attr in ("startswith", "endswith") and len(e.args) == 1 and isinstance(e.args[0], ast.Constant) and isinstance(e.args[0].value, str) and isinstance(e.func.value, ast.Name):
            var, lit = e.func.value.id, e.args[0].value
            bf = branch_flag(cfg, q.unparse(e), True, [var])
            for n in cfg.stmt_nodes(lambda n: n.kind == "stmt" and isinstance(n.ast, ast.Assign) and var in q.assigned_paths(n.ast) and isinstance(n.ast.value, ast.Subscript) and q.dotted(n.ast.value.value) == var and isinstance(n.ast.value.slice, ast.Slice)):
                if not bf.get(n.id, False):
                    continue
                sl = n.ast.value.slice
                try:
                    lo = q.fold(sl.lower, {}) if sl.lower is not None else None
                    hi = q.fold(sl.upper, {}) if sl.upper is not None else None
                except q.NotFoldable:
                    raise AnalysisError("_find_groups: anchor-stripping slice not understood: %s" % q.unparse(n.ast))
                want = (len(lit), None) if e.func.attr == "startswith" else (None, -len(lit))
                ck.ob(rid, fg, n.ast, (lo, hi) == want and sl.step is None, "exactly the %r anchor is removed from the pattern text (%d character)" % (lit, len(lit)))
    # a group ends at the FIRST ')' of its fragment (a later ')' is an escaped literal of the text after the group)
    locs = [c for c in ast.walk(fg.node) if isinstance(c, ast.Call) and isinstance(c.func, ast.Attribute) and c.args and q.is_const(c.args[0], ")") and c.func.attr in ("index", "find", "partition", "split", "rfind", "rindex", "rpartition", "rsplit")]
    ck.floor(rid, len(locs), 1, "look-ups of the group's closing parenthesis in _find_groups")
    for c in locs:
        first = c.func.attr in ("index", "find", "partition") or (c.func.attr == "split" and len(c.args) == 2 and q.is_const(c.args[1], 1))
        last_ = c.func.attr in ("rfind", "rindex", "rpartition", "rsplit")
        if not first and not last_:
            raise AnalysisError("_find_groups: look-up of ')' not understood: %s" % q.unparse(c))
        ck.ob(rid, fg, c, first, "the capturing group is taken to end at the first ')' of the fragment (text after it, including an escaped ')', is literal)")
    for n in cfg.stmt_nodes(lambda n: n.kind == "stmt" and isinstance(n.ast, ast.Assign) and isinstance(n.ast.value, ast.Call) and isinstance(n.ast.value.func, ast.Attribute) and n.ast.value.func.attr in ("index", "find") and n.ast.value.args and q.is_const(n.ast.value.args[0], ")")):
        loc = q.dotted(n.ast.targets[0])
        frag = q.dotted(n.ast.value.func.value)
        uses = [x for x in ast.walk(fg.node) if isinstance(x, ast.Subscript) and q.dotted(x.value) == frag and isinstance(x.slice, ast.Slice) and loc in q.names_in(x.slice)]
        for x in uses:
            lo = x.slice.lower
            okp = isinstance(lo, ast.BinOp) and isinstance(lo.op, ast.Add) and q.dotted(lo.left) == loc and q.is_const(lo.right, 1) and x.slice.upper is None
            ck.ob(rid, fg, x, okp, "the literal text kept after a group starts right after its closing parenthesis")
    ru = ck.func(U, "re_unescape")
    rr = ck.func(U, "_re_unescape_replacement")
    m = ck.repo.module(U)
    # re_unescape = PATTERN.sub(replacement, s)
    rets = [r for r in own_nodes(ru.node) if isinstance(r, ast.Return)]
    pat_name = None
    for r in rets:
        c = alias_expand(ru.node, r.value)
        if not (isinstance(c, ast.Call) and isinstance(c.func, ast.Attribute) and c.func.attr == "sub"):
            raise AnalysisError("re_unescape: returned value is not a regular-expression substitution: %s" % q.unparse(r.value))
        ok = len(c.args) == 2 and q.dotted(c.args[0]) == rr.name and q.dotted(c.args[1]) == ru.params()[0]
        ck.ob(rid, ru, r, ok, "re_unescape substitutes every backslash escape of its argument")
        if ok:
            pat_name = q.dotted(c.func.value)
    if pat_name and pat_name in m.assigns and q.is_call(m.assigns[pat_name], "re.compile"):
        from .. import x_sre

        pc = m.assigns[pat_name]
        pat = x_sre.pattern_constant(pc.args[0])
        flags = x_sre.flag_value(q.kwarg(pc, "flags") or (pc.args[1] if len(pc.args) > 1 else None))
        tree = list(x_sre.parse(pat, flags))
        ok = len(tree) == 2 and tree[0][0] is x_sre._OP["LITERAL"] and tree[0][1] == ord("\\") and tree[1][0] is x_sre._OP["SUBPATTERN"]
        inner = list(tree[1][1][3]) if ok else []
        ok = ok and len(inner) == 1 and inner[0][0] is x_sre._OP["ANY"] and bool(flags & 16)
        ck.ob(rid, None, pc, ok, "the escape pattern is a backslash followed by any one character (including newline), captured", construct="escape pattern %r flags %d" % (pat, flags), file=U)
    else:
        raise AnalysisError("re_unescape: escape pattern constant not found")
    # replacement: ValueError for alphanumerics, else the escaped character itself
    p = rr.params()[0]
    facts = must_facts(rr.cfg)
    gv = None
    for st in own_nodes(rr.node):
        if isinstance(st, ast.Assign) and q.is_call(st.value, p + ".group") and q.is_const(st.value.args[0], 1):
            gv = q.dotted(st.targets[0])
    raises = rr.cfg.stmt_nodes(lambda n: n.kind == "stmt" and isinstance(n.ast, ast.Raise))
    ck.ob(rid, rr, rr.node, len(raises) >= 1, "escapes that are not quoted literals (\\d, \\w, \\b ...) are rejected", construct="raise sites %d" % len(raises))
    # membership tests on the escaped character (through aliases): <char> in <set>
    char_forms = {"%s.group(1)" % p, "%s.group(1)[0]" % p, "%s[1]" % p, "%s[1][0]" % p}
    mem_tests = []
    for t in rr.cfg.stmt_nodes(lambda t: t.kind == "test"):
        e = t.ast
        if isinstance(e, ast.Compare) and len(e.ops) == 1 and isinstance(e.ops[0], (ast.In, ast.NotIn)) and xunparse(rr.node, e.left) in char_forms and isinstance(e.comparators[0], ast.Name):
            mem_tests.append((e, isinstance(e.ops[0], ast.In), e.comparators[0].id))
    set_name = mem_tests[0][2] if mem_tests and len({x[2] for x in mem_tests}) == 1 else None

    def member_at(node, want):
        return any(branch_flag(rr.cfg, q.unparse(e), (pos == want), []).get(node.id, False) for e, pos, _ in mem_tests)

    for r in raises:
        ex = r.ast.exc
        cls = q.dotted(ex.func) if isinstance(ex, ast.Call) else q.dotted(ex)
        ck.ob(rid, rr, r.ast, cls == "ValueError", "an escape that is not a quoted literal is reported with ValueError (what _find_groups catches)")
        ck.ob(rid, rr, r.ast, member_at(r, True), "the rejection is decided by membership of the escaped character in the alphanumeric set")
    for r in rr.cfg.stmt_nodes(lambda n: n.kind == "stmt" and isinstance(n.ast, ast.Return)):
        ck.ob(rid, rr, r.ast, xunparse(rr.node, r.ast.value) in ("%s.group(1)" % p, "%s[1]" % p), "a quoted literal is replaced by the character itself (backslash dropped)")
        if set_name:
            ck.ob(rid, rr, r.ast, member_at(r, False), "and only when the character is not alphanumeric")
    if set_name and set_name in m.assigns:
        coll = m.assigns[set_name]
        chars = None
        if isinstance(coll, ast.Call) and q.call_attr(coll) in ("frozenset", "set") and coll.args and isinstance(coll.args[0], ast.Constant) and isinstance(coll.args[0].value, str):
            chars = set(coll.args[0].value)
        elif isinstance(coll, ast.Constant) and isinstance(coll.value, str):
            chars = set(coll.value)
        want = set("abcdefghijklmnopqrstuvwxyzABCDEFGHIJKLMNOPQRSTUVWXYZ0123456789")
        ck.ob(rid, None, coll, chars is not None and want <= chars and not (chars - want - {"_"}), "the alphanumeric set covers exactly [A-Za-z0-9] (all regex class/anchor escapes such as \\d \\w \\b \\Z are alphanumeric; re.escape never escapes alphanumerics)", construct="alphanumeric set", file=U)
    elif set_name:
        raise AnalysisError("alphanumeric set %s not found" % set_name)
    # reverse refuses a missing format
    rv = ck.func(R, "PathMatches.reverse")
    facts = must_facts(rv.cfg)
    mods = [(n, x) for n, x in rv.cfg.find(lambda x: isinstance(x, ast.BinOp) and isinstance(x.op, ast.Mod) and q.dotted(x.left) == "self._path")]
    for n, x in mods:
        ck.ob(rid, rv, x, holds(facts[n.id], "self._path is None", False), "reverse() formats only when a reverse format exists")
    r2 = [r for r in rv.cfg.stmt_nodes(lambda n: n.kind == "stmt" and isinstance(n.ast, ast.Raise)) if holds(facts[r.id], "self._path is None", True)]
    ck.ob(rid, rv, rv.node, len(r2) >= 1, "reverse() of an un-reversible pattern raises instead of returning a wrong URL", construct="raise when _path is None")


def _bind(call, params):
    b = {params[i]: a for i, a in enumerate(call.args) if i < len(params) and not isinstance(a, ast.Starred)}
    b.update({k.arg: k.value for k in call.keywords if k.arg})
    star = [k.value for k in call.keywords if k.arg is None]
    return b, star


def rule_plumbing(ck):
    rid = "C31.args-forwarded"
    fh = ck.func(R, "RuleRouter.find_handler")
    dele = [c for c in q.calls(fh.node) if q.dotted(c.func) == "self.get_target_delegate"]
    mres = [st for st in ast.walk(fh.node) if isinstance(st, ast.Assign) and isinstance(st.value, ast.Call) and isinstance(st.value.func, ast.Attribute) and st.value.func.attr == "match"]
    mvar = q.dotted(mres[0].targets[0]) if mres else None
    for c in dele:
        b, star = _bind(c, ck.func(R, "RuleRouter.get_target_delegate").params()[1:])
        ck.ob(rid, fh, c, any(q.dotted(s) == mvar for s in star), "the matcher's parameters (path_args/path_kwargs) are passed on as keyword arguments (**%s)" % mvar)
    gt = ck.func(R, "RuleRouter.get_target_delegate")
    kw = gt.node.args.kwarg.arg if gt.node.args.kwarg else None
    nested = [c for c in q.calls(gt.node) if isinstance(c.func, ast.Attribute) and c.func.attr == "find_handler"]
    facts = must_facts(gt.cfg)
    for c in nested:
        b, star = _bind(c, ["request"])
        ck.ob(rid, gt, c, q.dotted(c.args[0]) == gt.params()[2] and any(q.dotted(s) == kw for s in star), "a nested router is asked about the same request")
        for n in gt.cfg.nodes_for(c):
            ck.ob(rid, gt, c, holds(facts[n.id], "isinstance(%s, Router)" % gt.params()[1], True), "only Router targets are searched recursively")
    ck.floor(rid, len(nested), 1, "nested router dispatch")
    ag = ck.func(W, "_ApplicationRouter.get_target_delegate")
    akw = ag.node.args.kwarg.arg if ag.node.args.kwarg else None
    ghd = ck.func(W, "Application.get_handler_delegate")
    calls = [c for c in q.calls(ag.node) if isinstance(c.func, ast.Attribute) and c.func.attr == ghd.name]
    ck.floor(rid, len(calls), 1, "get_handler_delegate call")
    for c in calls:
        b, star = _bind(c, ghd.params()[1:])
        ck.ob(rid, ag, c, q.dotted(b.get("request")) == ag.params()[2] and q.dotted(b.get("target_class")) == ag.params()[1] and any(q.dotted(s) == akw for s in star), "handler classes receive the request, the class and the matcher's parameters")
    sup = [c for c in q.calls(ag.node) if isinstance(c.func, ast.Attribute) and c.func.attr == ag.name and isinstance(c.func.value, ast.Call) and q.dotted(c.func.value.func) == "super"]
    for c in sup:
        b, star = _bind(c, ag.params()[1:])
        ck.ob(rid, ag, c, q.dotted(b.get(ag.params()[1])) == ag.params()[1] and q.dotted(b.get(ag.params()[2])) == ag.params()[2] and any(q.dotted(s) == akw for s in star), "other targets fall back to the generic dispatch with the same arguments")
    # get_handler_delegate -> _HandlerDelegate: names line up
    hd = ck.func(W, "_HandlerDelegate.__init__")
    hp = hd.params()[1:]
    cons = [c for c in q.calls(ghd.node) if q.is_call(c, "_HandlerDelegate")]
    ck.floor(rid, len(cons), 1, "_HandlerDelegate construction")
    want = {"application": "self", "request": "request", "handler_class": "target_class", "handler_kwargs": "target_kwargs", "path_args": "path_args", "path_kwargs": "path_kwargs"}
    for c in cons:
        b, _ = _bind(c, hp)
        for k, v in want.items():
            if k in hp:
                ck.ob(rid, ghd, c, q.dotted(b.get(k)) == v, "_HandlerDelegate.%s receives %s" % (k, v), construct="_HandlerDelegate %s <- %s" % (k, q.unparse(b[k]) if k in b else "missing"))
    for k in ("path_args", "path_kwargs"):
        st = q.stores_to(hd.node, "self." + k)
        ok = len(st) == 1 and k in q.names_in(st[0].value)
        ck.ob(rid, hd, st[0] if st else hd.node, ok, "_HandlerDelegate keeps %s for the handler method call" % k)
    # matcher's result keys are the parameter names of get_handler_delegate
    pmm = ck.func(R, "PathMatches.match")
    keys = set()
    for r in own_nodes(pmm.node):
        if isinstance(r, ast.Return) and q.is_call(r.value, "dict"):
            keys |= {k.arg for k in r.value.keywords}
        elif isinstance(r, ast.Return) and isinstance(r.value, ast.Dict):
            keys |= {k.value for k in r.value.keys if isinstance(k, ast.Constant)}
    ck.ob(rid, pmm, pmm.node, keys and keys <= set(ghd.params()), "the keys PathMatches.match returns (%s) are parameters of get_handler_delegate" % sorted(keys), construct="match keys %s" % sorted(keys))
    tk = [st for st in ast.walk(fh.node) if isinstance(st, ast.Assign) and isinstance(st.targets[0], ast.Subscript) and q.dotted(st.targets[0].value) == mvar]
    for st in tk:
        key = st.targets[0].slice.value if isinstance(st.targets[0].slice, ast.Constant) else None
        ck.ob(rid, fh, st, key in ghd.params(), "extra routing parameter %r is a parameter of get_handler_delegate" % key)


def rule_fallback(ck):
    rid = "C31.fallback"
    afh = ck.func(W, "Application.find_handler")
    cfg = afh.cfg
    facts = must_facts(cfg)
    rets = cfg.stmt_nodes(lambda n: n.kind == "stmt" and isinstance(n.ast, ast.Return))
    route = None
    for st in own_nodes(afh.node):
        if isinstance(st, ast.Assign) and q.is_call(st.value, "self.default_router.find_handler"):
            route = q.dotted(st.targets[0])
    if route is None:
        raise AnalysisError("Application.find_handler: route variable not found")
    n404 = 0
    no_route = branch_flag(cfg, "%s is None" % route, True, [route])
    for r in rets:
        v = r.ast.value
        if route in q.names_in(v):
            ck.ob(rid, afh, r.ast, holds(facts[r.id], "%s is None" % route, False), "a found route is returned")
            continue
        ck.ob(rid, afh, r.ast, no_route.get(r.id, False), "fallback handlers are used only when no rule matched")
        if isinstance(v, ast.Call) and q.dotted(v.func) == "self.get_handler_delegate":
            if len(v.args) >= 2 and xdotted(afh.node, v.args[1]) == "ErrorHandler":
                n404 += 1
                kw = alias_expand(afh.node, v.args[2] if len(v.args) > 2 else q.kwarg(v, "target_kwargs"))
                items = None
                if isinstance(kw, ast.Dict) and all(isinstance(k, ast.Constant) for k in kw.keys):
                    items = {k.value: val for k, val in zip(kw.keys, kw.values)}
                elif q.is_call(kw, "dict") and not kw.args:
                    items = {k.arg: k.value for k in kw.keywords if k.arg}
                if items is None or "status_code" not in items or not isinstance(alias_expand(afh.node, items["status_code"]), ast.Constant):
                    raise AnalysisError("Application.find_handler: arguments of the ErrorHandler fallback not understood: %s" % q.unparse(v))
                ck.ob(rid, afh, r.ast, alias_expand(afh.node, items["status_code"]).value == 404, "the last resort is ErrorHandler with status 404")
            else:
                ok = any(pol and "default_handler_class" in t for t, pol in facts[r.id])
                ck.ob(rid, afh, r.ast, ok, "a configured default handler is used only when the setting is present")
    ck.ob(rid, afh, afh.node, n404 == 1, "exactly one 404 fallback", construct="404 fallbacks %d" % n404)
    ck.ob(rid, afh, afh.node, cfg.exit.id in cfg.reachable() and all(isinstance(p_[0].ast, ast.Return) for p_ in cfg.predecessors(cfg.exit) if p_[0].kind == "stmt") and all(p_[0].kind == "stmt" for p_ in cfg.predecessors(cfg.exit)), "every path of Application.find_handler returns a delegate", construct="no fall-through")
    rd = ck.func(R, "_RoutingDelegate.headers_received")
    facts = must_facts(rd.cfg)
    dm = [(n, c) for n, c in rd.cfg.find(lambda x: q.is_call(x, "_DefaultMessageDelegate"))]
    ck.floor(rid, len(dm), 1, "_DefaultMessageDelegate construction")
    for n, c in dm:
        ck.ob(rid, rd, c, holds(facts[n.id], "self.delegate is None", True), "the 404 delegate is used exactly when the router found nothing")
    df = ck.func(R, "_DefaultMessageDelegate.finish")
    sl = [c for c in q.calls(df.node) if q.call_attr(c) == "ResponseStartLine"]
    ck.ob(rid, df, sl[0] if sl else df.node, len(sl) == 1 and len(sl[0].args) >= 2 and q.is_const(sl[0].args[1], 404), "the default delegate answers 404")


def rule_reverse_lookup(ck):
    rid = "C31.reverse-lookup"
    pr = ck.func(R, "ReversibleRuleRouter.process_rule")
    facts = must_facts(pr.cfg)
    reg = [(n, n.ast) for n in pr.cfg.stmt_nodes(lambda n: n.kind == "stmt" and isinstance(n.ast, ast.Assign) and isinstance(n.ast.targets[0], ast.Subscript) and q.dotted(n.ast.targets[0].value) == "self.named_rules")]
    ck.floor(rid, len(reg), 1, "named rule registration")
    rule_p = pr.params()[1]
    named = branch_flag(pr.cfg, rule_p + ".name", True, [rule_p, rule_p + ".name"])
    for n, st in reg:
        ck.ob(rid, pr, st, q.dotted(st.targets[0].slice) == rule_p + ".name" and q.dotted(st.value) == rule_p, "a named rule is registered under its own name")
        ck.ob(rid, pr, st, named.get(n.id, False), "only rules that have a name are registered")
    rets = [r for r in own_nodes(pr.node) if isinstance(r, ast.Return)]
    ck.ob(rid, pr, pr.node, bool(rets) and all(q.dotted(r.value) == rule_p for r in rets), "process_rule hands the rule back to add_rules", construct="return rule")
    ru = ck.func(R, "ReversibleRuleRouter.reverse_url")
    name_p = ru.params()[1]
    va = ru.node.args.vararg.arg if ru.node.args.vararg else None
    facts = must_facts(ru.cfg)
    hits = [(n, c) for n, c in ru.cfg.find(lambda x: isinstance(x, ast.Call) and isinstance(x.func, ast.Attribute) and x.func.attr == "reverse")]
    ck.floor(rid, len(hits), 1, "reverse() call in reverse_url")
    for n, c in hits:
        recv = c.func.value
        sub = [x for x in ast.walk(recv) if isinstance(x, ast.Subscript) and q.dotted(x.value) == "self.named_rules"]
        ck.ob(rid, ru, c, len(sub) == 1 and q.dotted(sub[0].slice) == name_p, "the rule registered under the requested name is reversed")
        ck.ob(rid, ru, c, len(c.args) == 1 and isinstance(c.args[0], ast.Starred) and q.dotted(c.args[0].value) == va, "with the caller's arguments")
        ck.ob(rid, ru, c, holds(facts[n.id], "%s in self.named_rules" % name_p, True), "only if that name is registered")
    rec = [(n, c) for n, c in ru.cfg.find(lambda x: isinstance(x, ast.Call) and isinstance(x.func, ast.Attribute) and x.func.attr == "reverse_url")]
    ck.floor(rid, len(rec), 1, "nested reverse_url")
    for n, c in rec:
        ck.ob(rid, ru, c, len(c.args) == 2 and q.dotted(c.args[0]) == name_p and isinstance(c.args[1], ast.Starred), "nested reversible routers are asked for the same name and arguments")
    aru = ck.func(W, "Application.reverse_url")
    calls = [c for c in q.calls(aru.node) if q.dotted(c.func) == "self.default_router.reverse_url"]
    ck.ob(rid, aru, calls[0] if calls else aru.node, len(calls) == 1 and q.dotted(calls[0].args[0]) == aru.params()[1] and len(calls[0].args) == 2 and isinstance(calls[0].args[1], ast.Starred), "Application.reverse_url asks its top router")
    raises = [r for r in own_nodes(aru.node) if isinstance(r, ast.Raise)]
    ck.ob(rid, aru, raises[0] if raises else aru.node, len(raises) == 1 and q.dotted(raises[0].exc.func if isinstance(raises[0].exc, ast.Call) else raises[0].exc) == "KeyError", "an unknown name is an error (KeyError), not a silent None")
    # URLSpec wires the pattern into a PathMatches
    us = ck.func(R, "URLSpec.__init__")
    pmc = [c for c in q.calls(us.node) if q.is_call(c, "PathMatches")]
    ck.ob(rid, us, pmc[0] if pmc else us.node, len(pmc) == 1 and q.dotted(pmc[0].args[0]) == us.params()[1], "URLSpec matches its pattern with PathMatches")
    ri_ = ck.func(R, "Rule.__init__")
    rp_ = ri_.params()[1:]
    sup = [c for c in q.calls(us.node) if isinstance(c.func, ast.Attribute) and c.func.attr == "__init__"]
    mvar = [q.dotted(st.targets[0]) for st in own_nodes(us.node) if isinstance(st, ast.Assign) and st.value in pmc]
    for c in sup:
        b = {rp_[i]: a for i, a in enumerate(c.args) if i < len(rp_)}
        b.update({k.arg: k.value for k in c.keywords})
        up = us.params()
        ok = bool(mvar) and q.dotted(b.get("matcher")) == mvar[0] and q.dotted(b.get("target")) == up[2] and q.dotted(b.get("target_kwargs")) == up[3] and q.dotted(b.get("name")) == up[4]
        ck.ob(rid, us, c, ok, "URLSpec hands (matcher, handler, kwargs, name) to Rule under the matching parameter names")
    for attr in ("matcher", "target", "name"):
        st = q.stores_to(ri_.node, "self." + attr)
        ck.ob(rid, ri_, st[-1] if st else ri_.node, bool(st) and q.dotted(st[-1].value) == attr, "Rule keeps its %s" % attr, construct="self.%s = %s" % (attr, attr))
    ar = ck.func(R, "RuleRouter.add_rules")
    pmc2 = [c for c in q.calls(ar.node) if q.is_call(c, "PathMatches")]
    ck.ob(rid, ar, pmc2[0] if pmc2 else ar.node, len(pmc2) == 1, "string patterns in rule tuples become PathMatches")


def run(ck):
    from ..x_valuewalk import guard_obligations, canonical

    ck.repo = canonical(ck.repo, ["tornado/routing.py", "tornado/util.py", "tornado/web.py"], keep_names=('_DEFAULT_AUTOESCAPE',))

    # one level of delegation: new private helpers of routing.py (not the anchored ones) are inlined (vt.x_inline)
    from .. import x_inline

    ck.repo = x_inline.inline_repo(ck.repo, ["tornado/routing.py"], keep=['_find_groups', '_unquote_or_none'])
    from ..x_valuewalk import expand_result_variable, coalesce_copies

    ck.repo = expand_result_variable(ck.repo, "tornado/routing.py", ['_unquote_or_none', 'match'])
    ck.repo = coalesce_copies(ck.repo, "tornado/routing.py", ['__init__'])
    guard_obligations(ck, ['_find_groups', '_unquote_or_none', '_re_unescape_replacement', '_load_ui_modules', '_load_ui_methods', '_execute', '_has_stream_request_body', '_parse_body'])
    ck.rule("C31.first-match", "RuleRouter.find_handler tries self.rules in insertion order and returns inside the loop at the first non-None delegate of a matching rule, else None; add_rules appends in order; Application keeps the catch-all rule last")
    ck.rule("C31.anchored", "string patterns are compiled with a trailing '$' and applied with match()/fullmatch() to request.path / request.host_name; a regex miss yields None")
    ck.rule("C31.codec", "captured groups all pass through the None-safe url_unescape(encoding=None, plus=False); reverse() url_escape(utf8(arg), plus=False) for every argument")
    ck.rule("C31.format-hygiene", "pattern text joined into the reverse %-format is '%'-escaped on every path, literals contain only %s, and every use of the format applies '%'")
    ck.rule("C31.unescape", "re_unescape raises ValueError exactly for alphanumeric escapes and drops the backslash otherwise; each call in _find_groups is protected and yields 'not reversible'; reverse() raises for a missing format")
    ck.rule("C31.args-forwarded", "matcher parameters flow as **kwargs through find_handler/get_target_delegate into get_handler_delegate and _HandlerDelegate under the same names")
    ck.rule("C31.fallback", "Application.find_handler: found route, else configured default, else ErrorHandler 404; RuleRouter users get a 404 delegate when nothing matched")
    ck.rule("C31.reverse-lookup", "named rules are registered under rule.name and reversed by that name with the caller's arguments, recursively through nested reversible routers; unknown names raise KeyError")
    rule_first_match(ck)
    rule_anchored(ck)
    rule_codec(ck)
    rule_format(ck)
    rule_unescape(ck)
    rule_plumbing(ck)
    rule_fallback(ck)
    rule_reverse_lookup(ck)


def _in(rel, qn, edit):
    return lambda repo: mutate(repo, rel, qn, edit)


def _u(n):
    return ast.unparse(n)


def _impl_edit(rel, name, edit):
    def ed(tree):
        for st in tree.body:
            if isinstance(st, ast.FunctionDef) and st.name == name and not st.decorator_list:
                return edit(st)
        return False

    return lambda repo: mutate(repo, rel, None, ed)


def _last_match_wins(fn):
    # remember the delegate and keep going; return the last one after the loop
    for n in ast.walk(fn):
        if isinstance(n, ast.For):
            for sub in ast.walk(n):
                if isinstance(sub, ast.If) and _u(sub.test) == "delegate is not None":
                    sub.body = [parse_stmt("found = delegate")]
                    fn.body.insert(0, parse_stmt("found = None"))
                    fn.body[-1] = parse_stmt("return found")
                    return True
    return False


def _drop_dollar(cls):
    def ed(fn):
        for n in ast.walk(fn):
            if isinstance(n, ast.If) and "endswith" in _u(n.test):
                n.body = [ast.Pass()]
                return True
        return False

    return _in(R, cls + ".__init__", ed)


def _set_kw(callee, kw, value):
    def ed(fn):
        for n in ast.walk(fn):
            if isinstance(n, ast.Call) and q.call_attr(n) == callee:
                for k in n.keywords:
                    if k.arg == kw:
                        k.value = ast.Constant(value=value)
                        return True
        return False

    return ed


def _unescape_pct(which):
    """undo the F21 repair at the which-th append"""
    def ed(fn):
        hits = [n for n in ast.walk(fn) if isinstance(n, ast.Call) and isinstance(n.func, ast.Attribute) and n.func.attr == "replace" and len(n.args) == 2 and q.is_const(n.args[0], "%")]
        hits.sort(key=lambda n: n.lineno)
        if which >= len(hits):
            return False
        tgt = hits[which]
        return replace_expr(lambda x: x is tgt, lambda x: x.func.value)(fn)

    return ed


MUTANTS = [
    ("rules tried in reverse order", _in(R, "RuleRouter.find_handler", replace_expr(lambda n: isinstance(n, ast.Attribute) and _u(n) == "self.rules", lambda n: parse_expr("reversed(self.rules)"))), "C31.first-match"),
    ("last matching rule wins", _in(R, "RuleRouter.find_handler", _last_match_wins), "C31.first-match"),
    ("targets consulted even when the matcher said no", _in(R, "RuleRouter.find_handler", replace_expr(lambda n: isinstance(n, ast.Compare) and _u(n) == "target_params is not None", lambda n: parse_expr("target_params is not None or rule.target_kwargs"))), "C31.first-match"),
    ("new rules are put in front", _in(R, "RuleRouter.add_rules", replace_expr(lambda n: isinstance(n, ast.Call) and _u(n.func) == "self.rules.append", lambda n: parse_expr("self.rules.insert(0, self.process_rule(rule))"))), "C31.first-match"),
    ("host rules appended after the catch-all", _in(W, "Application.add_handlers", replace_expr(lambda n: isinstance(n, ast.Call) and _u(n.func) == "self.default_router.rules.insert", lambda n: parse_expr("self.default_router.rules.append(rule)"))), "C31.first-match"),
    ("host rules inserted in front (reverse host order)", _in(W, "Application.add_handlers", replace_expr(lambda n: isinstance(n, ast.UnaryOp) and _u(n) == "-1", lambda n: ast.Constant(value=0))), "C31.first-match"),
    ("path patterns no longer end-anchored", _drop_dollar("PathMatches"), "C31.anchored"),
    ("host patterns no longer end-anchored", _drop_dollar("HostMatches"), "C31.anchored"),
    ("path matched with search()", _in(R, "PathMatches.match", replace_expr(lambda n: isinstance(n, ast.Attribute) and _u(n) == "self.regex.match", lambda n: parse_expr("self.regex.search"))), "C31.anchored"),
    ("'$' appended only to patterns that start with '^'", _in(R, "PathMatches.__init__", replace_expr(lambda n: isinstance(n, ast.UnaryOp) and "endswith" in _u(n), lambda n: parse_expr("path_pattern.startswith('^') and not path_pattern.endswith('$')"))), "C31.anchored"),
    ("captured groups unescaped in query mode (plus=True)", _impl_edit(R, "_unquote_or_none", _set_kw("url_unescape", "plus", True)), "C31.codec"),
    ("reverse escapes in query mode (plus=True)", _in(R, "PathMatches.reverse", _set_kw("url_escape", "plus", True)), "C31.codec"),
    ("named groups delivered without unescaping", _in(R, "PathMatches.match", replace_expr(lambda n: isinstance(n, ast.DictComp), lambda n: parse_expr("{str(k): v for (k, v) in match.groupdict().items()}"))), "C31.codec"),
    ("named-group test inverted: positional patterns deliver nothing", _in(R, "PathMatches.match", replace_expr(lambda n: isinstance(n, ast.Attribute) and _u(n) == "self.regex.groupindex", lambda n: parse_expr("not self.regex.groupindex"))), "C31.codec"),
    ("numeric reverse() arguments are no longer stringified", _in(R, "PathMatches.reverse", remove_stmts(lambda st: isinstance(st, ast.If) and "isinstance" in _u(st.test))), "C31.codec"),
    ("seeded C31-adv3: empty matched group becomes None (truthiness instead of `is None`)", _impl_edit(R, "_unquote_or_none", lambda fn: (fn.body.__setitem__(slice(len(fn.body) - 2, len(fn.body)), [parse_stmt("return url_unescape(s, encoding=None, plus=False) if s else None")]) or True)), "C31.codec"),
    ("optional groups crash: None passed to url_unescape", _impl_edit(R, "_unquote_or_none", remove_stmts(lambda st: isinstance(st, ast.If))), "C31.codec"),
    ("F21 repair undone after a group", _in(R, "PathMatches._find_groups", _unescape_pct(0)), "C31.format-hygiene"),
    ("F21 repair undone for the leading fragment", _in(R, "PathMatches._find_groups", _unescape_pct(1)), "C31.format-hygiene"),
    ("reverse() of a group-less pattern returns the raw format", _in(R, "PathMatches.reverse", replace_stmt(lambda st: isinstance(st, ast.Assign) and _u(st) == "converted_args = []", lambda st: [parse_stmt("if not args:\n    return self._path"), st])), "C31.format-hygiene"),
    ("escaped too early: '%' doubled before re_unescape only on one branch", _in(R, "PathMatches._find_groups", lambda fn: (_unescape_pct(1)(fn) and replace_stmt(lambda st: isinstance(st, ast.If) and "startswith('^')" in _u(st.test), lambda st: [st, parse_stmt("if pattern.endswith('/'):\n    pattern = pattern.replace('%', '%%')")])(fn))), "C31.format-hygiene"),
    ("unescapable fragment is not caught", _in(R, "PathMatches._find_groups", replace_stmt(lambda st: isinstance(st, ast.Try) and "re_unescape(fragment)" in _u(st), lambda st: st.body)), "C31.unescape"),
    ("patterns with non-capturing groups are 'reversed' anyway", _in(R, "PathMatches._find_groups", remove_stmts(lambda st: isinstance(st, ast.If) and "count" in _u(st.test))), "C31.unescape"),
    ("'$' stripping removes two characters", _in(R, "PathMatches._find_groups", replace_expr(lambda n: isinstance(n, ast.Subscript) and _u(n) == "pattern[:-1]", lambda n: parse_expr("pattern[:-2]"))), "C31.unescape"),
    ("seeded C31-adv6: group end located with rfind (last ')' instead of the first)", _in(R, "PathMatches._find_groups", replace_expr(lambda n: isinstance(n, ast.Attribute) and n.attr == "index" and _u(n.value) == "fragment", lambda n: ast.Attribute(value=n.value, attr="rindex", ctx=ast.Load()))), "C31.unescape"),
    ("closing parenthesis kept in the reverse text", _in(R, "PathMatches._find_groups", replace_expr(lambda n: isinstance(n, ast.BinOp) and _u(n) == "paren_loc + 1", lambda n: parse_expr("paren_loc"))), "C31.unescape"),
    ("re_unescape lets \\d through", _in(U, "_re_unescape_replacement", remove_stmts(lambda st: isinstance(st, ast.If))), "C31.unescape"),
    ("re_unescape keeps the backslash", _in(U, "_re_unescape_replacement", replace_stmt(lambda st: isinstance(st, ast.Return), lambda st: [parse_stmt("return match.group(0)")])), "C31.unescape"),
    ("digits not treated as class escapes", lambda repo: mutate(repo, U, None, lambda tree: replace_expr(lambda n: isinstance(n, ast.Constant) and isinstance(n.value, str) and n.value.startswith("abcdefghijklmnopqrstuvwxyzABC"), lambda n: ast.Constant(value="abcdefghijklmnopqrstuvwxyzABCDEFGHIJKLMNOPQRSTUVWXYZ"))(tree)), "C31.unescape"),
    ("path_args and path_kwargs swapped on the way to the handler", _in(W, "Application.get_handler_delegate", replace_expr(lambda n: isinstance(n, ast.Call) and _u(n.func) == "_HandlerDelegate", lambda n: parse_expr("_HandlerDelegate(self, request, target_class, target_kwargs, path_kwargs, path_args)"))), "C31.args-forwarded"),
    ("matcher parameters dropped for handler classes", _in(W, "_ApplicationRouter.get_target_delegate", replace_expr(lambda n: isinstance(n, ast.Call) and "get_handler_delegate" in _u(n.func), lambda n: parse_expr("self.application.get_handler_delegate(request, target)"))), "C31.args-forwarded"),
    ("no route falls through to a 500-style handler", _in(W, "Application.find_handler", replace_expr(lambda n: q.is_const(n, 404), lambda n: ast.Constant(value=500))), "C31.fallback"),
    ("default handler used even when a route was found", _in(W, "Application.find_handler", replace_expr(lambda n: isinstance(n, ast.Compare) and _u(n) == "route is not None", lambda n: parse_expr("route is not None and not self.settings.get('default_handler_class')"))), "C31.fallback"),
    ("rule registered under a constant key", _in(R, "ReversibleRuleRouter.process_rule", replace_stmt(lambda st: isinstance(st, ast.Assign) and "self.named_rules[" in _u(st.targets[0]), lambda st: [parse_stmt("self.named_rules[str(rule.name).lower()] = rule")])), "C31.reverse-lookup"),
    ("URLSpec passes its name as the handler kwargs", _in(R, "URLSpec.__init__", replace_expr(lambda n: isinstance(n, ast.Call) and "__init__" in _u(n.func), lambda n: parse_expr("super().__init__(matcher, handler, name, kwargs)"))), "C31.reverse-lookup"),
    ("unknown names reverse to None", _in(W, "Application.reverse_url", replace_stmt(lambda st: isinstance(st, ast.Raise), lambda st: [parse_stmt("return None")])), "C31.reverse-lookup"),
]
