"""C24 - XSRF protection accepts exactly the tokens issued for the cookie.

Decided statically (DESIGN.md section 4, C24):

* MPT in ``RequestHandler._execute`` - ``prepare()`` and the handler method call
  are reached, for every request method outside GET/HEAD/OPTIONS with the
  ``xsrf_cookies`` setting on, only after ``self.check_xsrf_cookie()`` returned
  normally (path-sensitive exploration; the method predicate is *evaluated* for
  every method of a universe, not matched as text).
* ``check_xsrf_cookie`` - the normal return is dominated by a non-empty decoded
  token and by the success of a whole-value comparison between the decoded
  request token and the cookie's token; where both operands come from; only
  ``HTTPError(403)`` is raised; nothing else escapes (400 from argument decoding
  excepted).
* EXC - ``_decode_xsrf_token`` lets no exception escape: each fallible operation
  on the attacker's text (hex decoding, 4-way unpack, int(), the 4-byte mask
  routine, the explicit ``raise Exception``) is inside a handler that catches
  its class.
* TBL - ``xsrf_token`` (issuance) and ``_decode_xsrf_token`` agree on arity,
  separator, positions of mask / masked token / timestamp, inverse codecs and the
  tuple position of the token used by ``check_xsrf_cookie`` and
  ``_get_raw_xsrf_token``; a freshly generated token is sent as the cookie.
"""
from __future__ import annotations

import ast

from .. import q
from ..cfg import must_facts, explore
from ..model import AnalysisError
from ..mutate import mutate, remove_stmts, replace_expr, replace_stmt, parse_stmt, parse_expr
from ..x_secflow import own_nodes, concat_canon, scalar_const, Reach, Escapes, is_unpack, strip_wrappers, same, parsed_facts, fact_geq0, equality_fact, absent_or_unknown

TECHNIQUE = "path-sensitive must-pass-through on the CFG of _execute with exhaustive evaluation of the method predicate, guard dominance + reaching-definition expansion in check_xsrf_cookie, exception-escape analysis, issuer/decoder role tables"
EXPLANATION = (
    "explore() over RequestHandler._execute with abstract value (checked, possible methods, setting) - the branch predicate on self.request.method is folded "
    "for every method of a universe; governed sites prepare() and the getattr-bound handler call. check_xsrf_cookie: must-facts at the normal exit expanded through "
    "reaching definitions (non-empty decoded token, compare_digest success on whole values, operand provenance, token sources). Escape analysis of "
    "_decode_xsrf_token / check_xsrf_cookie / _get_raw_xsrf_token against a frozen raise model. Field tables of xsrf_token vs _decode_xsrf_token."
)
NOT_DECIDED = (
    "the if-and-only-if over the token encoding space (that XOR masking and hex are bijections is trusted, only their pairing is checked); subclasses overriding "
    "check_xsrf_cookie (ErrorHandler does, by design) or _execute; that self.request.method does not change during _execute; cookie attributes; delivery of body chunks to data_received of a stream_request_body handler after a failed check (the exception path settles _prepared_future by design)"
)
LEVEL_NOTE = "Structural necessary conditions only. Trusted: hmac.compare_digest, binascii, get_argument raises at most HTTPError(400), header/cookie accessors and logging do not raise."

W = "tornado/web.py"
RH = "RequestHandler"
SAFE_METHODS = frozenset(["GET", "HEAD", "OPTIONS"])
EXTRA_METHODS = ("CONNECT", "TRACE", "PROPFIND", "post", "Get")
HEADER_SOURCES = {"x-xsrftoken", "x-csrftoken"}
HEX_INV = {"b2a_hex": "a2b_hex", "hexlify": "unhexlify"}


def is_self_call(x, name, nargs=None):
    return isinstance(x, ast.Call) and isinstance(x.func, ast.Attribute) and x.func.attr == name and isinstance(x.func.value, ast.Name) and x.func.value.id == "self" and (nargs is None or len(x.args) == nargs)


def node_has_call(n, pred):
    if n.ast is None or n.kind not in ("stmt", "test", "for", "with"):
        return False
    from ..cfg import _node_roots

    return any(pred(x) for root in _node_roots(n) for x in q.walk_local(root))


# ---------------------------------------------------------------------------
# _execute gate


def is_setting_test(e):
    """``<...>.settings.get("xsrf_cookies")`` (truthiness), possibly wrapped in bool()."""
    while isinstance(e, ast.Call) and isinstance(e.func, ast.Name) and e.func.id == "bool" and len(e.args) == 1:
        e = e.args[0]
    return isinstance(e, ast.Call) and isinstance(e.func, ast.Attribute) and e.func.attr == "get" and e.args and isinstance(e.args[0], ast.Constant) and e.args[0].value == "xsrf_cookies" \
        and (q.dotted(e.func.value) or "").endswith("settings")


def request_controlled(e):
    """The condition reads data the requester controls (headers, body, arguments, cookies)."""
    for x in ast.walk(e):
        d = q.dotted(x) if isinstance(x, ast.Attribute) else None
        if d and d.startswith("self.request.") and not d.startswith("self.request.method"):
            return True
        if isinstance(x, ast.Call) and is_self_call(x, x.func.attr if isinstance(x.func, ast.Attribute) else "") and x.func.attr in ("get_argument", "get_arguments", "get_body_argument", "get_query_argument", "get_cookie"):
            return True
    return False


def check_gate(ck, ex):
    rd = Reach(ex)
    cfg = ex.cfg
    supported = ck.repo.class_attr(W, RH, "SUPPORTED_METHODS")
    try:
        declared = frozenset(q.fold(supported, {}))
        universe = declared | frozenset(EXTRA_METHODS)
        # a subclass may extend SUPPORTED_METHODS by further (upper-case) method tokens; other spellings stay unsupported
        supported_env = tuple(sorted(declared | {m for m in EXTRA_METHODS if m.isupper()}))
    except q.NotFoldable:
        raise AnalysisError("RequestHandler.SUPPORTED_METHODS is not a literal")
    ck.need(len(universe - SAFE_METHODS) >= 4, "method universe too small")

    # governed sites
    def is_handler_call(node, x):
        if not isinstance(x, ast.Call):
            return False
        f = rd.expand(x.func, node)
        return isinstance(f, ast.Call) and isinstance(f.func, ast.Name) and f.func.id == "getattr" and len(f.args) >= 2 and isinstance(f.args[0], ast.Name) and f.args[0].id == "self" \
            and "self.request.method" in q.unparse(f.args[1])

    governed = []
    for n in cfg.stmt_nodes():
        if node_has_call(n, lambda x: is_self_call(x, "prepare", 0)):
            governed.append((n, "self.prepare()"))
        if node_has_call(n, lambda x, n=n: is_handler_call(n, x)):
            governed.append((n, "the handler method (getattr(self, method.lower()))"))
    from ..rules import settle_sites

    pm = q.parent_map(ex.node)
    for n, c, path, _kind in settle_sites(ex, "self._prepared_future"):
        if not any(isinstance(a, ast.ExceptHandler) for a in q.ancestors(pm, c)):
            governed.append((n, "release of the request body to the handler (self._prepared_future settled on the normal path)"))
    ck.floor("C24.gate", len([g for g in governed if "prepare" in g[1]]), 1, "prepare() call sites in _execute")
    ck.floor("C24.gate", len([g for g in governed if "handler" in g[1]]), 1, "handler method call sites in _execute")
    checks = [n for n in cfg.stmt_nodes() if node_has_call(n, lambda x: is_self_call(x, "check_xsrf_cookie", 0))]
    ck.floor("C24.gate", len(checks), 1, "check_xsrf_cookie() call sites in _execute")
    check_ids = {n.id for n in checks}

    def is_pure_pred(e):
        for x in ast.walk(e):
            if isinstance(x, (ast.BoolOp, ast.UnaryOp, ast.Compare, ast.Constant, ast.Tuple, ast.List, ast.Set, ast.Name, ast.Attribute, ast.expr_context, ast.boolop, ast.unaryop, ast.cmpop)):
                continue
            if isinstance(x, ast.Call) and (is_setting_test(x) or (isinstance(x.func, ast.Attribute) and x.func.attr in ("lower", "upper") and not x.args and q.dotted(x.func.value) is not None)):
                continue
            if isinstance(x, ast.Call) and isinstance(x.func, ast.Name) and x.func.id == "bool" and len(x.args) == 1:
                continue
            return False
        return True

    def alias_free(n, e=None, depth=0):
        """The test with locals that merely name an attribute path, the setting lookup or a
        side-effect-free predicate over them (named booleans) substituted."""
        import copy

        e = copy.deepcopy(n.ast if e is None else e)

        class T(ast.NodeTransformer):
            def visit_Name(self, node):
                d = rd.unique(n, node.id)
                if d is not None and d.kind == "assign" and d.value is not None and isinstance(node.ctx, ast.Load) and depth < 6 and is_pure_pred(d.value):
                    return alias_free(d.node, d.value, depth + 1)
                return node

        return T().visit(e)

    # boolean flag locals (every definition is a True/False constant): tracked path-sensitively
    flag_defs = {}
    for d in rd.defs:
        if d.kind == "param" or d.path in ("self",):
            continue
        flag_defs.setdefault(d.path, []).append(d)
    flags = {p_ for p_, ds in flag_defs.items() if "." not in p_ and all(d.kind == "assign" and isinstance(d.value, ast.Constant) and isinstance(d.value.value, bool) for d in ds)}

    def const_resolved(e):
        """Module-level / class-level constant collections (``_SAFE = frozenset((...))``) spelled out, container
        constructors of a literal reduced to the literal."""
        import copy

        locals_ = set(q.local_names(ex.node))

        def literal(v, depth=0):
            if isinstance(v, ast.Call) and isinstance(v.func, ast.Name) and v.func.id in ("frozenset", "set", "tuple", "list") and len(v.args) == 1 and not v.keywords:
                return literal(v.args[0], depth)
            if isinstance(v, (ast.Tuple, ast.List, ast.Set)) and all(isinstance(x, ast.Constant) for x in v.elts):
                return ast.Tuple(elts=list(v.elts), ctx=ast.Load())
            if isinstance(v, ast.Name) and depth < 3 and v.id in ex.module.assigns:
                return literal(ex.module.assigns[v.id], depth + 1)
            return None

        class T(ast.NodeTransformer):
            def visit_Name(self, node):
                if node.id not in locals_ and node.id in ex.module.assigns:
                    lit = literal(ex.module.assigns[node.id])
                    if lit is not None:
                        return lit
                return node

            def visit_Attribute(self, node):
                d = q.dotted(node)
                if d and d.split(".")[0] in ("self", "cls", RH) and len(d.split(".")) == 2 and d != "self.SUPPORTED_METHODS":
                    try:
                        lit = literal(ck.repo.class_attr(W, RH, node.attr))
                    except AnalysisError:
                        lit = None
                    if lit is not None:
                        return lit
                return self.generic_visit(node)

            def visit_Call(self, node):
                self.generic_visit(node)
                lit = literal(node)
                return lit if lit is not None else node

        return T().visit(copy.deepcopy(e))

    def scalars(e):
        """module-/class-level scalar constants (a hoisted setting key, a hoisted method name) spelled out"""
        locals_ = set(q.local_names(ex.node))

        class T(ast.NodeTransformer):
            def visit_Name(self, node):
                if node.id not in locals_ and isinstance(node.ctx, ast.Load):
                    try:
                        return ast.copy_location(ast.Constant(value=scalar_const(ex.module, ex.cls, node)), node)
                    except KeyError:
                        pass
                return node

        return T().visit(e)

    def case_folded(e):
        """``self.request.method.lower()/.upper()`` -> pseudo variables so the predicate stays evaluable."""
        import copy

        class T(ast.NodeTransformer):
            def visit_Call(self, node):
                self.generic_visit(node)
                if isinstance(node.func, ast.Attribute) and node.func.attr in ("lower", "upper") and not node.args and q.dotted(node.func.value) == "self.request.method":
                    return ast.Name(id="__m_" + node.func.attr, ctx=ast.Load())
                return node

        return T().visit(copy.deepcopy(e))

    def transfer(n, val):
        checked, methods, setting, fl = val
        if n.id in check_ids:
            checked = True
        if flags and n.kind == "stmt" and isinstance(n.ast, (ast.Assign, ast.AnnAssign)):
            for p_ in q.assigned_paths(n.ast) & flags:
                fl = frozenset({(k, v) for k, v in fl if k != p_} | {(p_, n.ast.value.value)})
        return (checked, methods, setting, fl)

    recognised_tests = set()

    def edge(n, kind, val):
        checked, methods, setting, fl = val
        if n.kind == "test" and kind in ("true", "false"):
            if isinstance(n.ast, ast.Name) and n.ast.id in flags:
                recognised_tests.add(n.id)
                known = dict(fl).get(n.ast.id)
                if known is not None and known != (kind == "true"):
                    return None
                return (checked, methods, setting, frozenset({(k, v) for k, v in fl if k != n.ast.id} | {(n.ast.id, kind == "true")}))
            e = scalars(alias_free(n))
            if is_setting_test(e):
                recognised_tests.add(n.id)
                setting = kind == "true"
            elif any(isinstance(x, ast.Constant) and x.value == "xsrf_cookies" for x in ast.walk(e)):
                raise AnalysisError("_execute: test of the xsrf_cookies setting in an unknown shape: %s" % q.unparse(e)[:80])
            elif request_controlled(e) and "self.request.method" not in q.unparse(e):
                recognised_tests.add(n.id)  # the requester chooses this branch: both edges are possible for every method
            elif "self.request.method" in q.unparse(e):
                recognised_tests.add(n.id)
                keep = set()
                e = case_folded(const_resolved(e))
                for m in methods:
                    try:
                        v = bool(q.fold(e, {"self.request.method": m, "__m_lower": m.lower(), "__m_upper": m.upper(), "self.SUPPORTED_METHODS": supported_env}))
                    except q.NotFoldable as exn:
                        raise AnalysisError("_execute: branch on the request method cannot be evaluated statically: %s (%s)" % (q.unparse(e)[:80], exn))
                    if v == (kind == "true"):
                        keep.add(m)
                if not keep:
                    return None
                methods = frozenset(keep)
        return (checked, methods, setting, fl)

    seen = explore(cfg, (False, universe, None, frozenset()), transfer, lambda t: False, edge_transfer=edge, exc_effect=False)
    # every test the check call is control-dependent on must be one the exploration understood;
    # otherwise an "unchecked" path may be an artefact of a condition the rule cannot read
    from ..x_secflow import guarding_tests

    for cn in checks:
        for t, _kind in guarding_tests(cfg, cn):
            if t.id not in recognised_tests:
                raise AnalysisError("_execute: check_xsrf_cookie() depends on a condition the rule does not understand: %s" % q.unparse(t.ast)[:80])
    for n, what in governed:
        states = seen.get(n.id, set())
        ck.need(states, "_execute: governed site %s unreachable in exploration" % what)
        bad = set()
        for _f, (checked, methods, setting, _fl) in states:
            if checked or setting is False:
                continue
            bad |= set(methods) - SAFE_METHODS
        ck.ob("C24.gate", ex, n.ast, not bad, "%s is reached for methods outside GET/HEAD/OPTIONS with xsrf_cookies on only after check_xsrf_cookie() returned%s" % (what, "" if not bad else "; unchecked for " + ", ".join(sorted(bad))),
              construct="gate of " + what)
    # the check is the real method: a call on self, result not caught-and-ignored is covered by the exception edges above
    return len(governed)


# ---------------------------------------------------------------------------
# check_xsrf_cookie


def token_pos(e, method):
    """``__unpack__(self.<method>(...), p, n)`` or ``self.<method>(...)[p]`` -> (p, n|None, call)"""
    e = strip_wrappers(e)
    u = is_unpack(e)
    if u is not None:
        src, p, n = u
        if is_self_call(src, method):
            return p, n, src
        return None
    if isinstance(e, ast.Subscript) and isinstance(e.slice, ast.Constant) and isinstance(e.slice.value, int) and e.slice.value >= 0 and is_self_call(e.value, method):
        return e.slice.value, None, e.value
    return None


def classify_source(e):
    a0 = q.arg(e, 0, "name") if isinstance(e, ast.Call) else None
    if is_self_call(e, "get_argument") and isinstance(a0, ast.Constant) and a0.value == "_xsrf":
        return "form:_xsrf"
    h0 = q.arg(e, 0, "key") if isinstance(e, ast.Call) else None
    if isinstance(e, ast.Call) and isinstance(e.func, ast.Attribute) and e.func.attr == "get" and q.dotted(e.func.value) == "self.request.headers" and isinstance(h0, ast.Constant) \
            and isinstance(h0.value, str) and h0.value.lower() in HEADER_SOURCES:
        return "header:" + h0.value.lower()
    return None


def check_check(ck, chk, raw, dec):
    cfg = chk.cfg
    rd = Reach(chk)
    facts = must_facts(cfg)
    ck.need(cfg.pred[cfg.exit.id], "check_xsrf_cookie has no normal return")
    at = cfg.exit
    xf = [(rd.expand(e, at), pol, text) for e, pol, text in parsed_facts(facts[at.id])]
    cmpf = None
    partial = None
    for E, pol, text in xf:
        pair = None
        if isinstance(E, ast.Call) and q.call_attr(E) == "compare_digest" and len(E.args) == 2 and pol:
            pair = E.args
        else:
            eq = equality_fact(E, pol)
            if eq and eq[2]:
                pair = (eq[0], eq[1])
        if pair is None:
            continue
        a, b = pair
        for x, y in ((a, b), (b, a)):
            tx, ty = token_pos(x, dec.name), token_pos(y, raw.name)
            if tx and ty:
                cmpf = (tx, ty, text)
            elif partial is None and any(is_self_call(z, dec.name) for z in ast.walk(x)) and any(is_self_call(z, raw.name) for z in ast.walk(y)):
                partial = text
    mentions_dec = lambda E: any(is_self_call(z, dec.name) for z in ast.walk(E))
    mentions_raw = lambda E: any(is_self_call(z, raw.name) for z in ast.walk(E))
    if cmpf is None and partial is None:
        understood = set()
        for n in cfg.stmt_nodes():
            from ..x_secflow import node_exprs

            for e in node_exprs(n):
                E = rd.expand(e, n)
                pr = E.args if isinstance(E, ast.Call) and q.call_attr(E) == "compare_digest" and len(E.args) == 2 else None
                eqn = equality_fact(E, True)
                if pr is None and eqn:
                    pr = (eqn[0], eqn[1])
                if pr and ((token_pos(pr[0], dec.name) and token_pos(pr[1], raw.name)) or (token_pos(pr[1], dec.name) and token_pos(pr[0], raw.name))):
                    understood.add(n.id)  # the whole-value comparison itself: if it does not hold at the exit, a path avoids its success edge
        absent_or_unknown(rd, at, lambda E: mentions_dec(E) and mentions_raw(E), understood, "the token comparison")
    ck.ob("C24.check-accept", chk, chk.node, cmpf is not None,
          "normal return dominated by the success of a whole-value comparison between the decoded request token and the cookie's token%s" % (": " + cmpf[2] if cmpf else ("; found only a comparison of derived parts: " + partial if partial else "")),
          construct="exit: token comparison")
    if cmpf is None:
        return None
    (p1, n1, call_dec), (p2, n2, call_raw), _text = cmpf
    ck.ob("C24.token-position", chk, chk.node, p1 == p2 and (n1 == n2 or None in (n1, n2)), "both operands are the same tuple position (%s of %s / %s of %s) of _decode_xsrf_token(...) and _get_raw_xsrf_token()" % (p1, n1, p2, n2), construct="exit: operand positions")
    # non-empty
    tok = None
    for E, pol, text in xf:
        t = token_pos(E, dec.name)
        if pol and t and t[0] == p1 and same(t[2], call_dec):
            tok = text
        eq0 = equality_fact(E, pol)
        if eq0 and not eq0[2]:
            for a, b in ((eq0[0], eq0[1]), (eq0[1], eq0[0])):
                if isinstance(b, ast.Constant) and b.value in (0, b"", "") and ((isinstance(a, ast.Call) and isinstance(a.func, ast.Name) and a.func.id == "len" and b.value == 0 and token_pos(a.args[0], dec.name))
                                                                                 or (b.value != 0 and token_pos(a, dec.name))):
                    tok = text
        g = fact_geq0(E, pol)
        if g:
            coefs, const, strict, atoms = g
            if len(coefs) == 1:
                (k, c), = coefs.items()
                a = atoms[k]
                if c > 0 and isinstance(a, ast.Call) and isinstance(a.func, ast.Name) and a.func.id == "len" and token_pos(a.args[0], dec.name) and (const < 0 or (strict and const == 0)):
                    tok = text
    if tok is None:
        insufficient = set()
        for n in cfg.stmt_nodes(lambda n: n.kind == "test"):
            E = rd.expand(n.ast, n)
            if isinstance(E, ast.Compare) and len(E.ops) == 1 and isinstance(E.ops[0], (ast.Is, ast.IsNot)) and isinstance(E.comparators[0], ast.Constant) and E.comparators[0].value is None:
                insufficient.add(n.id)  # understood: a None test does not exclude the empty token
        absent_or_unknown(rd, at, lambda E: mentions_dec(E) and not mentions_raw(E) and not is_self_call(strip_wrappers(E), dec.name) and token_pos(E, dec.name) is None, insufficient, "the non-empty test of the decoded token")
    ck.ob("C24.check-accept", chk, chk.node, tok is not None, "normal return dominated by 'decoded request token is non-empty'%s" % (": " + tok if tok else ""), construct="exit: non-empty token")
    # sources of the request token: every expression that can reach the decoder's argument
    dec_calls = cfg.find(lambda x: is_self_call(x, dec.name))
    ck.need(len(dec_calls) >= 1 and all(len(c.args) == 1 for _n, c in dec_calls), "_decode_xsrf_token call with unexpected arguments")

    def g_is_local(x):
        return isinstance(x, ast.Name)

    def first_truthy(e):
        """``next(filter(None, ITER), None)`` / ``next((x for x in ITER if x), None)`` -> ITER"""
        if isinstance(e, ast.Call) and isinstance(e.func, ast.Name) and e.func.id == "next" and 1 <= len(e.args) <= 2 and (len(e.args) == 1 or (isinstance(e.args[1], ast.Constant) and not e.args[1].value)):
            it = e.args[0]
            if isinstance(it, ast.Call) and isinstance(it.func, ast.Name) and it.func.id == "filter" and len(it.args) == 2 and isinstance(it.args[0], ast.Constant) and it.args[0].value is None:
                return it.args[1]
            if isinstance(it, ast.GeneratorExp) and len(it.generators) == 1 and isinstance(it.generators[0].target, ast.Name) and isinstance(it.elt, ast.Name) and it.elt.id == it.generators[0].target.id \
                    and len(it.generators[0].ifs) == 1 and isinstance(it.generators[0].ifs[0], ast.Name) and it.generators[0].ifs[0].id == it.elt.id:
                return it.generators[0].iter
        return None

    def iter_items(it):
        """The expressions an iterable yields, in order: a display, or a private generator method made of plain yields."""
        if isinstance(it, (ast.Tuple, ast.List)) and not any(isinstance(x, ast.Starred) for x in it.elts):
            return list(it.elts), None
        m_ = it.func.attr if isinstance(it, ast.Call) and isinstance(it.func, ast.Attribute) and isinstance(it.func.value, ast.Name) and it.func.value.id == "self" and not it.args and not it.keywords else None
        if m_ and ck.repo.has_func(W, RH + "." + m_):
            g = ck.repo.func(W, RH + "." + m_)
            body = [s_ for s_ in g.node.body if not (isinstance(s_, ast.Expr) and isinstance(s_.value, ast.Constant))]
            if body and all(isinstance(s_, ast.Expr) and isinstance(s_.value, ast.Yield) and s_.value.value is not None for s_ in body):
                return [s_.value.value for s_ in body], g
        return None, None

    def alts(e, node, depth=0):
        if isinstance(e, ast.BoolOp) and isinstance(e.op, ast.Or):
            return [a for v in e.values for a in alts(v, node, depth)]
        ft = first_truthy(e)
        if ft is not None:
            items, g = iter_items(rd.expand(ft, node) if g_is_local(ft) else ft)
            if items is None:
                raise AnalysisError("check_xsrf_cookie: the candidates iterated for the request token are not understood: %s" % q.unparse(ft)[:80])
            if g is not None:
                ck.use(g)
                return [(x, x) for x in items]  # the generator's own expressions (no caller locals involved)
            return [a for v in items for a in alts(v, node, depth)]
        if isinstance(e, ast.Name) and depth < 8:
            ds = rd.defs_at(node, e.id)
            if ds and all(d.kind == "assign" and d.value is not None for d in ds):
                return [a for d in ds for a in alts(d.value, d.node, depth + 1)]
        return [(rd.expand(e, node), e)]

    ops = [a for n_, c in dec_calls for a in alts(c.args[0], n_)]
    kinds = []
    for E, o in ops:
        k = classify_source(E)
        if k is None:
            foreign = isinstance(E, ast.Constant) or any(is_self_call(z, nm) for z in ast.walk(E) for nm in ("get_cookie", "get_signed_cookie", "get_secure_cookie")) \
                or any((q.dotted(z) or "") in ("self.cookies", "self.request.cookies", "self.xsrf_token", "self._xsrf_token") for z in ast.walk(E) if isinstance(z, ast.Attribute))
            if not foreign:
                raise AnalysisError("check_xsrf_cookie: cannot establish where the request token %s comes from" % q.unparse(E)[:80])
        kinds.append(k)
        ck.ob("C24.token-source", chk, o, k is not None, "request token is read only from the _xsrf form field or the X-XSRFToken / X-CSRFToken headers (%s)" % (k or q.unparse(E)[:60]))
    want = {"form:_xsrf"} | {"header:" + h for h in HEADER_SOURCES}
    ck.ob("C24.token-source", chk, chk.node, want <= set(kinds), "all three documented carriers are consulted (found %s)" % sorted(set(k for k in kinds if k)), construct="carriers")
    ck.ob("C24.token-source", chk, chk.node, not call_raw.args and not call_raw.keywords, "the expected token is _get_raw_xsrf_token() of this request", construct="expected token")
    return p1, (n1 or n2)


def check_raw(ck, raw, dec, pos):
    """_get_raw_xsrf_token: the stored tuple's token position holds the cookie's decoded token (same position) or fresh randomness."""
    p, n = pos
    rd = Reach(raw)
    stores = [nd for nd in raw.cfg.stmt_nodes(lambda nd: nd.kind == "stmt" and isinstance(nd.ast, ast.Assign) and "self._raw_xsrf_token" in q.assigned_paths(nd.ast))]
    ck.floor("C24.token-position", len(stores), 1, "stores to self._raw_xsrf_token")
    cookie_name = None
    for nd in stores:
        v = nd.ast.value
        ck.need(isinstance(v, ast.Tuple) and len(v.elts) == n, "_get_raw_xsrf_token stores something other than a %d-tuple" % n)
        el = v.elts[p]
        ck.need(isinstance(el, ast.Name), "_get_raw_xsrf_token: token element is not a local")
        kinds = []
        for d in rd.defs_at(nd, el.id):
            dv = rd.expand(d.value, d.node) if d.kind == "unpack" and d.value is not None else d.value
            if d.kind == "unpack" and d.index == p and d.arity == n and is_self_call(dv, dec.name, 1):
                arg = dv.args[0]
                if is_self_call(arg, "get_cookie") and arg.args:
                    kinds.append("cookie")
                    cookie_name = arg.args[0]
                else:
                    kinds.append("decoded:" + q.unparse(arg)[:40])
            elif d.kind == "unpack" and is_self_call(dv, dec.name, 1):
                kinds.append("wrong-slot:%s" % d.index)  # understood: another position of the decoder's tuple
            elif d.kind == "assign" and isinstance(d.value, ast.Constant) and d.value.value is None:
                kinds.append("none")
            elif d.kind == "assign" and isinstance(d.value, ast.Call) and q.dotted(d.value.func) in ("os.urandom", "secrets.token_bytes"):
                kinds.append("random")
            else:
                kinds.append("other:" + (q.unparse(d.value)[:40] if d.value is not None else d.kind))
        unknown = [k for k in kinds if k.startswith("other:")]
        if unknown:
            raise AnalysisError("_get_raw_xsrf_token: cannot establish what the expected token may be: %s" % unknown[0])
        ok = "cookie" in kinds and all(k in ("cookie", "none", "random") for k in kinds)
        ck.ob("C24.token-position", raw, nd.ast, ok, "the expected token (position %d) is position %d of _decode_xsrf_token(<the _xsrf cookie>) or fresh randomness (definitions: %s)" % (p, p, sorted(set(kinds))))
    return cookie_name


def check_raises(ck, chk, es):
    n = 0
    for s in es.sites(chk):
        if s.kind == "raise":
            n += 1
            r = s.node
            c = r.exc
            st_arg = q.arg(c, 0, "status_code") if isinstance(c, ast.Call) else None
            if st_arg is not None and not isinstance(st_arg, ast.Constant):
                try:
                    st_arg = ast.Constant(value=scalar_const(chk.module, chk.cls, st_arg))
                except KeyError:
                    pass
            if isinstance(c, ast.Call) and q.dotted(c.func) == "HTTPError" and not isinstance(st_arg, ast.Constant):
                raise AnalysisError("check_xsrf_cookie: HTTPError status is not a literal: %s" % q.unparse(c)[:60])
            ok = isinstance(c, ast.Call) and q.dotted(c.func) == "HTTPError" and isinstance(st_arg, ast.Constant) and st_arg.value == 403
            ck.ob("C24.only-403", chk, r, ok, "a rejected token is answered with HTTPError(403)")
        elif s.handler is None:
            n += 1
            ok = s.exc in ("HTTPError", "MissingArgumentError") and s.kind == "call"
            ck.ob("C24.only-403", chk, s.node, ok, "nothing but HTTPError (400 from argument decoding) escapes check_xsrf_cookie: %s from %s %s" % (s.exc, s.kind, s.detail))
    ck.floor("C24.only-403", n, 3, "raise sites in check_xsrf_cookie")


def check_decode_total(ck, dec, raw, es):
    n = 0
    for fi in (dec, raw):
        for s in es.sites(fi):
            if s.kind == "assert" and fi is raw and es._narrowing(fi, s):
                continue
            n += 1
            ck.ob("C24.decode-total", fi, s.node, s.handler is not None,
                  "%s (%s%s) on the attacker's token/cookie is caught inside %s%s" % (s.exc, s.kind, " " + s.detail if s.detail else "", fi.name, (" by except " + ", ".join(q.handler_names(s.handler))) if s.handler is not None else ""))
    for gfi, gnode, why in es.guarded:
        ck.ob("C24.decode-total", gfi, gnode, True, "cannot raise: " + why)
    ck.floor("C24.decode-total", n, 7, "fallible sites in _decode_xsrf_token")
    # every return of the decoder is a 3-tuple (callers unpack without a handler)
    ar = es.returns_arity(dec)
    ck.ob("C24.decode-total", dec, dec.node, ar is not None, "every return of _decode_xsrf_token is a tuple literal of one arity (%s); callers unpack it outside any handler" % ar, construct="return arity")
    return ar


# ---------------------------------------------------------------------------
# tables


def hexcall(e, names):
    if isinstance(e, ast.Call) and q.call_attr(e) in names and len(e.args) == 1 and (q.dotted(e.func) or "").split(".")[0] in ("binascii",):
        return e.args[0], q.call_attr(e)
    return None


def fold_format(v):
    """``b"2|%b|%b|%d" % (a, b, c)``  ->  ``b"|".join([b"2", a, b, c])`` when the literal text between the
    conversions is one and the same separator (the formatted token is then exactly that join)."""
    import re as _re

    if not (isinstance(v, ast.BinOp) and isinstance(v.op, ast.Mod) and isinstance(v.left, ast.Constant) and isinstance(v.left.value, (bytes, str))):
        return v
    fmt = v.left.value
    args = list(v.right.elts) if isinstance(v.right, ast.Tuple) else [v.right]
    is_b = isinstance(fmt, bytes)
    text = fmt.decode("latin1") if is_b else fmt
    specs = list(_re.finditer(r"%[bsd]", text))
    if "%" in _re.sub(r"%[bsd]", "", text) or len(specs) != len(args) or not specs:
        raise AnalysisError("xsrf_token: format string %r is not understood" % (fmt,))
    lits = []
    pos_ = 0
    for m_ in specs:
        lits.append(text[pos_:m_.start()])
        pos_ = m_.end()
    lits.append(text[pos_:])
    mids = set(lits[1:-1])
    if lits[-1] != "" or len(mids) > 1:
        raise AnalysisError("xsrf_token: format string %r does not separate its fields uniformly" % (fmt,))
    sep = mids.pop() if mids else None
    if sep is None or sep == "" or not lits[0].endswith(sep):
        raise AnalysisError("xsrf_token: format string %r does not separate its fields uniformly" % (fmt,))
    enc = (lambda t: t.encode("latin1")) if is_b else (lambda t: t)
    head = [ast.Constant(value=enc(h)) for h in lits[0][: -len(sep)].split(sep)]
    elts = head + [a if sp.group(0) != "%d" or (isinstance(a, ast.Call) and q.call_attr(a) == "int") else ast.Call(func=ast.Name(id="int", ctx=ast.Load()), args=[a], keywords=[]) for a, sp in zip(args, specs)]
    new = ast.Call(func=ast.Attribute(value=ast.Constant(value=enc(sep)), attr="join", ctx=ast.Load()), args=[ast.List(elts=elts, ctx=ast.Load())], keywords=[])
    return ast.copy_location(new, v)


def fold_concat(v):
    """``b"2|" + a + b"|" + b`` / ``b"".join([b"2|", a, b"|", b])`` -> ``b"|".join([b"2", a, b])`` when the literal
    pieces between the computed ones are one and the same separator."""
    v2 = concat_canon(v)
    pieces = []

    def flat(x):
        if isinstance(x, ast.BinOp) and isinstance(x.op, ast.Add):
            flat(x.left)
            flat(x.right)
        else:
            pieces.append(x)

    flat(v2)
    if len(pieces) < 3 or not any(isinstance(x, ast.Constant) for x in pieces) or all(isinstance(x, ast.Constant) for x in pieces):
        return v
    if not isinstance(pieces[0], ast.Constant) or isinstance(pieces[-1], ast.Constant):
        raise AnalysisError("xsrf_token: concatenated token %s is not understood" % q.unparse(v)[:80])
    lit0 = pieces[0].value
    args, seps = [], []
    expect_arg = True
    for x in pieces[1:]:
        if expect_arg:
            if isinstance(x, ast.Constant):
                raise AnalysisError("xsrf_token: concatenated token %s is not understood" % q.unparse(v)[:80])
            args.append(x)
        else:
            if not isinstance(x, ast.Constant):
                raise AnalysisError("xsrf_token: concatenated token %s has adjacent computed pieces" % q.unparse(v)[:80])
            seps.append(x.value)
        expect_arg = not expect_arg
    if len(set(seps)) != 1 or not seps[0] or not lit0.endswith(seps[0]):
        raise AnalysisError("xsrf_token: concatenated token %s does not separate its fields uniformly" % q.unparse(v)[:80])
    sep = seps[0]
    head = [ast.Constant(value=h) for h in lit0[: -len(sep)].split(sep)]
    new = ast.Call(func=ast.Attribute(value=ast.Constant(value=sep), attr="join", ctx=ast.Load()), args=[ast.List(elts=head + args, ctx=ast.Load())], keywords=[])
    return ast.copy_location(ast.fix_missing_locations(new), v)


def issuer_tables(ck, iss, raw, pos):
    """output version -> description of the issued token."""
    p, n = pos
    rd = Reach(iss)
    facts = must_facts(iss.cfg)
    out = {}
    for nd in iss.cfg.stmt_nodes(lambda nd: nd.kind == "stmt" and isinstance(nd.ast, ast.Assign) and "self._xsrf_token" in q.assigned_paths(nd.ast)):
        ver = None
        for e, pol, text in parsed_facts(facts[nd.id]):
            eq = equality_fact(e, pol)
            if eq and eq[2]:
                for a, b in ((eq[0], eq[1]), (eq[1], eq[0])):
                    if isinstance(b, ast.Constant) and isinstance(b.value, int) and isinstance(a, ast.Name):
                        ver = b.value
        ck.need(ver is not None, "xsrf_token: token assigned outside an 'output_version == K' branch")
        v = nd.ast.value
        if isinstance(v, ast.Call) and isinstance(v.func, ast.Attribute) and v.func.attr == "join" and len(v.args) == 1 and isinstance(v.args[0], ast.Name):
            dl = rd.unique(nd, v.args[0].id)
            if dl is not None and dl.kind == "assign" and isinstance(dl.value, (ast.List, ast.Tuple)):
                v = ast.Call(func=v.func, args=[dl.value], keywords=[])

        v = fold_concat(fold_format(v))

        def masked_of(x, depth=0):
            """the mask variable when ``x`` is ``_websocket_mask(<mask var>, <raw token>)``, directly or through a local"""
            if isinstance(x, ast.Call) and q.call_attr(x) == "_websocket_mask" and len(x.args) == 2 and isinstance(x.args[0], ast.Name) and is_tok(x.args[1]):
                return x.args[0].id
            if isinstance(x, ast.Name) and depth < 4:
                d_ = rd.unique(nd, x.id)
                if d_ is not None and d_.kind == "assign" and d_.value is not None and isinstance(d_.value, (ast.Call, ast.Name)):
                    return masked_of(d_.value, depth + 1)
            return None

        def is_random(name, depth=0):
            d_ = rd.unique(nd, name)
            if d_ is None or d_.kind != "assign" or d_.value is None:
                return False
            if isinstance(d_.value, ast.Name) and depth < 4:
                return is_random(d_.value.id, depth + 1)
            return isinstance(d_.value, ast.Call) and q.dotted(d_.value.func) in ("os.urandom", "secrets.token_bytes")

        def is_tok(x):
            t = token_pos(rd.expand(x, nd), raw.name)
            return t is not None and t[0] == p and t[1] in (n, None)

        if isinstance(v, ast.Call) and isinstance(v.func, ast.Attribute) and v.func.attr == "join" and isinstance(v.func.value, ast.Constant) and v.args and isinstance(v.args[0], (ast.List, ast.Tuple)):
            roles = []
            maskvar = None
            codecs = {}
            for i, el in enumerate(v.args[0].elts):
                for _d in range(3):  # an element held in an explaining local
                    if not isinstance(el, ast.Name):
                        break
                    de = rd.unique(nd, el.id)
                    if de is None or de.kind != "assign" or de.value is None:
                        break
                    el = de.value
                h = hexcall(el, HEX_INV)
                if isinstance(el, ast.Constant):
                    roles.append(("const", el.value))
                elif h and masked_of(h[0]) is not None:
                    roles.append(("masked", masked_of(h[0])))
                    codecs[i] = h[1]
                elif h and isinstance(h[0], ast.Name) and is_random(h[0].id):
                    roles.append(("mask", h[0].id))
                    codecs[i] = h[1]
                elif h:
                    raise AnalysisError("xsrf_token: cannot tell what the hex-encoded element %s is" % q.unparse(el)[:80])
                elif isinstance(strip_wrappers(el), ast.Call) and q.call_attr(strip_wrappers(el)) == "int":
                    roles.append(("ts", None))
                else:
                    raise AnalysisError("xsrf_token: cannot assign a role to element %s" % q.unparse(el))
            out[ver] = dict(kind="join", sep=v.func.value.value, roles=roles, codecs=codecs, node=nd)
            for r_, m_ in roles:
                if r_ in ("mask", "masked"):
                    d = rd.unique(nd, m_)
                    ok = d is not None and d.kind == "assign" and isinstance(d.value, ast.Call) and q.dotted(d.value.func) in ("os.urandom", "secrets.token_bytes") and d.value.args and isinstance(d.value.args[0], ast.Constant) and d.value.args[0].value == 4
                    ck.ob("C24.codec", iss, nd.ast, ok, "the %s element uses a fresh 4-byte mask (the decoder's mask routine requires exactly 4 bytes)" % r_, construct="mask width (%s)" % r_)
        else:
            h = hexcall(v, HEX_INV)
            if h and is_tok(h[0]):
                out[ver] = dict(kind="hex", codec=h[1], node=nd)
            else:
                raise AnalysisError("xsrf_token: version %s token %s is in no recognised shape" % (ver, q.unparse(v)[:80]))
    return out


def decoder_tables(ck, dec, pos):
    p, n = pos
    rd = Reach(dec)
    facts = must_facts(dec.cfg)
    out = []
    for nd in dec.cfg.stmt_nodes(lambda nd: nd.kind == "stmt" and isinstance(nd.ast, ast.Return) and isinstance(nd.ast.value, ast.Tuple)):
        t = nd.ast.value
        if all(isinstance(e, ast.Constant) and e.value is None for e in t.elts):
            continue
        ck.need(len(t.elts) == n, "_decode_xsrf_token returns a tuple of unexpected arity")
        ver = None
        for E, pol, text in [(rd.expand(e, nd), pol, text) for e, pol, text in parsed_facts(facts[nd.id])]:
            eq = equality_fact(E, pol)
            if eq and eq[2]:
                for a, b in ((eq[0], eq[1]), (eq[1], eq[0])):
                    if isinstance(b, ast.Constant) and isinstance(b.value, int) and isinstance(a, ast.Call) and q.call_attr(a) == "int":
                        ver = b.value
        tok = t.elts[p]
        E = rd.expand(tok, nd)
        unversioned = False
        for Ef, pol, text in [(rd.expand(e, nd), pol, text) for e, pol, text in parsed_facts(facts[nd.id])]:
            is_match = lambda x: isinstance(x, ast.Call) and isinstance(x.func, ast.Attribute) and x.func.attr in ("match", "fullmatch", "search")
            if (is_match(Ef) and not pol) or (isinstance(Ef, ast.Compare) and len(Ef.ops) == 1 and isinstance(Ef.ops[0], ast.Is) and is_match(Ef.left) and pol):
                unversioned = True
        out.append(dict(ver=ver, node=nd, unversioned=unversioned, tok=E, tok_raw=tok, ts=rd.expand(t.elts[-1], nd), version_el=rd.expand(t.elts[0], nd), rd=rd))
    return out


def split_field(e):
    """``codec(utf8(__unpack__(X.split(SEP), i, n)))`` -> (i, n, SEP, X)"""
    u = is_unpack(strip_wrappers(e))
    if u is None:
        return None
    src, i, n = u
    if isinstance(src, ast.Call) and isinstance(src.func, ast.Attribute) and src.func.attr == "split" and len(src.args) == 1 and isinstance(src.args[0], ast.Constant):
        return i, n, src.args[0].value, src.func.value
    return None


def _b(x):
    return x.encode() if isinstance(x, str) else x


def check_tables(ck, iss, dec, it, dt):
    param = [x for x in dec.params() if x != "self"][0]
    ck.floor("C24.codec", len(dt), 2, "token-returning paths of _decode_xsrf_token")
    for d in dt:
        nd = d["node"]
        E = d["tok"]
        if isinstance(E, ast.Call) and q.call_attr(E) == "_websocket_mask" and len(E.args) == 2:
            # masked format
            enc = [t for t in it.values() if t["kind"] == "join"]
            ck.need(len(enc) == 1, "xsrf_token: expected exactly one joined (masked) format")
            enc = enc[0]
            ma, da = hexcall(E.args[0], HEX_INV.values()), hexcall(E.args[1], HEX_INV.values())
            fm = split_field(ma[0]) if ma else None
            fd = split_field(da[0]) if da else None
            ck.need(fm is not None and fd is not None, "_decode_xsrf_token: mask / masked token are not hex-decoded fields of the split cookie")
            roles = enc["roles"]
            epos = {r: i for i, (r, _x) in enumerate(roles)}
            ck.need("mask" in epos and "masked" in epos, "xsrf_token: the joined format has no recognisable mask / masked-token elements")
            ok = fm[0] == epos.get("mask") and fd[0] == epos.get("masked")
            ck.ob("C24.codec", dec, nd.ast, ok, "decoder takes the mask from field %d and the masked token from field %d; issuer writes them at %s and %s" % (fm[0], fd[0], epos.get("mask"), epos.get("masked")), construct="mask/masked positions")
            ck.ob("C24.codec", dec, nd.ast, fm[1] == fd[1] == len(roles) and _b(fm[2]) == _b(enc["sep"]) == _b(fd[2]), "decoder unpacks %d fields split on %r; issuer joins %d fields with %r" % (fm[1], fm[2], len(roles), enc["sep"]), construct="arity/separator")
            ck.ob("C24.codec", dec, nd.ast, isinstance(strip_wrappers(fm[3]), ast.Name) and strip_wrappers(fm[3]).id == param and same(fm[3], fd[3]), "both fields are cut from the token being decoded", construct="split operand")
            inv = all(HEX_INV.get(enc["codecs"].get(epos[r])) == c for r, c in (("mask", ma[1]), ("masked", da[1])))
            ck.ob("C24.codec", dec, nd.ast, inv, "hex codecs are inverse pairs (issuer %s, decoder %s/%s)" % (sorted(set(enc["codecs"].values())), ma[1], da[1]), construct="hex codec")
            mnames = {x for r, x in roles if r in ("mask", "masked")}
            ck.ob("C24.codec", iss, enc["node"].ast, len(mnames) == 1, "the issuer writes the same mask it applied to the token", construct="same mask")
            # version constant <-> branch
            const = [x for r, x in roles if r == "const"]
            ck.ob("C24.codec", dec, nd.ast, len(const) == 1 and roles[0][0] == "const" and d["ver"] is not None and _b(const[0]) == str(d["ver"]).encode(), "the masked format is decoded under version == %s, the constant the issuer writes first (%r)" % (d["ver"], const[:1]),
                  construct="version constant")
            # length constraints the decoder adds on the way to this return must be guaranteed by the issuer:
            # the mask is exactly the issuer's width, the secret has whatever length the cookie carries
            length_constraints(ck, dec, d, fm[0], fd[0], enc)
            # timestamp position
            ts = d["ts"]
            ft = split_field(ts.args[0]) if isinstance(ts, ast.Call) and q.call_attr(ts) == "int" and ts.args else None
            ck.ob("C24.codec", dec, nd.ast, ft is not None and ft[0] == epos.get("ts"), "timestamp read from the field the issuer writes it to (%s)" % epos.get("ts"), construct="timestamp position")
        else:
            # plain format: hex of the whole cookie, or (fallback) the text itself - only on the path without a version prefix
            enc = [t for t in it.values() if t["kind"] == "hex"]
            ck.need(len(enc) == 1, "xsrf_token: expected exactly one plain hex format")
            rd = d["rd"]
            name = d["tok_raw"]
            cands = []
            if isinstance(name, ast.Name) and rd.defs_at(nd, name.id):
                cands = [(df.value, df.kind) for df in rd.defs_at(nd, name.id)]
            else:
                cands = [(name, "expr")]
            kinds = []
            for v, kd in cands:
                if v is not None:
                    dfn = next((df.node for df in rd.defs_at(nd, name.id) if df.value is v), nd) if isinstance(name, ast.Name) else nd
                    v = rd.expand(v, dfn)
                h = hexcall(v, HEX_INV.values()) if v is not None else None
                if h and isinstance(strip_wrappers(h[0]), ast.Name) and strip_wrappers(h[0]).id == param and HEX_INV.get(enc[0]["codec"]) == h[1]:
                    kinds.append("hex")
                elif v is not None and isinstance(strip_wrappers(v), ast.Name) and strip_wrappers(v).id == param:
                    kinds.append("verbatim")
                else:
                    kinds.append("other:" + (q.unparse(v)[:40] if v is not None else kd))
            ck.ob("C24.codec", dec, nd.ast, "hex" in kinds and all(k in ("hex", "verbatim") for k in kinds),
                  "a token returned without the masked format is the inverse hex codec of the whole cookie text (or the text itself when it is not hex); definitions %s" % sorted(set(kinds)), construct="plain codec")
            length_constraints(ck, dec, d, None, None, enc[0], param)
            ck.ob("C24.codec", dec, nd.ast, d["unversioned"], "the plain (version 1) decoding is used only on the path where the text carries no version prefix - never as a fallback for a malformed versioned token",
                  construct="plain decoding path")


def length_constraints(ck, dec, d, mask_idx, masked_idx, enc, param=None):
    from ..x_secflow import guarding_tests
    import copy

    rd, nd = d["rd"], d["node"]
    width = 4

    def kind_of(x):
        """which token part the argument of len() is: 'mask' | 'secret' | None"""
        k = None
        for y in ast.walk(x):
            u = is_unpack(y)
            if u is not None and isinstance(u[0], ast.Call) and q.call_attr(u[0]) == "split":
                if u[1] == masked_idx:
                    return "secret"
                if u[1] == mask_idx:
                    k = "mask"
            if isinstance(y, ast.Call) and q.call_attr(y) == "_websocket_mask":
                return "secret"
            if masked_idx is None and isinstance(y, ast.Name) and (y.id == param or y.id.split("@")[0] == getattr(d["tok_raw"], "id", None)):
                return "secret"  # plain format: the whole text (or its hex decoding) is the secret
        return k

    for t, edge in guarding_tests(dec.cfg, nd):
        E = rd.expand(t.ast, t)
        lens = [x for x in ast.walk(E) if isinstance(x, ast.Call) and isinstance(x.func, ast.Name) and x.func.id == "len" and len(x.args) == 1 and kind_of(x.args[0])]
        if not lens:
            continue
        kinds = {kind_of(x.args[0]) for x in lens}
        if len(kinds) != 1:
            raise AnalysisError("_decode_xsrf_token: length test mixing mask and secret: %s" % q.unparse(t.ast)[:80])
        part = kinds.pop()

        class L(ast.NodeTransformer):
            def visit_Call(self, node):
                if any(node is x for x in lens):
                    return ast.Name(id="__L", ctx=ast.Load())
                return self.generic_visit(node)

        # re-find the len nodes in a copy (identity is lost by deepcopy): substitute by structure
        dumps = {ast.dump(x) for x in lens}

        class L2(ast.NodeTransformer):
            def visit_Call(self, node):
                if ast.dump(node) in dumps:
                    return ast.Name(id="__L", ctx=ast.Load())
                return self.generic_visit(node)

        F = L2().visit(copy.deepcopy(E))
        try:
            passing = {n_ for n_ in range(0, 129) if bool(q.fold(F, {"__L": n_})) == (edge == "true")}
        except q.NotFoldable:
            raise AnalysisError("_decode_xsrf_token: length test not evaluable: %s" % q.unparse(t.ast)[:80])
        if part == "mask":
            ck.ob("C24.codec", dec, t.ast, width in passing, "a length test on the mask admits the issuer's mask width (%d bytes)" % width)
        else:
            rejected = sorted(set(range(1, 129)) - passing)
            ck.ob("C24.codec", dec, t.ast, not rejected, "the decoder accepts a masked secret of any non-zero length: the issuer masks whatever secret the cookie carries (a version 1 cookie's secret need not be 16 bytes)%s"
                  % ("" if not rejected else "; rejected lengths e.g. %s" % rejected[:4]))


# exception classes a decoding call raises for malformed input, by the kind of its operand (frozen model):
# binascii.a2b_hex / unhexlify / base64.b64decode on *bytes* raise binascii.Error; on a *str* they first require
# ASCII and raise plain ValueError otherwise (binascii.Error is a subclass of ValueError, not the reverse)
DECODE_RAISES = {
    "binascii.a2b_hex": {"bytes": ("binascii.Error",), "str": ("binascii.Error", "ValueError")},
    "binascii.unhexlify": {"bytes": ("binascii.Error",), "str": ("binascii.Error", "ValueError")},
    "base64.b64decode": {"bytes": ("binascii.Error",), "str": ("binascii.Error", "ValueError")},
    "bytes.fromhex": {"bytes": ("TypeError",), "str": ("ValueError",)},
    "int": {"bytes": ("ValueError",), "str": ("ValueError",)},
}


def operand_kind(fi, rd, e, node, depth=0):
    """'bytes' | 'str' | None for the (expanded) operand of a decoding call."""
    e = rd.expand(e, node) if depth == 0 else e
    if isinstance(e, ast.Constant):
        return "bytes" if isinstance(e.value, bytes) else "str" if isinstance(e.value, str) else None
    if isinstance(e, ast.Call):
        nm = q.call_attr(e)
        if nm in ("utf8", "bytes", "bytearray") or (isinstance(e.func, ast.Attribute) and nm == "encode"):
            return "bytes"
        if nm in ("to_unicode", "native_str", "str", "to_basestring") or (isinstance(e.func, ast.Attribute) and nm == "decode"):
            return "str"
        u = is_unpack(e)
        if u is not None:
            return operand_kind(fi, rd, u[0], node, depth + 1)
        if isinstance(e.func, ast.Attribute) and nm in ("split", "rsplit", "strip", "lstrip", "rstrip", "lower", "upper", "partition", "rpartition", "replace"):
            return operand_kind(fi, rd, e.func.value, node, depth + 1)
        return None
    if isinstance(e, ast.Subscript):
        return operand_kind(fi, rd, e.value, node, depth + 1)
    if isinstance(e, ast.Name):
        for a in fi.node.args.posonlyargs + fi.node.args.args + fi.node.args.kwonlyargs:
            if a.arg == e.id and a.annotation is not None:
                ann = q.unparse(a.annotation)
                if ann == "bytes":
                    return "bytes"
                if "str" in ann:
                    return "str"  # str, or str | bytes: a str may arrive
    return None


def check_fallbacks(ck, dec):
    """Where a handler supplies a fallback value for a failed decoding (``try: t = decode(x) except E: t = other``),
    every exception the decoding raises for malformed input reaches that handler - none bypasses the fallback."""
    rd = Reach(dec)
    n = 0
    for tr in [x for x in own_nodes(dec.node) if isinstance(x, ast.Try)]:
        assigned = set()
        for st in tr.body:
            assigned |= {p_ for p_ in q.assigned_paths(st) if "." not in p_ and "[" not in p_}
        fb = [h for h in tr.handlers if any(q.assigned_paths(st) & assigned for st in h.body)]
        if not fb or not assigned:
            continue
        caught = [nm for h in fb for nm in q.handler_names(h)]
        for st in tr.body:
            for c in [x for x in q.walk_local(st) if isinstance(x, ast.Call)]:
                key = q.dotted(c.func) if q.dotted(c.func) in DECODE_RAISES else (c.func.id if isinstance(c.func, ast.Name) and c.func.id in DECODE_RAISES else None)
                if key is None or not c.args:
                    continue
                nodes = rd.cfg_nodes_of(c)
                if not nodes:
                    continue
                kind = operand_kind(dec, rd, c.args[0], nodes[0])
                if kind is None:
                    raise AnalysisError("_decode_xsrf_token: cannot tell whether %s is given bytes or text" % q.unparse(c)[:60])
                n += 1
                missing = [exc for exc in DECODE_RAISES[key][kind] if not q.exc_is_caught(exc, caught)]
                ck.ob("C24.fallback-complete", dec, c, not missing,
                      "every exception %s raises for a malformed %s operand reaches the handler that supplies the fallback value (caught there: %s)%s" % (key, kind, ", ".join(caught), "" if not missing else "; bypassing it: " + ", ".join(missing)))
    return n


def check_cookie_set(ck, iss, cookie_name_expr):
    """On every path of xsrf_token where the raw token was freshly generated
    (version is None) the issued token is sent as the cookie."""
    cfg = iss.cfg
    rd = Reach(iss)
    sets = [(n, c) for n, c in cfg.find(lambda x: is_self_call(x, "set_cookie"))]
    ck.floor("C24.cookie-set", len(sets), 1, "set_cookie calls in xsrf_token")
    ids = {n.id for n, _ in sets}
    for n, c in sets:
        cval, cname = q.arg(c, 1, "value"), q.arg(c, 0, "name")
        if cval is None or cname is None:
            raise AnalysisError("xsrf_token: set_cookie call with arguments the rule cannot map: %s" % q.unparse(c)[:80])
        cval_x = rd.expand(cval, n)
        ok = q.dotted(cval) == "self._xsrf_token" or q.dotted(cval_x) == "self._xsrf_token"
        if not ok and isinstance(cval, ast.Name):
            # a local holding the token that was just stored
            ok = any(isinstance(st_.ast, ast.Assign) and "self._xsrf_token" in q.assigned_paths(st_.ast) and q.dotted(st_.ast.value) == cval.id for st_ in cfg.stmt_nodes(lambda x_: x_.kind == "stmt"))
            if not ok:
                raise AnalysisError("xsrf_token: cannot establish what value the cookie is set to (%s)" % cval.id)
        ck.ob("C24.cookie-set", iss, c, ok, "the cookie value is the token just issued (self._xsrf_token)")
        if cookie_name_expr is not None:
            ck.ob("C24.cookie-set", iss, c, same(rd.expand(cname, n), cookie_name_expr), "the cookie is set under the name _get_raw_xsrf_token reads (%s)" % q.unparse(cookie_name_expr)[:80], construct="cookie name")

    def transfer(n, val):
        return True if n.id in ids else val

    seen = explore(cfg, False, transfer, lambda t: t.endswith(" is None") and not t.startswith("self."), follow_exc=False)
    k = 0
    for r in cfg.stmt_nodes(lambda n: n.kind == "stmt" and isinstance(n.ast, ast.Return)):
        for facts, val in sorted(seen.get(r.id, ()), key=repr):
            fresh = [t for t, pol in facts if pol and t.endswith(" is None")]
            vers = []
            for t in fresh:
                u = is_unpack(rd.expand_text(t[: -len(" is None")], r))
                if u and is_self_call(u[0], "_get_raw_xsrf_token"):
                    vers.append(t)
            if vers:
                k += 1
                ck.ob("C24.cookie-set", iss, r.ast, val, "path with a freshly generated token (%s) passes set_cookie before returning" % vers[0], construct="fresh token path set=%s" % val)
    ck.floor("C24.cookie-set", k, 1, "fresh-token paths of xsrf_token")


VOCABULARY = {"_execute", "_decode_xsrf_token", "_get_raw_xsrf_token", "_websocket_mask", "_signed_value_version_re"}
INGREDIENTS = {"check_xsrf_cookie", "xsrf_cookies", "prepare", "method", "_prepared_future", "_decode_xsrf_token", "_get_raw_xsrf_token", "compare_digest", "_xsrf", "X-Xsrftoken", "X-Csrftoken",
               "a2b_hex", "b2a_hex", "_websocket_mask", "set_cookie", "get_cookie", "_xsrf_token", "_raw_xsrf_token", "xsrf_cookie_version", "xsrf_cookie_name"}


def normalise(ck):
    """Inline private helpers split off the anchored methods (only helpers that carry part of the mechanism)."""
    from ..x_secinline import inlined, mentions_any

    roots = [RH + "." + m for m in ("_execute", "check_xsrf_cookie", "_decode_xsrf_token", "_get_raw_xsrf_token", "xsrf_token")]
    ck.repo = inlined(ck.repo, W, roots, lambda name, h: name in VOCABULARY, lambda h: mentions_any(h, INGREDIENTS))
    for nm in getattr(ck.repo, "inlined_helpers", []):
        ck.note("inlined private helper %s into its caller before analysis" % nm)


# ---------------------------------------------------------------------------


def run(ck):
    ck.rule("C24.gate", "_execute: prepare() and the handler method are reached for unsafe methods with xsrf_cookies on only after check_xsrf_cookie() returned normally")
    ck.rule("C24.check-accept", "check_xsrf_cookie returns normally only with a non-empty decoded token that equals (whole value) the cookie's token")
    ck.rule("C24.token-position", "the compared operands are the same tuple position of _decode_xsrf_token / _get_raw_xsrf_token; the latter stores that position of the decoded cookie")
    ck.rule("C24.token-source", "the request token comes from the _xsrf form field or the X-XSRFToken/X-CSRFToken headers and nowhere else")
    ck.rule("C24.only-403", "check_xsrf_cookie raises only HTTPError(403); nothing else escapes except HTTPError from argument decoding")
    ck.rule("C24.decode-total", "_decode_xsrf_token (and _get_raw_xsrf_token) let no exception escape: every fallible operation on the token is inside a handler that catches it")
    ck.rule("C24.codec", "xsrf_token and _decode_xsrf_token agree on arity, separator, field positions, inverse codecs, mask width and the version constant")
    ck.rule("C24.fallback-complete", "where a handler supplies the fallback token for a failed decoding, every exception the decoding raises for malformed input (bytes vs. text operand) is caught by that handler")
    ck.rule("C24.cookie-set", "a freshly generated token is sent as the _xsrf cookie (same name, same value)")

    normalise(ck)
    ex = ck.func(W, RH + "._execute")
    chk = ck.func(W, RH + ".check_xsrf_cookie")
    dec = ck.func(W, RH + "._decode_xsrf_token")
    raw = ck.func(W, RH + "._get_raw_xsrf_token")
    iss = ck.func(W, RH + ".xsrf_token")

    check_gate(ck, ex)
    pos = check_check(ck, chk, raw, dec)
    gens = []
    for x in own_nodes(chk.node):
        if isinstance(x, ast.Call) and is_self_call(x, x.func.attr if isinstance(x.func, ast.Attribute) else "") and x.func.attr.startswith("_") and ck.repo.has_func(W, RH + "." + x.func.attr):
            g = ck.repo.func(W, RH + "." + x.func.attr)
            if g.qualname not in (dec.qualname, raw.qualname) and any(isinstance(y, (ast.Yield, ast.YieldFrom)) for y in own_nodes(g.node)):
                gens.append(g.qualname)  # a private generator consumed here: what its body raises surfaces in check_xsrf_cookie
    es = Escapes(ck.repo, W, [dec.qualname, chk.qualname, raw.qualname] + gens, lambda fi: [p for p in fi.params() if p != "self"],
                 trusted={".get_argument": ("HTTPError",), ".get_cookie": ()}, narrowing_asserts_ok=[raw.qualname])
    ar = check_decode_total(ck, dec, raw, es)
    check_raises(ck, chk, es)
    ck.floor("C24.fallback-complete", check_fallbacks(ck, dec), 1, "decoding calls with a fallback handler in _decode_xsrf_token")
    if pos is not None:
        pos = (pos[0], pos[1] or ar)
        ck.need(pos[1] is not None, "token tuple arity unknown")
        ck.ob("C24.token-position", dec, dec.node, ar == pos[1], "callers unpack %d values, the decoder returns %s" % (pos[1], ar), construct="arity")
        cname = check_raw(ck, raw, dec, pos)
        it = issuer_tables(ck, iss, raw, pos)
        ck.need(len(it) >= 2, "xsrf_token: fewer than two output formats recognised")
        dt = decoder_tables(ck, dec, pos)
        check_tables(ck, iss, dec, it, dt)
        check_cookie_set(ck, iss, cname)
    ck.assume("self.request.method is not modified while _execute runs; type-narrowing asserts in _get_raw_xsrf_token hold (token and timestamp are set together)")
    for note in es.notes[:10]:
        ck.note(note)


# ---------------------------------------------------------------------------
# mutants


def _in(qn, edit):
    return lambda repo: mutate(repo, W, RH + "." + qn, edit)


def _is_safe_tuple(n):
    return isinstance(n, ast.Tuple) and {e.value for e in n.elts if isinstance(e, ast.Constant)} == set(SAFE_METHODS)


def _check_after_prepare(root):
    for node in ast.walk(root):
        body = getattr(node, "body", None)
        if isinstance(body, list):
            for i, st in enumerate(body):
                if isinstance(st, ast.If) and "check_xsrf_cookie" in ast.unparse(st):
                    for j in range(i + 1, len(body)):
                        if isinstance(body[j], ast.If) and "await result" in ast.unparse(body[j]):
                            body.insert(j + 1, body.pop(i))
                            return True
    return False


def _narrow_handler(root):
    for x in ast.walk(root):
        if isinstance(x, ast.Try) and x.handlers and q.dotted(x.handlers[-1].type) == "Exception" and "gen_log" in ast.unparse(x.handlers[-1]):
            x.handlers[-1].type = parse_expr("(binascii.Error, ValueError, TypeError)")
            return True
    return False


def _narrow_handler_index(root):
    # catches the explicit Exception but not the IndexError of the pure-python mask routine / ValueError of the C one
    for x in ast.walk(root):
        if isinstance(x, ast.Try) and x.handlers and q.dotted(x.handlers[-1].type) == "Exception" and "gen_log" in ast.unparse(x.handlers[-1]):
            x.handlers[-1].type = parse_expr("(binascii.Error, TypeError)")
            for y in ast.walk(x):
                if isinstance(y, ast.Raise) and isinstance(y.exc, ast.Call) and q.dotted(y.exc.func) == "Exception":
                    y.exc.func = ast.Name(id="TypeError", ctx=ast.Load())
            return True
    return False


def _swallow_check(root):
    for node in ast.walk(root):
        body = getattr(node, "body", None)
        if isinstance(body, list):
            for i, st in enumerate(body):
                if isinstance(st, ast.Expr) and "check_xsrf_cookie" in ast.unparse(st):
                    body[i] = ast.Try(body=[st], handlers=[ast.ExceptHandler(type=ast.Name(id="MissingArgumentError", ctx=ast.Load()), name=None, body=[ast.Pass()])], orelse=[], finalbody=[])
                    return True
    return False


MUTANTS = [
    ("skip check_xsrf_cookie for PUT", _in("_execute", replace_expr(_is_safe_tuple, lambda n: ast.Tuple(elts=n.elts + [ast.Constant(value="PUT")], ctx=ast.Load()))), "C24.gate"),
    ("X-Requested-With exemption reintroduced", _in("_execute", replace_expr(is_setting_test, lambda n: ast.BoolOp(op=ast.And(), values=[n, parse_expr("not self.request.headers.get('X-Requested-With')")]))), "C24.gate"),
    ("check moved after prepare()", _in("_execute", _check_after_prepare), "C24.gate"),
    ("a failing check is swallowed for one exception class", _in("_execute", _swallow_check), "C24.gate"),
    ("deny-list turned into an allow-list that forgets PATCH", _in("_execute", replace_expr(lambda n: isinstance(n, ast.Compare) and _is_safe_tuple(n.comparators[0]), lambda n: parse_expr("self.request.method in ('POST', 'PUT', 'DELETE')"))), "C24.gate"),
    ("decoder: except Exception narrowed (explicit raise escapes)", _in("_decode_xsrf_token", _narrow_handler), "C24.decode-total"),
    ("decoder: handler misses the mask routine's IndexError/ValueError", _in("_decode_xsrf_token", _narrow_handler_index), "C24.decode-total"),
    ("tokens compared on a prefix", _in("check_xsrf_cookie", replace_expr(lambda n: isinstance(n, ast.Call) and q.call_attr(n) == "compare_digest", lambda n: ast.Call(func=n.func, args=[ast.Subscript(value=a, slice=ast.Slice(upper=ast.Constant(value=8)), ctx=ast.Load()) for a in n.args], keywords=[]))), "C24.check-accept"),
    ("seeded C24-adv1: 'if not token' became 'if token is None' (empty secret matches empty-secret cookie)", _in("check_xsrf_cookie", replace_expr(lambda n: isinstance(n, ast.UnaryOp) and isinstance(n.op, ast.Not) and ast.unparse(n.operand) == "token", lambda n: parse_expr("token is None"))), "C24.check-accept"),
    ("method test on the lower-cased method with upper-case literals for one verb", _in("_execute", replace_expr(lambda n: isinstance(n, ast.Compare) and _is_safe_tuple(n.comparators[0]), lambda n: parse_expr("self.request.method.lower() not in ('get', 'head', 'options', 'put')"))), "C24.gate"),
    ("body released to the handler before the XSRF check", _in("_execute", lambda root: _release_before_check(root)), "C24.gate"),
    ("empty decoded token accepted", _in("check_xsrf_cookie", remove_stmts(lambda st: isinstance(st, ast.If) and ast.unparse(st.test) == "not token")), "C24.check-accept"),
    ("comparison result inverted on one path", _in("check_xsrf_cookie", replace_expr(lambda n: isinstance(n, ast.UnaryOp) and isinstance(n.op, ast.Not) and "compare_digest" in ast.unparse(n), lambda n: ast.BoolOp(op=ast.And(), values=[n, parse_expr("len(token) > 8")]))), "C24.check-accept"),
    ("token also read from the cookie itself", _in("check_xsrf_cookie", replace_expr(lambda n: isinstance(n, ast.BoolOp) and "get_argument" in ast.unparse(n), lambda n: ast.BoolOp(op=ast.Or(), values=n.values + [parse_expr("self.get_cookie('_xsrf')")]))), "C24.token-source"),
    ("X-CSRFToken header no longer consulted", _in("check_xsrf_cookie", replace_expr(lambda n: isinstance(n, ast.BoolOp) and "get_argument" in ast.unparse(n), lambda n: ast.BoolOp(op=ast.Or(), values=n.values[:-1]))), "C24.token-source"),
    ("expected token taken from the wrong tuple position", _in("check_xsrf_cookie", replace_stmt(lambda st: isinstance(st, ast.Assign) and "_get_raw_xsrf_token" in ast.unparse(st), lambda st: [parse_stmt("expected_token, _, _ = self._get_raw_xsrf_token()")])), "C24.token-position"),
    ("mismatch answered with 400", _in("check_xsrf_cookie", replace_expr(lambda n: isinstance(n, ast.Constant) and n.value == 403, lambda n: ast.Constant(value=400), limit=3)), "C24.only-403"),
    ("decoder swaps mask and masked token", _in("_decode_xsrf_token", replace_stmt(lambda st: isinstance(st, ast.Assign) and isinstance(st.targets[0], ast.Tuple) and "split" in ast.unparse(st), lambda st: [parse_stmt("_, masked_token, mask_str, timestamp_str = cookie.split('|')")])), "C24.codec"),
    ("issuer writes a 2-byte mask", _in("xsrf_token", replace_expr(lambda n: isinstance(n, ast.Call) and q.dotted(n.func) == "os.urandom", lambda n: parse_expr("os.urandom(2)"))), "C24.codec"),
    ("malformed token falls back to its raw text", _in("_decode_xsrf_token", replace_stmt(lambda st: isinstance(st, ast.Return) and ast.unparse(st.value) == "(None, None, None)", lambda st: [parse_stmt("return None, utf8(cookie), None")])), "C24.codec"),
    ("empty v2 token replaced by the mask", _in("_decode_xsrf_token", replace_stmt(lambda st: isinstance(st, ast.Return) and ast.unparse(st.value) == "(version, token, timestamp)", lambda st: [parse_stmt("return version, token or mask, timestamp")], limit=1)), "C24.codec"),
    ("seeded C24-adv3: decoder rejects masked secrets that are not 16 bytes", _in("_decode_xsrf_token", replace_stmt(lambda st: isinstance(st, ast.Assign) and "_websocket_mask" in ast.unparse(st.value), lambda st: [parse_stmt("if len(mask) != 4 or len(binascii.a2b_hex(utf8(masked_token))) != 16:\n    raise ValueError('Malformed xsrf token')"), st])), "C24.codec"),
    ("decoder requires secrets of at least 16 bytes", _in("_decode_xsrf_token", replace_stmt(lambda st: isinstance(st, ast.Return) and ast.unparse(st.value) == "(version, token, timestamp)", lambda st: [parse_stmt("if len(token) < 16:\n    raise ValueError('short token')"), st], limit=1)), "C24.codec"),
    ("decoder insists on an 8-byte mask", _in("_decode_xsrf_token", replace_stmt(lambda st: isinstance(st, ast.Assign) and "_websocket_mask" in ast.unparse(st.value), lambda st: [parse_stmt("if len(mask) != 8:\n    raise ValueError('bad mask')"), st])), "C24.codec"),
    ("seeded C24-adv5: legacy cookie hex-decoded as text (non-ASCII raises plain ValueError past the fallback)", _in("_decode_xsrf_token", replace_expr(lambda n: isinstance(n, ast.Call) and q.dotted(n.func) == "binascii.a2b_hex" and ast.unparse(n.args[0]) == "utf8(cookie)", lambda n: parse_expr("binascii.a2b_hex(cookie)"))), "C24.fallback-complete"),
    ("fallback handler for non-hex legacy cookies narrowed to TypeError", _in("_decode_xsrf_token", lambda root: _narrow_fallback(root)), "C24.fallback-complete"),
    ("fresh token not sent as cookie for anonymous users", _in("xsrf_token", replace_expr(lambda n: isinstance(n, ast.Compare) and ast.unparse(n) == "version is None", lambda n: parse_expr("version is None and self.current_user"), limit=1)), "C24.cookie-set"),
    ("raw token: decoded cookie read from the version slot", _in("_get_raw_xsrf_token", replace_stmt(lambda st: isinstance(st, ast.Assign) and "_decode_xsrf_token" in ast.unparse(st), lambda st: [parse_stmt("token, version, timestamp = self._decode_xsrf_token(cookie)")])), "C24.token-position"),
]


def _release_before_check(root):
    for node in ast.walk(root):
        body = getattr(node, "body", None)
        if isinstance(body, list):
            ci = next((i for i, st in enumerate(body) if isinstance(st, ast.If) and "check_xsrf_cookie" in ast.unparse(st)), None)
            ri = next((i for i, st in enumerate(body) if isinstance(st, ast.If) and "future_set_result_unless_cancelled" in ast.unparse(st)), None)
            if ci is not None and ri is not None and ci < ri:
                body.insert(ci, body.pop(ri))
                return True
    return False


def _narrow_fallback(root):
    for x in ast.walk(root):
        if isinstance(x, ast.ExceptHandler) and isinstance(x.type, ast.Tuple) and "binascii.Error" in ast.unparse(x.type):
            x.type = ast.Name(id="TypeError", ctx=ast.Load())
            return True
    return False
