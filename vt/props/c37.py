"""C37 — decorated generator coroutines behave like native coroutines.

Thin clause set (DESIGN.md §4 C37, §5).  Decided statically: *who-may-advance*
(user code — ``func``, ``next``, ``gen.send``/``gen.throw``, ``Runner.run`` — is
only ever entered through ``ctx_run``, which is ``copy_context().run``);
every advance is protected by a StopIteration/Return handler that settles the
result future with the returned value, and by an ``Exception`` handler that
settles it with the error; exit-state typestate of the decorator wrapper
(result future settled exactly once or handed to exactly one Runner); settle
discipline of ``Runner.run`` (finished flag, take-and-clear of
``result_future``, return); re-entrancy flag released in ``finally``; the
awaited future is read only when ``done()`` and the read is cancel-aware;
``handle_yield`` returns True only for a finished future and otherwise
registers exactly one wake-up; ``convert_yielded``'s dispatch table.  Not
decided: behavioural equivalence with native coroutines.
"""
from __future__ import annotations

import ast

from .. import q
from ..cfg import must_facts, holds, canon_fact
from ..rules import settle_sites, check_settles, event_facts, node_assigns, is_none, is_true, is_false, require_after
from ..mutate import mutate, remove_stmts, replace_expr, replace_stmt, parse_stmt, parse_expr
from ..model import AnalysisError
from ..x_syncnorm import normalized

NORM_MODULES = ("tornado/locks.py", "tornado/queues.py", "tornado/gen.py", "tornado/concurrent.py", "tornado/ioloop.py", "tornado/platform/asyncio.py")
from ..x_sync import check_none_tests, own_walk, node_counts, method_call_on, exit_states, own_find, own_settle_sites, check_outcome_reads, handler_catches_cancel

TECHNIQUE = "who-may-call lint, handler-structure (exception-escape) rules, exit-state typestate, settle-discipline, dispatch-table extraction"
EXPLANATION = (
    "All call sites that enter user code (func, next, gen.send/throw, Runner.run, handle_yield at construction) must go through ctx_run; each advance is "
    "inside try-handlers for StopIteration/Return (-> result) and Exception (-> error); wrapper exit states settle-or-hand-over exactly once; Runner.run "
    "settles result_future only with finished=True before and take-and-clear + return after; running flag reset in finally; awaited future read only under "
    "done() and cancel-aware; handle_yield exit states; convert_yielded branch table from must-facts at each return."
)
NOT_DECIDED = "equivalence of results/side-effect traces with the async-def form for all programs and completion orders; stack-context/traceback details; garbage-collection keep-alive of the Runner"
LEVEL_NOTE = "thin clause set: necessary code-shape conditions only"

G = "tornado/gen.py"
STOPS = ("StopIteration", "Return")


def _ctx_run_arg(c, name_pred):
    """c is ``<something>ctx_run(f, ...)`` with f satisfying name_pred."""
    return isinstance(c, ast.Call) and (q.dotted(c.func) or "").split(".")[-1] == "ctx_run" and c.args and name_pred(c.args[0])


def check_who_may_advance(ck):
    wr = ck.func(G, "coroutine.<locals>.wrapper")
    co = wr.parent  # `coroutine` is defined three times (two @overload stubs); the real one owns the wrapper
    fparam = co.params()[0]
    n = 0
    # wrapper: func and next only via ctx_run
    for c in [x for x in own_walk(wr.node) if isinstance(x, ast.Call)]:
        if isinstance(c.func, ast.Name) and c.func.id == fparam:
            n += 1
            ck.ob("C37.ctx-run", wr, c, False, "the decorated function is entered only through ctx_run (caller's context variables visible, changes isolated)")
        if isinstance(c.func, ast.Name) and c.func.id == "next":
            n += 1
            ck.ob("C37.ctx-run", wr, c, False, "the generator is advanced only through ctx_run")
        if isinstance(c.func, ast.Attribute) and c.func.attr in ("send", "throw", "__next__"):
            n += 1
            ck.ob("C37.ctx-run", wr, c, False, "the generator is advanced only through ctx_run")
        if _ctx_run_arg(c, lambda a: q.dotted(a) in (fparam, "next")):
            n += 1
            ck.ob("C37.ctx-run", wr, c, True, "user code entered through ctx_run")
    ck.floor("C37.ctx-run", n, 2, "entries into user code in the wrapper")
    # ctx_run is a fresh copy of the caller's context
    st = q.stores_to(wr.node, "ctx_run")
    ok = len(st) == 1 and isinstance(st[0].value, ast.Attribute) and st[0].value.attr == "run" and isinstance(st[0].value.value, ast.Call) and (q.dotted(st[0].value.value.func) or "").endswith("copy_context")
    ck.ob("C37.ctx-run", wr, st[0] if st else wr.node, ok, "ctx_run is contextvars.copy_context().run (taken once per call)")
    runners = [c for c in own_walk(wr.node) if isinstance(c, ast.Call) and q.dotted(c.func) == "Runner"]
    for c in runners:
        ck.ob("C37.ctx-run", wr, c, len(c.args) >= 1 and q.dotted(c.args[0]) == "ctx_run", "the Runner inherits the same ctx_run")
    # Runner: gen.send/throw only in run; run/handle_yield referenced only under ctx_run
    init = ck.func(G, "Runner.__init__")
    ok = any(isinstance(s, ast.Assign) and q.dotted(s.value) == init.params()[1] for s in q.stores_to(init.node, "self.ctx_run"))
    ck.ob("C37.ctx-run", init, init.node, ok, "Runner stores the ctx_run it was given", construct="stores ctx_run")
    m = 0
    for fi in ck.repo.methods(G, "Runner"):
        pm = q.parent_map(fi.node)
        for x in ast.walk(fi.node):
            if isinstance(x, ast.Call) and isinstance(x.func, ast.Attribute) and x.func.attr in ("send", "throw") and q.dotted(x.func.value) == "self.gen":
                m += 1
                ck.ob("C37.ctx-run", fi, x, fi.qualname == "Runner.run", "the generator is advanced only inside Runner.run")
            if isinstance(x, ast.Attribute) and q.dotted(x) == "self.run" and isinstance(x.ctx, ast.Load):
                m += 1
                p = pm.get(x)
                via = False
                if isinstance(p, ast.Call) and x in p.args:
                    i = p.args.index(x)
                    if q.dotted(p.func) == "self.ctx_run" and i == 0:
                        via = True
                    elif i >= 1 and q.dotted(p.args[i - 1]) == "self.ctx_run":
                        via = True  # add_callback(self.ctx_run, self.run)
                ck.ob("C37.ctx-run", fi, p if isinstance(p, ast.Call) else x, via, "Runner.run is only ever invoked as ctx_run(self.run)")
            if isinstance(x, ast.Attribute) and q.dotted(x) == "self.handle_yield" and isinstance(x.ctx, ast.Load):
                p = pm.get(x)
                if fi.qualname == "Runner.run":
                    continue  # already inside ctx_run
                m += 1
                via = isinstance(p, ast.Call) and x in p.args and q.dotted(p.func) == "self.ctx_run" and p.args.index(x) == 0
                ck.ob("C37.ctx-run", fi, p if isinstance(p, ast.Call) else x, via, "outside run(), handle_yield (which may call convert_yielded on user objects) runs under ctx_run")
    ck.floor("C37.ctx-run", m, 5, "advance / run references in Runner")


def _advances(fi, fparam=None):
    """Call sites in ``fi`` that run user code and may therefore finish the coroutine."""
    out = []
    for nd, c in own_find(fi, lambda x: isinstance(x, ast.Call)):
        if isinstance(c.func, ast.Attribute) and c.func.attr in ("send", "throw") and q.dotted(c.func.value) == "self.gen":
            out.append((nd, c, "gen." + c.func.attr))
        elif _ctx_run_arg(c, lambda a: q.dotted(a) == "next"):
            out.append((nd, c, "next"))
        elif fparam and _ctx_run_arg(c, lambda a: q.dotted(a) == fparam):
            out.append((nd, c, "call"))
        elif isinstance(c.func, ast.Name) and c.func.id == "next":
            out.append((nd, c, "next"))  # direct form: reported by C37.ctx-run, still an advance
        elif fparam and isinstance(c.func, ast.Name) and c.func.id == fparam:
            out.append((nd, c, "call"))
    return out


def _handler_settles(fi, h, fut_paths, value_pred):
    """Handler ``h`` (or the code it falls into) settles one of ``fut_paths``; with value_pred on the value."""
    for st in h.body:
        for c in ast.walk(st):
            if isinstance(c, ast.Call) and q.call_attr(c) in ("future_set_result_unless_cancelled", "future_set_exc_info", "future_set_exception_unless_cancelled") and c.args and q.dotted(c.args[0]) in fut_paths:
                if value_pred(c):
                    return c
    return None


def check_outcomes(ck):
    """Every advance is covered by StopIteration/Return -> result and Exception -> error handlers."""
    wr = ck.func(G, "coroutine.<locals>.wrapper")
    co = wr.parent
    run = ck.func(G, "Runner.run")
    n = 0
    for fi, futs, fparam in ((wr, ("future",), co.params()[0]), (run, ("self.result_future",), None)):
        pm = q.parent_map(fi.node)
        for nd, c, kind in _advances(fi, fparam):
            n += 1
            for exc in STOPS:
                h = q.protected_by(pm, c, exc)
                ck.ob("C37.outcome", fi, c, h is not None and not q.exc_is_caught(exc, ["Exception"]) or (h is not None and set(q.handler_names(h)) & set(STOPS) != set()),
                      "%s is covered by a handler naming %s (a finished generator yields its return value)" % (kind, exc))
                if h is None:
                    continue
                names = set(q.handler_names(h))
                if not names & set(STOPS):
                    ck.ob("C37.outcome", fi, c, False, "%s: %s must be caught by its own handler, not by the generic error handler" % (kind, exc))
                    continue
                # the handler produces the result from the exception value
                uses_value = [x for st in h.body for x in ast.walk(st) if q.is_call(x, "_value_from_stopiteration") and x.args and isinstance(x.args[0], ast.Name) and x.args[0].id == h.name]
                ck.ob("C37.outcome", fi, h, bool(uses_value), "the %s handler takes the coroutine's result from the exception (_value_from_stopiteration(e))" % "/".join(sorted(names)),
                      construct="handler %s uses value" % "/".join(sorted(names)))
            h = q.protected_by(pm, c, "RuntimeError")  # any ordinary error raised by user code
            ok = h is not None and _handler_settles(fi, h, futs, lambda s: q.call_attr(s) == "future_set_exc_info" or q.call_attr(s) == "future_set_exception_unless_cancelled") is not None
            ck.ob("C37.outcome", fi, c, ok, "an ordinary exception escaping %s is caught and becomes the result future's exception" % kind)
    ck.floor("C37.outcome", n, 4, "advance sites (call, next, send, throw)")


def check_return_value(ck):
    vf = ck.func(G, "_value_from_stopiteration")
    p_ = vf.params()[0]
    kinds = []
    for r in [r for r in own_walk(vf.node) if isinstance(r, ast.Return)]:
        v = r.value
        if q.dotted(v) == p_ + ".value":
            kinds.append("value")
        elif isinstance(v, ast.Subscript) and q.dotted(v.value) == p_ + ".args" and q.is_const(v.slice, 0):
            kinds.append("args0")
        elif v is None or q.is_const(v, None):
            kinds.append("none")
        else:
            kinds.append("other")
            ck.ob("C37.outcome", vf, r, False, "_value_from_stopiteration returns e.value, e.args[0] or None")
    ck.ob("C37.outcome", vf, vf.node, "value" in kinds and "other" not in kinds, "the coroutine's result is the StopIteration/Return value (e.value, falling back to e.args[0])", construct="value extraction %s" % sorted(set(kinds)))
    ri = ck.func(G, "Return.__init__")
    vp = [x for x in ri.params() if x != "self"][0]
    ok = any(q.dotted(getattr(st, "value", None)) == vp for st in q.stores_to(ri.node, "self.value"))
    ck.ob("C37.outcome", ri, ri.node, ok, "gen.Return carries its value in .value", construct="Return stores value")


def check_wrapper_ts(ck):
    wr = ck.func(G, "coroutine.<locals>.wrapper")
    ss = own_settle_sites(wr)
    ck.floor("C37.wrapper-ts", len(ss), 3, "settle sites in the wrapper")
    for s in ss:
        ck.ob("C37.wrapper-ts", wr, s[1], s[2] == "future", "the wrapper settles only its own result future")
    check_settles(ck, "C37.settle", wr, allow_safe_unguarded=False)
    runners = own_find(wr, lambda x: isinstance(x, ast.Call) and q.dotted(x.func) == "Runner")
    ck.floor("C37.wrapper-ts", len(runners), 1, "Runner constructions")
    for nd, c in runners:
        ck.ob("C37.wrapper-ts", wr, c, len(c.args) >= 3 and q.dotted(c.args[2]) == "future", "the Runner is given the result future")
    sc = node_counts(wr, lambda x: any(x is s[1] for s in ss))
    rc = node_counts(wr, lambda x: any(x is c for _, c in runners))
    retf = {}
    for nd in wr.cfg.stmt_nodes(lambda nd: nd.kind == "stmt" and isinstance(nd.ast, ast.Return)):
        retf[nd.id] = q.dotted(nd.ast.value) if nd.ast.value is not None else None

    def tr(nd, v):
        s, r, ret = v
        return (min(2, s + sc.get(nd.id, 0)), min(2, r + rc.get(nd.id, 0)), retf.get(nd.id, ret))

    normal, _ = exit_states(wr.cfg, (0, 0, "?"), tr, follow_exc=True)
    ck.floor("C37.wrapper-ts", len(normal), 2, "normal exit states of the wrapper")
    for _f, (s, r, ret) in normal:
        ck.ob("C37.wrapper-ts", wr, wr.node, s + r == 1 and ret == "future", "every normal return of the wrapper returns the result future, either settled exactly once or handed to exactly one Runner (settles=%d runners=%d returns=%s)" % (s, r, ret),
              construct="exit settles=%d runners=%d returns=%s" % (s, r, ret))
    # fresh result future
    fresh = any(isinstance(getattr(st, "value", None), ast.Call) and q.call_attr(st.value) in ("Future", "_create_future") for st in q.stores_to(wr.node, "future"))
    ck.ob("C37.wrapper-ts", wr, wr.node, fresh, "the wrapper creates a fresh result future per call", construct="future fresh")


def check_runner_run(ck):
    run = ck.func(G, "Runner.run")
    cfg = run.cfg
    RF = "self.result_future"
    ss = [s for s in own_settle_sites(run)]
    ck.floor("C37.settle", len(ss), 2, "settle sites in Runner.run")
    fin = event_facts(run, {"finished": node_assigns("self.finished", is_true)}, {"finished": node_assigns("self.finished", lambda v: not is_true(v))}, cond_facts=False)
    for s in ss:
        ck.ob("C37.settle", run, s[1], s[2] == RF and s[3] == "safe", "Runner.run settles only result_future, with the *_unless_cancelled form (the caller may have cancelled it)")
        ck.ob("C37.settle", run, s[1], ("@finished", True) in fin[s[0].id], "finished = True is set before the result future is settled (run() can never settle twice)")
    ids = {s[0].id for s in ss}
    n = require_after(ck, "C37.settle", run, lambda nd: nd.id in ids, node_assigns(RF, is_none), "after settling, result_future is cleared on every path (take-and-clear)", exits="normal")
    # after settle: return before any further advance
    adv = {nd.id for nd, c, k in _advances(run)}

    def tr(nd, v):
        settled, bad = v
        if nd.id in adv and settled:
            bad = True
        if nd.id in ids:
            settled = True
        return (settled, bad)

    normal, _ = exit_states(cfg, (False, False), tr)
    for _f, (settled, bad) in normal:
        ck.ob("C37.settle", run, run.node, not bad, "the generator is never advanced again after the result future was settled", construct="exit advanced-after-settle=%s" % bad)
    # re-entrancy: guard at entry, flag reset on every exit
    facts = must_facts(cfg)
    sets_ = cfg.stmt_nodes(node_assigns("self.running", is_true))
    ck.floor("C37.reentrancy", len(sets_), 1, "running = True")
    for nd in sets_:
        ck.ob("C37.reentrancy", run, nd.ast, holds(facts[nd.id], "self.running", False) and holds(facts[nd.id], "self.finished", False), "run() proceeds only when not already running and not finished")
    require_after(ck, "C37.reentrancy", run, node_assigns("self.running", is_true), node_assigns("self.running", is_false), "running is reset on every exit (normal or exceptional) once it was set", exits="all")
    for nd, c, k in _advances(run):
        run_set = event_facts(run, {"r": node_assigns("self.running", is_true)}, {"r": node_assigns("self.running", is_false)}, cond_facts=False)
        ck.ob("C37.reentrancy", run, c, ("@r", True) in run_set[nd.id], "the generator is advanced only while running = True (a nested run() returns immediately)")
    # awaited future: read only when done, cancel-aware
    reads = own_find(run, lambda x: isinstance(x, ast.Call) and isinstance(x.func, ast.Attribute) and x.func.attr in ("result", "exception") and not x.args and q.dotted(x.func.value) is not None)
    ck.floor("C37.await-read", len(reads), 1, "outcome reads of the awaited future")
    for nd, c in reads:
        r = q.dotted(c.func.value)
        ck.ob("C37.await-read", run, c, holds(facts[nd.id], "%s.done()" % r, True), "the awaited future's outcome is read only when it is done()")
        src = [st for st in q.stores_to(run.node, r) if isinstance(st, ast.Assign) and q.dotted(st.value) == "self.future"]
        ck.ob("C37.await-read", run, c, len(src) >= 1, "the future read is the one the coroutine is waiting on (self.future)")
    n = check_outcome_reads(ck, "C37.cancel-aware", run)
    ck.floor("C37.cancel-aware", n, 1, "outcome reads in Runner.run")
    # what was read is what is sent / thrown
    for nd, c, k in _advances(run):
        a = c.args[0] if c.args else None
        if k == "gen.send":
            ok = isinstance(a, ast.Name) and any(isinstance(st, ast.Assign) and isinstance(st.value, ast.Call) and isinstance(st.value.func, ast.Attribute) and st.value.func.attr == "result" for st in q.stores_to(run.node, a.id))
            ck.ob("C37.await-read", run, c, ok, "the value sent into the generator is the awaited future's result()")
        elif k == "gen.throw":
            hs = [h for h in ast.walk(run.node) if isinstance(h, ast.ExceptHandler) and h.name]
            ok = isinstance(a, ast.Name) and any(isinstance(getattr(st, "value", None), ast.Name) and st.value.id in {h.name for h in hs} for st in q.stores_to(run.node, a.id))
            ck.ob("C37.await-read", run, c, ok, "the exception thrown into the generator is the one raised by the awaited future's result()")


def check_handle_yield(ck):
    hy = ck.func(G, "Runner.handle_yield")
    cfg = hy.cfg
    FUT = "self.future"
    regs_f = own_find(hy, lambda x: isinstance(x, ast.Call) and q.call_attr(x) == "add_future" and len(x.args) == 2 and q.dotted(x.args[0]) == FUT)
    regs_m = own_find(hy, lambda x: isinstance(x, ast.Call) and q.call_attr(x) in ("add_callback", "call_soon") and len(x.args) >= 2 and q.dotted(x.args[0]) == "self.ctx_run" and q.dotted(x.args[1]) == "self.run")
    ck.ob("C37.handle-yield", hy, hy.node, len(regs_f) >= 1, "a pending future gets a wake-up registration (add_future(self.future, ...))", construct="registers on future")
    ck.ob("C37.handle-yield", hy, hy.node, len(regs_m) >= 1, "moment re-schedules ctx_run(self.run) on the loop", construct="re-schedules on moment")
    rc = node_counts(hy, lambda x: any(x is c for _, c in regs_f + regs_m))
    retv = {}
    for nd in cfg.stmt_nodes(lambda nd: nd.kind == "stmt" and isinstance(nd.ast, ast.Return)):
        v = nd.ast.value
        retv[nd.id] = v.value if isinstance(v, ast.Constant) and isinstance(v.value, bool) else "?"
    donef = FUT + ".done()"

    def tr(nd, v):
        regs, ret, done = v
        return (min(2, regs + rc.get(nd.id, 0)), retv.get(nd.id, ret), done)

    def edge(nd, kind, v):
        regs, ret, done = v
        if nd.kind == "test" and kind in ("true", "false"):
            t, pol = canon_fact(nd.ast, kind == "true")
            if t == donef:
                done = pol
        return (regs, ret, done)

    def tr2(nd, v):
        # a rebinding of self.future invalidates what is known about done()
        regs, ret, done = tr(nd, v)
        if nd.kind == "stmt" and isinstance(nd.ast, ast.stmt) and FUT in q.assigned_paths(nd.ast):
            done = None
        return (regs, ret, done)

    # a single exit through a result variable (`ready = True ... ready = False ... return ready`): the booleans bound to
    # plain locals are carried along each path and substituted at the return
    def tr3(nd, v):
        inner_, rv = v
        inner_ = tr2(nd, inner_)
        if nd.kind == "stmt" and isinstance(nd.ast, (ast.Assign, ast.AnnAssign)) and getattr(nd.ast, "value", None) is not None:
            tgs = nd.ast.targets if isinstance(nd.ast, ast.Assign) else [nd.ast.target]
            d = dict(rv)
            for t_ in tgs:
                if isinstance(t_, ast.Name):
                    if isinstance(nd.ast.value, ast.Constant) and isinstance(nd.ast.value.value, bool):
                        d[t_.id] = nd.ast.value.value
                    else:
                        d.pop(t_.id, None)
            rv = frozenset(d.items())
        if nd.kind == "stmt" and isinstance(nd.ast, ast.Return) and isinstance(nd.ast.value, ast.Name):
            inner_ = (inner_[0], dict(rv).get(nd.ast.value.id, "?"), inner_[2])
        return (inner_, rv)

    def edge3(nd, kind, v):
        inner_ = edge(nd, kind, v[0])
        return None if inner_ is None else (inner_, v[1])

    normal, _ = exit_states(cfg, ((0, None, None), frozenset()), tr3, edge_transfer=edge3, follow_exc=True)
    normal = sorted({(f_, v_[0]) for f_, v_ in normal}, key=repr)
    ck.floor("C37.handle-yield", len(normal), 3, "normal exit states of handle_yield")
    for _f, (regs, ret, done) in normal:
        if ret is True:
            ck.ob("C37.handle-yield", hy, hy.node, regs == 0 and done is True, "handle_yield says 'continue now' only for a future known done(), with no wake-up registered (registrations=%d done=%s)" % (regs, done),
                  construct="exit True registrations=%d done=%s" % (regs, done))
        elif ret is False:
            ck.ob("C37.handle-yield", hy, hy.node, regs == 1, "handle_yield says 'suspend' only after registering exactly one wake-up (registrations=%d)" % regs, construct="exit False registrations=%d" % regs)
        else:
            raise AnalysisError("%s: a return value of handle_yield cannot be reduced to True/False" % hy.site())
    # done() of the yielded future cannot change inside this synchronous function except by rebinding self.future
    from ..x_sync import stable_facts
    facts = stable_facts(cfg, lambda t: t == donef)
    for nd, c in regs_f:
        ck.ob("C37.handle-yield", hy, c, (donef, False) in facts[nd.id], "a wake-up on the future is registered only when it is not done yet")
        cb = c.args[1]
        nested = {nf.name: nf for nf in ck.repo.nested(hy) if nf.parent is hy}
        if isinstance(cb, ast.Name) and cb.id not in nested:
            from ..x_sync import resolve_callable_name
            r_ = resolve_callable_name(ck.repo, hy, cb.id)
            if r_ is not None:
                nested[cb.id] = r_
        if isinstance(cb, ast.Name) and cb.id in nested:
            inner = ck.use(nested[cb.id])
            calls = [x for x in own_walk(inner.node) if isinstance(x, ast.Call)]
            ok = any(q.dotted(x.func) == "self.ctx_run" and x.args and q.dotted(x.args[0]) == "self.run" for x in calls) and not any(q.dotted(x.func) == "self.run" for x in calls)
            ck.ob("C37.ctx-run", inner, inner.node, ok, "the wake-up resumes the coroutine through ctx_run(self.run)", construct="inner resumes via ctx_run")
        elif isinstance(cb, ast.Lambda):
            calls = [x for x in ast.walk(cb.body) if isinstance(x, ast.Call)]
            ok = any(q.dotted(x.func) == "self.ctx_run" and x.args and q.dotted(x.args[0]) == "self.run" for x in calls) and not any(q.dotted(x.func) == "self.run" for x in calls)
            ck.ob("C37.ctx-run", hy, cb, ok, "the wake-up resumes the coroutine through ctx_run(self.run)", construct="wake-up lambda resumes via ctx_run")
        else:
            raise AnalysisError("%s: wake-up callback in an unrecognised shape" % hy.site(c))
    # conversion errors become a failed future that is thrown into the generator
    conv = own_find(hy, lambda x: q.is_call(x, "convert_yielded"))
    ck.floor("C37.handle-yield", len(conv), 1, "convert_yielded calls")
    pm = q.parent_map(hy.node)
    for nd, c in conv:
        h = q.protected_by(pm, c, "BadYieldError")
        if h is None:
            ck.ob("C37.handle-yield", hy, c, False, "BadYieldError from convert_yielded is caught in handle_yield (a bad yield is raised inside the coroutine, not in the runner)")
            continue
        fails = [x for st in h.body for x in ast.walk(st) if q.is_call(x, "future_set_exc_info", "future_set_exception_unless_cancelled") and x.args]
        reraises = any(isinstance(x, ast.Raise) for st in h.body for x in ast.walk(st))
        if not fails and not reraises:
            raise AnalysisError("%s: BadYieldError handler in an unrecognised shape" % hy.site(h))
        # the failed future becomes self.future: set on it directly, or on a local that is then stored into it
        flows = any(q.dotted(x.args[0]) == FUT or (isinstance(x.args[0], ast.Name) and any(isinstance(st, ast.Assign) and q.dotted(st.targets[0]) == FUT and q.dotted(st.value) == x.args[0].id for st in own_walk(hy.node))) for x in fails)
        ck.ob("C37.handle-yield", hy, c, bool(fails) and flows and not reraises, "a bad yield becomes a failed future (so it is raised inside the coroutine, like awaiting a non-awaitable)")
    # Runner.__init__: run starts immediately only when handle_yield said so
    init = ck.func(G, "Runner.__init__")
    ifacts = must_facts(init.cfg)
    starts = own_find(init, lambda x: isinstance(x, ast.Call) and q.dotted(x.func) == "self.ctx_run" and x.args and q.dotted(x.args[0]) == "self.run")
    ck.floor("C37.handle-yield", len(starts), 1, "immediate starts in Runner.__init__")
    ipm = q.parent_map(init.node)
    for nd, c in starts:
        ok = False
        child = c
        for anc in q.ancestors(ipm, c):
            if isinstance(anc, ast.If) and any(child is st for st in anc.body):
                t = anc.test
                if isinstance(t, ast.Call) and q.dotted(t.func) == "self.ctx_run" and t.args and q.dotted(t.args[0]) == "self.handle_yield":
                    ok = True
            child = anc
        ck.ob("C37.handle-yield", init, c, ok, "the Runner runs immediately only if handle_yield(first_yielded) returned True")


def check_convert(ck):
    cv = ck.func(G, "convert_yielded")
    p = cv.params()[0]
    cfg = cv.cfg
    facts = must_facts(cfg)
    cats = {"moment": 0, "multi": 0, "future": 0, "awaitable": 0, "null": 0, "bad": 0}
    LD = "isinstance(%s, (list, dict))" % p
    # the same fact whatever the order of the classes in the tuple
    for nd_ in cfg.stmt_nodes(lambda nd_: nd_.kind == "test"):
        t_ = nd_.ast
        if isinstance(t_, ast.Call) and q.dotted(t_.func) == "isinstance" and len(t_.args) == 2 and q.dotted(t_.args[0]) == p and isinstance(t_.args[1], ast.Tuple) \
                and {q.dotted(e_) for e_ in t_.args[1].elts} == {"list", "dict"}:
            LD = q.unparse(t_)
    for nd in cfg.stmt_nodes(lambda nd: nd.kind == "stmt" and isinstance(nd.ast, (ast.Return, ast.Raise))):
        f = facts[nd.id]
        if isinstance(nd.ast, ast.Raise):
            e = nd.ast.exc
            nm = q.dotted(e.func if isinstance(e, ast.Call) else e)
            ok = nm == "BadYieldError" and holds(f, "isawaitable(%s)" % p, False) and holds(f, "is_future(%s)" % p, False) and holds(f, LD, False) and holds(f, "%s is None" % p, False)
            ck.ob("C37.convert", cv, nd.ast, ok, "BadYieldError only for objects that are neither None/moment, list/dict, future nor awaitable")
            cats["bad"] += 1
            continue
        v = nd.ast.value
        if q.is_call(v, "typing.cast", "cast") and len(v.args) == 2:
            v = v.args[1]
        d = q.dotted(v)
        if d == "moment":
            cats["moment"] += 1
            ck.ob("C37.convert", cv, nd.ast, True, "None / moment -> moment")
        elif d == "_null_future":
            cats["null"] += 1
            ck.ob("C37.convert", cv, nd.ast, holds(f, "%s is _null_future" % p, True), "_null_future is passed through")
        elif q.is_call(v, "multi", "multi_future") and v.args and q.dotted(v.args[0]) == p:
            cats["multi"] += 1
            ck.ob("C37.convert", cv, nd.ast, holds(f, LD, True), "lists and dicts (and only those) are awaited in parallel through multi()")
        elif d == p:
            cats["future"] += 1
            ck.ob("C37.convert", cv, nd.ast, holds(f, "is_future(%s)" % p, True), "an object is returned unchanged only when it is a future")
        elif q.is_call(v, "_wrap_awaitable") and v.args and q.dotted(v.args[0]) == p:
            cats["awaitable"] += 1
            ck.ob("C37.convert", cv, nd.ast, holds(f, "isawaitable(%s)" % p, True) and holds(f, "is_future(%s)" % p, False), "other awaitables (native coroutines) are wrapped into a task")
        else:
            raise AnalysisError("%s: unrecognised conversion result" % cv.site(nd.ast))
    for k in ("moment", "multi", "future", "awaitable", "bad"):
        ck.ob("C37.convert", cv, cv.node, cats[k] >= 1, "convert_yielded has a %s branch" % k, construct="branch %s present=%s" % (k, cats[k] >= 1))
    # None must be tested first-class: moment branch must exist under `is None` or `is moment`
    tests = {canon_fact(nd.ast, True)[0] for nd in cfg.stmt_nodes(lambda nd: nd.kind == "test")}
    ck.ob("C37.convert", cv, cv.node, "%s is None" % p in tests and "%s is moment" % p in tests, "None and moment are recognised by identity", construct="identity tests")
    wa = ck.func(G, "_wrap_awaitable")
    ens = [c for c in own_walk(wa.node) if isinstance(c, ast.Call) and q.dotted(c.func) == "asyncio.ensure_future"]
    rets = [r for r in own_walk(wa.node) if isinstance(r, ast.Return)]
    ok = len(ens) == 1 and len(rets) == 1 and q.dotted(rets[0].value) in {t for st in q.stores_to(wa.node, q.dotted(rets[0].value) or "?") for t in q.assigned_paths(st) if getattr(st, "value", None) is ens[0]}
    ck.ob("C37.convert", wa, wa.node, ok, "_wrap_awaitable returns asyncio.ensure_future(awaitable) (the awaitable runs as a task)", construct="wrap awaitable")


def run(ck):
    ck._orig_repo = getattr(ck, "_orig_repo", None) or ck.repo
    ck.repo = normalized(ck.repo, NORM_MODULES, only=('tornado/gen.py',))  # alias / named-boolean / temporary / setter-helper normalisation (vt/x_syncnorm.py)
    ck.rule("C37.ctx-run", "user code (func, next, gen.send/throw, Runner.run, handle_yield at construction) is entered only through ctx_run = copy_context().run")
    ck.rule("C37.outcome", "every advance is covered by a StopIteration/Return handler producing the result from the exception value and by an Exception handler storing the error in the result future")
    ck.rule("C37.wrapper-ts", "the decorator wrapper returns its fresh result future on every path, settled exactly once or handed to exactly one Runner")
    ck.rule("C37.settle", "settles: wrapper on its fresh future; Runner.run only on result_future, *_unless_cancelled, with finished=True before, cleared after, and no further advance")
    ck.rule("C37.reentrancy", "Runner.run proceeds only when neither running nor finished, advances only while running, resets running on every exit")
    ck.rule("C37.await-read", "the awaited future's outcome is read only when done(); what is read is what is sent/thrown into the generator")
    ck.rule("C37.cancel-aware", "the outcome read of the awaited future is cancel-aware (CancelledError handled or excluded), as `await` would raise CancelledError inside a native coroutine")
    ck.rule("C37.handle-yield", "handle_yield returns True only for a done() future without registering, False only after exactly one wake-up registration; bad yields become failed futures; the Runner starts immediately only on True")
    ck.rule("C37.none-test", "in Runner.run the saved exception / pending future are compared with None by identity (an exception object may be falsy and must still be thrown into the generator)")
    ck.rule("C37.multi", "yield of a list/dict (gen.multi): fresh output; the unfinished set is complete before registration; the output is settled only after the last child finished and then always")
    ck.rule("C37.multi-listen", "every distinct yielded child is listened to exactly once")
    ck.rule("C37.multi-order", "results (and the first failure) are taken in list order, dict results zipped with the keys in the same order")
    ck.rule("C37.convert", "convert_yielded: None/moment -> moment; list/dict -> multi; future -> itself; other awaitable -> task; anything else -> BadYieldError")

    check_who_may_advance(ck)
    check_outcomes(ck)
    check_return_value(ck)
    check_wrapper_ts(ck)
    check_runner_run(ck)
    check_handle_yield(ck)
    check_convert(ck)
    # `yield [..]` / `yield {..}` go through gen.multi: its rules (shared with C36) are part of this property's mechanism
    from .c36 import check_multi
    check_multi(ck, P="C37")
    run_ = ck.func(G, "Runner.run")
    n = check_none_tests(ck, "C37.none-test", run_)
    ck.floor("C37.none-test", n, 2, "None tests in Runner.run")


# ---------------------------------------------------------------------------


def _in(qn, edit, rel=G):
    return lambda repo: mutate(repo, rel, qn, edit)


def _in_wrapper(edit):
    def find(tree):
        for n in ast.walk(tree):
            if isinstance(n, ast.FunctionDef) and n.name == "coroutine":
                for m in n.body:
                    if isinstance(m, ast.FunctionDef) and m.name == "wrapper":
                        return edit(m)
        return False
    return lambda repo: mutate(repo, G, None, find)


def _unwrap_ctx_run(first):
    """ctx_run(f, *a) -> f(*a) for the call whose first argument unparses to ``first``."""
    def pred(n):
        return isinstance(n, ast.Call) and (q.dotted(n.func) or "").split(".")[-1] == "ctx_run" and n.args and ast.unparse(n.args[0]) == first

    def new(n):
        return ast.Call(func=n.args[0], args=n.args[1:], keywords=n.keywords)
    return replace_expr(pred, new)


def _finally_to_tail(root):
    """try: BODY finally: self.running = False  ->  BODY; self.running = False"""
    for i, st in enumerate(root.body):
        if isinstance(st, ast.Try) and st.finalbody and not st.handlers:
            root.body[i:i + 1] = st.body + st.finalbody
            return True
    return False


def _narrow_handler(names_from, to):
    def edit(root):
        for h in ast.walk(root):
            if isinstance(h, ast.ExceptHandler) and h.type is not None and set(q.handler_names(h)) == set(names_from):
                h.type = ast.Name(id=to, ctx=ast.Load())
                return True
        return False
    return edit


def _undo_cancel_fix(root):
    for h in ast.walk(root):
        if isinstance(h, ast.ExceptHandler) and handler_catches_cancel(h) and any(isinstance(x, ast.Name) and x.id == "exc" for st in h.body for x in ast.walk(st)):
            h.type = ast.Name(id="Exception", ctx=ast.Load())
            return True
    return False


MUTANTS = [
    ("yield [..]: the unfinished set is filled while registering (seeded C37-adv4 / C36-adv2)", lambda repo: mutate(repo, G, "multi_future", lambda root: __import__("vt.props.c36", fromlist=["_merge_sets"])._merge_sets(root)), "C37.multi"),
    ("first step: `raise gen.Return(v)` before any yield is stored as an error (handler names StopIteration only, seeded C37-adv1)", _in_wrapper(lambda root: _first_step_only(root, "StopIteration")), "C37.outcome"),
    ("the decorated function raising gen.Return(v) without being a generator is stored as an error", _in_wrapper(lambda root: _call_handler_only(root)), "C37.outcome"),
    ("_value_from_stopiteration returns the args tuple", _in("_value_from_stopiteration", replace_expr(lambda n: isinstance(n, ast.Subscript) and "args" in ast.unparse(n), lambda n: n.value)), "C37.outcome"),
    ("a falsy exception is sent as a value instead of being thrown (`if exc:`)", _in("Runner.run", replace_expr(lambda n: isinstance(n, ast.Compare) and isinstance(n.ops[0], ast.IsNot) and ast.unparse(n.left) == "exc", lambda n: n.left)), "C37.none-test"),
    ("wake-up resumes the coroutine outside its context (self.run() directly)", _in("Runner.handle_yield.<locals>.inner", _unwrap_ctx_run("self.run")), "C37.ctx-run"),
    ("decorated function called outside ctx_run", _in_wrapper(_unwrap_ctx_run("func")), "C37.ctx-run"),
    ("first next() outside ctx_run", _in_wrapper(_unwrap_ctx_run("next")), ("C37.ctx-run", "C37.outcome")),
    ("moment re-schedules run without ctx_run", _in("Runner.handle_yield", replace_expr(lambda n: isinstance(n, ast.Call) and q.call_attr(n) == "add_callback", lambda n: ast.Call(func=n.func, args=n.args[1:], keywords=[]))), ("C37.ctx-run", "C37.handle-yield")),
    ("Runner.run settles without clearing result_future", _in("Runner.run", remove_stmts(lambda st: isinstance(st, ast.Assign) and ast.unparse(st.targets[0]) == "self.result_future" and isinstance(st.value, ast.Constant))), "C37.settle"),
    ("Runner.run settles before marking finished (flag dropped in the StopIteration handler)", _in("Runner.run", remove_stmts(lambda st: isinstance(st, ast.Assign) and ast.unparse(st.targets[0]) == "self.finished")), "C37.settle"),
    ("Runner.run keeps looping after the coroutine returned (return dropped)", _in("Runner.run", lambda root: _drop_return_after_settle(root)), "C37.settle"),
    ("running flag not reset when run() raises (finally removed)", _in("Runner.run", _finally_to_tail), "C37.reentrancy"),
    ("run() reads the awaited future before it is done", _in("Runner.run", remove_stmts(lambda st: isinstance(st, ast.If) and "done()" in ast.unparse(st.test) and isinstance(st.body[0], ast.Return))), "C37.await-read"),
    ("generator's StopIteration treated as an error in the first step", _in_wrapper(lambda root: _second(root)), "C37.outcome"),
    ("Runner.run loses the return value (no _value_from_stopiteration)", _in("Runner.run", replace_expr(lambda n: q.is_call(n, "_value_from_stopiteration"), lambda n: ast.Constant(value=None))), "C37.outcome"),
    ("handle_yield continues with a pending future (suspend path returns True)", _in("Runner.handle_yield", lambda root: _last_false_to_true(root)), "C37.handle-yield"),
    ("handle_yield forgets to register the wake-up", _in("Runner.handle_yield", remove_stmts(lambda st: isinstance(st, ast.Expr) and "add_future" in ast.unparse(st))), "C37.handle-yield"),
    ("convert_yielded no longer fans out lists/dicts", _in("convert_yielded", lambda root: _drop_branch(root, "list")), "C37.convert"),
    ("convert_yielded wraps futures into tasks (isawaitable tested first)", _in("convert_yielded", lambda root: _swap_future_awaitable(root)), "C37.convert"),
    ("(after the F23 fix) Runner.run's handler narrowed back to Exception", _in("Runner.run", _undo_cancel_fix), "C37.cancel-aware"),
]


def _drop_return_after_settle(root):
    for h in ast.walk(root):
        if isinstance(h, ast.ExceptHandler) and set(q.handler_names(h)) & set(STOPS):
            for i, st in enumerate(h.body):
                if isinstance(st, ast.Return):
                    h.body[i] = ast.Pass()
                    return True
    return False


def _second(root):
    """narrow the (StopIteration, Return) handler around ctx_run(next, ..) to Return only"""
    for t in ast.walk(root):
        if isinstance(t, ast.Try) and "ctx_run(next" in ast.unparse(t.body[0]):
            for h in t.handlers:
                if set(q.handler_names(h)) == set(STOPS):
                    h.type = ast.Name(id="Return", ctx=ast.Load())
                    return True
    return False


def _last_false_to_true(root):
    for n in ast.walk(root):
        if isinstance(n, ast.If) and "not self.future.done()" in ast.unparse(n.test):
            for st in n.body:
                if isinstance(st, ast.Return):
                    st.value = ast.Constant(value=True)
                    return True
    return False


def _drop_branch(root, word):
    def walk(ifnode, parent_body, idx):
        return False
    for n in ast.walk(root):
        if isinstance(n, ast.If):
            for i, st in enumerate(n.orelse):
                if isinstance(st, ast.If) and word in ast.unparse(st.test):
                    n.orelse = st.orelse
                    return True
    return False


def _swap_future_awaitable(root):
    a = b = None
    for n in ast.walk(root):
        if isinstance(n, ast.If):
            if "is_future" in ast.unparse(n.test):
                a = n
            elif "isawaitable" in ast.unparse(n.test):
                b = n
    if a is None or b is None:
        return False
    a.test, b.test = b.test, a.test
    a.body, b.body = b.body, a.body
    return True


def _first_step_only(root, keep):
    for t in ast.walk(root):
        if isinstance(t, ast.Try) and "ctx_run(next" in ast.unparse(t.body[0]):
            for h in t.handlers:
                if set(q.handler_names(h)) == set(STOPS):
                    h.type = ast.Name(id=keep, ctx=ast.Load())
                    return True
    return False


def _call_handler_only(root):
    for t in ast.walk(root):
        if isinstance(t, ast.Try) and "ctx_run(func" in ast.unparse(t.body[0]):
            for h in t.handlers:
                if set(q.handler_names(h)) == set(STOPS):
                    h.type = ast.Name(id="StopIteration", ctx=ast.Load())
                    return True
    return False
