"""C19 -- compiled templates produce what the template language defines.

The behavioural claim (semantic equivalence of a compiler with a reference interpreter) is not a
static fact.  Decided here are necessary conditions that are visible in the code of the parser, the
code generator, the inheritance machinery and the whitespace filter:

* error discipline of the parser call tree (only ParseError, carrying the reader's file/line);
* the directive dispatch of ``_parse`` evaluated once per concrete operator by constant folding of its
  tests (definite assignment of the constructed node, unknown operators rejected, which Python
  keywords keep their keyword in the emitted statement, block/loop context handed to the recursion,
  intermediate-clause table against Python's grammar, context guards of end/else/break);
* structure of the emitted program (headers, indentation scope, ``pass`` for empty suites, buffer
  prologue/epilogue of generated functions, one append alias used by all emitters, repr() literals);
* inheritance glue (ancestor order, block override lookup, child enumeration, include resolution);
* whitespace filter touches whitespace only and ``all`` is the identity.
"""
from __future__ import annotations

import ast

from .. import q
from ..cfg import must_facts, holds, explore
from ..rules import tainted_names
from ..mutate import mutate, remove_stmts, replace_expr, replace_stmt, parse_stmt, parse_expr
from ..model import AnalysisError
from .. import x_sre
from ..x_emit import emissions, emission_program, PH
from ..x_valuewalk import alias_expand, xdotted, xunparse, branch_flag, iter_order, always_raises, noreturn_cfg, walk, value_oracle, single_assignment, dict_literal, const_collection

TECHNIQUE = "per-operator constant-folded walk of the directive dispatch on the CFG + exception-class closure + emitted-line event ordering + regex-AST class check + constant folding of the whitespace-substitution pipeline (pattern constants extracted from the source, through locals and module-level compiled regexes) over a bounded domain: every whitespace run up to length 4 over class representatives"
EXPLANATION = (
    "tornado/template.py: (1) call closure from _parse: every raise statement constructs ParseError, foreign raises only behind a handler/guard; "
    "raise_parse_error passes reader.name/reader.line and never returns; consume() counts newlines before moving pos. "
    "(2) _parse's dispatch is executed symbolically once per operator literal (tests over the operator are constant-folded, "
    "raise_parse_error calls end the path): node variable definitely assigned before append, unknown operator reaches an error, "
    "statement text keeps/drops the keyword per Python's grammar, recursion receives block/loop context, intermediate table = Python clause table, "
    "guards of end/EOF/else/break are must-facts. (3) generate() methods: emitted lines folded to templates and parsed as Python; "
    "header/indent/pass/prologue/epilogue ordering by dominance and post-dominance; single append alias. "
    "(4) ancestors order, named-block override lookup, each_child coverage, include load arguments. "
    "(5) filter_whitespace: patterns parsed with re._parser, every consuming atom matches whitespace only, replacement is one whitespace char, mode 'all' returns its argument; "
    "because the patterns are anchor-free and whitespace-only the filter acts on each whitespace run independently, so the per-mode substitution pipeline (extracted constants) is "
    "evaluated on every run of <= 4 characters over 8 class representatives and compared with the documented result of the mode.  "
    "(6) scanner: opener set vs. per-opener closer search (mirror image), missing closer -> error, body consumed up to the closer, closer skipped by its length, '!' escape branch."
)
NOT_DECIDED = (
    "that the generated program computes what the template language defines for every template (compiler correctness), "
    "the scan loop's choice among runs of braces, correctness of the line number beyond 'reader.line at the point of the error', "
    "whitespace runs longer than 4 characters (bounded evaluation), whether '<pre>' is a good heuristic, loader path resolution"
)
LEVEL_NOTE = "Decides only the structural clauses listed; NOT decided: " + NOT_DECIDED + ". Trusted base: Python's grammar for compound statements (clause table, loop keywords), re/str semantics"

T = "tornado/template.py"

# Python reference (language reference, compound statements): which clause keywords may continue which
# statement, which statements are loops, which simple-statement / compound keywords are spelled the same in
# the template language and must therefore be emitted together with their operand.
PY_CLAUSES = {"else": {"if", "for", "while", "try"}, "elif": {"if"}, "except": {"try"}, "finally": {"try"}}
PY_LOOPS = {"for", "while"}
PY_LOOP_CTRL = {"break", "continue"}
PY_KEYWORD_OPS = {"import", "from", "try", "if", "for", "while", "break", "continue", "else", "elif", "except", "finally"}
OTHER = "\x00no-such-operator"


# --------------------------------------------------------------------------------------------
# shared context for the _parse rules


class ParseCtx:
    def __init__(self, ck):
        self.ck = ck
        self.fi = fi = ck.func(T, "_parse")
        defs = [f for qn, f in fi.module.funcs.items() if f.name == "raise_parse_error"]
        if len(defs) != 1:
            raise AnalysisError("expected exactly one raise_parse_error helper, found %d" % len(defs))
        self.rpe = ck.use(defs[0])
        if not always_raises(self.rpe):
            raise AnalysisError("%s can return normally; it is modelled as never returning" % self.rpe.qualname)
        ps = fi.params()
        if len(ps) < 4:
            raise AnalysisError("_parse signature changed: %s" % ps)
        self.reader, self.template, self.in_block, self.in_loop = ps[:4]
        self.cfg, cut = noreturn_cfg(fi, lambda c: isinstance(c.func, ast.Attribute) and c.func.attr == self.rpe.name and q.dotted(c.func.value) == self.reader)
        if cut < 8:
            raise AnalysisError("only %d parse-error call sites in _parse (expected >= 8)" % cut)
        self.n_errors = cut
        # the dispatch variable: `op, _, suffix = contents.partition(" ")`
        self.opnode = None
        for n in self.cfg.stmt_nodes(lambda n: n.kind == "stmt" and isinstance(n.ast, ast.Assign)):
            v = n.ast.value
            if isinstance(v, ast.Call) and isinstance(v.func, ast.Attribute) and v.func.attr == "partition" and isinstance(v.func.value, ast.Name) and len(n.ast.targets) == 1 and isinstance(n.ast.targets[0], ast.Tuple) and len(n.ast.targets[0].elts) == 3 and all(isinstance(x, ast.Name) for x in n.ast.targets[0].elts):
                if self.opnode is not None:
                    raise AnalysisError("two partition() dispatch points in _parse")
                self.opnode = n
                self.contents = v.func.value.id
                self.op = n.ast.targets[0].elts[0].id
                self.suffix = n.ast.targets[0].elts[2].id
        if self.opnode is None:
            raise AnalysisError("directive dispatch (contents.partition) not found in _parse")
        # operator literals mentioned by the dispatch
        dom = set()
        for n in self.cfg.stmt_nodes(lambda n: n.kind == "test"):
            if self.op in q.names_in(n.ast):
                dom |= {s for s in q.literal_strs(n.ast)}
        self.table_name = None
        self.table = None
        self.allowed = None
        for st in q.walk_body(fi.node):
            if isinstance(st, ast.Assign) and isinstance(st.value, ast.Call) and isinstance(st.value.func, ast.Attribute) and st.value.func.attr == "get" and len(st.value.args) == 1 and q.dotted(st.value.args[0]) == self.op and isinstance(st.value.func.value, (ast.Name, ast.Dict)) and len(st.targets) == 1 and isinstance(st.targets[0], ast.Name):
                recv_ = st.value.func.value
                d = (single_assignment(fi.node, recv_.id) or fi.module.assigns.get(recv_.id)) if isinstance(recv_, ast.Name) else recv_
                dl = dict_literal(d) if d is not None else None
                if dl is not None:
                    self.table_name = recv_.id if isinstance(recv_, ast.Name) else "<table>"
                    self.allowed = st.targets[0].id
                    self.table = dl
        if self.table is None:
            raise AnalysisError("intermediate-block table (dict literal looked up with the operator) not found in _parse")
        dom |= set(self.table)
        self.domain = sorted(dom)
        if len(self.domain) < 20:
            raise AnalysisError("only %d operator literals found in _parse's dispatch" % len(self.domain))
        self.dom = self.cfg.dominators()
        self.appends = [(n, c) for n, c in self.cfg.find(lambda x: isinstance(x, ast.Call) and isinstance(x.func, ast.Attribute) and x.func.attr == "append" and len(x.args) == 1 and (q.dotted(x.func.value) or "").endswith(".chunks"))]
        if len(self.appends) < 4:
            raise AnalysisError("only %d chunk append sites in _parse" % len(self.appends))
        self.node_classes = node_classes(ck)
        self._reach = {}

    def in_dispatch(self, n) -> bool:
        return self.opnode.id in self.dom.get(n.id, ())

    def reach(self, v, transfer=None, init=None):
        """Nodes reached from the dispatch point when the operator is ``v`` (tests folded), staying inside
        the region dominated by the dispatch point.  Returns {node id: set(values at entry)}."""
        key = (v, transfer is None)
        if transfer is None and key in self._reach:
            return self._reach[key]
        tr = transfer or (lambda n, val: val)
        res = walk(self.cfg, [(self.opnode.id, 0 if init is None else init)], tr, decide=value_oracle(self.fi.node, self.op, v),
                   stop=lambda n: n.id != self.opnode.id and not self.in_dispatch(n) and n.kind not in ("exit", "rexit"))
        if transfer is None:
            self._reach[key] = res
        return res

    def resolve_under(self, v, e, at):
        """Expression ``e`` at node ``at`` with local names replaced by the value of their unique assignment
        reached under operator ``v`` (follows `x = op` / `x = None` / `x = in_loop` temporaries)."""
        hops = 0
        while isinstance(e, ast.Name) and e.id not in (self.op, self.in_loop, self.in_block, self.reader, self.template) and hops < 4:
            r = self.reach(v)
            defs = [self.cfg.nodes[i] for i in r if self.cfg.nodes[i].kind == "stmt" and isinstance(self.cfg.nodes[i].ast, (ast.Assign, ast.AnnAssign)) and e.id in q.assigned_paths(self.cfg.nodes[i].ast) and self.in_dispatch(self.cfg.nodes[i]) and self.cfg.nodes[i].ast.value is not None]
            if len(defs) != 1:
                break
            e = defs[0].ast.value
            hops += 1
        # a lookup table instead of a branch chain: fold `TABLE.get(op, default)` / `TABLE[op]` for this operator
        if isinstance(e, ast.Call) and isinstance(e.func, ast.Attribute) and e.func.attr == "get" and e.args and q.dotted(e.args[0]) == self.op and isinstance(e.func.value, ast.Name):
            tbl = single_assignment(self.fi.node, e.func.value.id) or self.fi.module.assigns.get(e.func.value.id)
            dl = dict_literal(tbl) if tbl is not None else None
            if dl is not None:
                if v in dl:
                    return dl[v]
                return self.resolve_under(v, e.args[1], at) if len(e.args) > 1 else ast.Constant(value=None)
        return e

    def text_helpers(self):
        """Module-level helpers called from _parse that build a _Text node from their parameters:
        {helper name: (FuncInfo, [index of the helper parameter feeding each _Text.__init__ parameter])}."""
        if hasattr(self, "_th"):
            return self._th
        out = {}
        m = self.fi.module
        for c in q.calls(self.fi.node):
            if isinstance(c.func, ast.Name) and c.func.id in m.funcs and c.func.id != self.fi.name and c.func.id not in out:
                h = m.funcs[c.func.id]
                tcalls = [x for x in q.calls(h.node) if q.is_call(x, "_Text")]
                if not tcalls:
                    continue
                hp = h.params()
                if len(tcalls) != 1 or not all(isinstance(a, ast.Name) and a.id in hp for a in tcalls[0].args) or tcalls[0].keywords:
                    raise AnalysisError("%s builds a _Text node in a way that is not understood: %s" % (h.qualname, q.unparse(tcalls[0])))
                out[c.func.id] = (h, [hp.index(a.id) for a in tcalls[0].args])
        self._th = out
        return out

    def text_sites(self):
        """[(call node inside _parse, [value, line, whitespace] argument expressions in _Text.__init__ order)] for every
        place where _parse turns literal text into a node -- directly or through a helper (function splitting)."""
        out = []
        th = self.text_helpers()
        for c in q.calls(self.fi.node):
            if q.is_call(c, "_Text"):
                out.append((c, list(c.args), c))
            elif isinstance(c.func, ast.Name) and c.func.id in th:
                h, idxs = th[c.func.id]
                if c.keywords or any(i >= len(c.args) for i in idxs):
                    raise AnalysisError("_parse: call of %s not understood: %s" % (h.qualname, q.unparse(c)))
                out.append((c, [c.args[i] for i in idxs], c))
        return out

    def ctor_calls(self, v):
        """(cfg node, constructor call, class name) for node constructions reached under operator v."""
        out = []
        r = self.reach(v)
        for nid in sorted(r):
            n = self.cfg.nodes[nid]
            if n.kind != "stmt" or not self.in_dispatch(n):
                continue
            for x in q.walk_local(n.ast):
                if isinstance(x, ast.Call) and isinstance(x.func, ast.Name) and x.func.id in self.node_classes:
                    out.append((n, x, x.func.id))
        return out


def node_classes(ck):
    """Classes of template.py deriving (transitively) from _Node."""
    m = ck.repo.module(T)
    out = set()
    changed = True
    while changed:
        changed = False
        for name, c in m.classes.items():
            if name in out or "." in name:
                continue
            if any(q.dotted(b) == "_Node" or q.dotted(b) in out for b in c.bases):
                out.add(name)
                changed = True
    if len(out) < 10:
        raise AnalysisError("only %d _Node subclasses found" % len(out))
    return out


# --------------------------------------------------------------------------------------------
# R1 error discipline


def _module_callees(ck, fi):
    """Functions of template.py that ``fi`` calls (constructors -> __init__, methods by unique name)."""
    m = fi.module
    out = []
    by_name = {}
    for qn, f in m.funcs.items():
        by_name.setdefault(f.name, []).append(f)
    for c in q.calls(fi.node):
        tgt = []
        if isinstance(c.func, ast.Name):
            nm = c.func.id
            if nm in m.funcs:
                tgt = [m.funcs[nm]]
            elif nm in m.classes:
                tgt = _init_chain(m, nm)
        elif isinstance(c.func, ast.Attribute):
            cands = [f for f in by_name.get(c.func.attr, []) if f.cls is not None]
            recv = q.dotted(c.func.value) or ""
            # methods are resolved by name inside the module; receivers that are modules (re., escape.) are external
            if recv.split(".")[0] in _imported_modules(m):
                cands = []
            tgt = cands
        # subscription / len() on the reader object
        for f in tgt:
            out.append((c, f))
    return out


def _imported_modules(m):
    if not hasattr(m, "_imp"):
        s = set()
        for st in m.tree.body:
            if isinstance(st, ast.Import):
                for a in st.names:
                    s.add((a.asname or a.name).split(".")[0])
            elif isinstance(st, ast.ImportFrom):
                for a in st.names:
                    s.add(a.asname or a.name)
        m._imp = s
    return m._imp


def _init_chain(m, clsname):
    """__init__ of the class or of its first base (in this module) that defines one."""
    seen = set()
    cur = clsname
    while cur and cur not in seen:
        seen.add(cur)
        if cur + ".__init__" in m.funcs:
            return [m.funcs[cur + ".__init__"]]
        c = m.classes.get(cur)
        cur = None
        if c is not None:
            for b in c.bases:
                d = q.dotted(b)
                if d in m.classes:
                    cur = d
                    break
    return []


def _raise_class(r: ast.Raise):
    e = r.exc
    if e is None:
        return None  # re-raise
    if isinstance(e, ast.Call):
        e = e.func
    return q.dotted(e)


def _is_parse_error(ck, name):
    m = ck.repo.module(T)
    seen = set()
    while name and name not in seen:
        if name == "ParseError":
            return True
        seen.add(name)
        c = m.classes.get(name)
        name = None
        if c is not None and c.bases:
            name = q.dotted(c.bases[0])
    return False


def _dunder_targets(m, fi):
    """Special methods reached through syntax on the reader parameter (reader[i], len(reader), str(reader))."""
    out = []
    for n in q.walk_body(fi.node):
        if isinstance(n, ast.Subscript) and isinstance(n.value, ast.Name):
            out.append("__getitem__")
        elif isinstance(n, ast.Call) and isinstance(n.func, ast.Name) and n.func.id in ("len", "str") and n.args and isinstance(n.args[0], ast.Name):
            out.append("__%s__" % n.func.id)
    return sorted(set(out))


def accepted_literals(ck, helper, param):
    """For a helper whose foreign raise sits in the final else of a literal dispatch over ``param``: the
    literals for which the helper returns normally (walk per literal, tests folded)."""
    lits = set()
    for n in helper.cfg.stmt_nodes(lambda n: n.kind == "test"):
        if q.names_in(n.ast) == {param}:
            lits |= set(q.literal_strs(n.ast))
    ok = set()
    for v in lits:
        r = walk(helper.cfg, [(helper.cfg.entry.id, 0)], lambda n, val: val, decide=value_oracle(helper.node, param, v))
        reached_raise = any(helper.cfg.nodes[i].kind == "stmt" and isinstance(helper.cfg.nodes[i].ast, ast.Raise) for i in r)
        if helper.cfg.exit.id in r and not reached_raise:
            ok.add(v)
    return ok


def rule_raise_class(ck, px):
    rid = "C19.raise-class"
    m = px.fi.module
    closure = {}
    work = [px.fi, ck.func(T, "Template._get_ancestors")]
    for nm in _dunder_targets(m, px.fi):
        qn = "_TemplateReader." + nm
        if qn in m.funcs:
            work.append(m.funcs[qn])
    edges = {}
    while work:
        f = work.pop()
        if f.qualname in closure:
            continue
        closure[f.qualname] = f
        for c, callee in _module_callees(ck, f):
            edges.setdefault(callee.qualname, []).append((f, c))
            # loader/generation entry points are not part of parsing a template text
            if callee.qualname.startswith(("BaseLoader.", "Loader.", "DictLoader.", "Template.")) and callee.qualname != "Template._get_ancestors":
                continue
            if callee.name == "generate" or callee.name == "find_named_blocks" or callee.name == "each_child":
                continue
            work.append(callee)
    ck.floor(rid, len(closure), 12, "functions in the parser call closure")
    n_raise = 0
    for qn in sorted(closure):
        f = closure[qn]
        ck.use(f)
        for r in [n for n in q.walk_body(f.node) if isinstance(n, ast.Raise)]:
            n_raise += 1
            cls = _raise_class(r)
            if cls is None:
                pm = q.parent_map(f.node)
                inh = [a for a in q.ancestors(pm, r) if isinstance(a, ast.ExceptHandler)]
                ck.ob(rid, f, r, False if not inh else all(_is_parse_error(ck, x) for x in q.handler_names(inh[0])), "re-raise inside the parser must re-raise a ParseError")
                continue
            if _is_parse_error(ck, cls):
                ck.ob(rid, f, r, True, "raise in the parser call tree constructs ParseError")
                continue
            # a foreign exception class: accepted only if every call path from the parser is protected
            sites = edges.get(qn, [])
            if f is px.fi or not sites:
                ck.ob(rid, f, r, False, "raise in the parser call tree must be ParseError, found %s" % cls)
                continue
            for caller, call in sites:
                ok, why = _site_protected(ck, px, caller, call, f, r, cls)
                ck.ob(rid, caller, call, ok, "call of %s (raises %s for a malformed directive) must turn it into ParseError: handler around the call or a membership guard%s" % (f.qualname, cls, why))
    ck.floor(rid, n_raise, 3, "raise statements in the parser call closure")


def _site_protected(ck, px, caller, call, helper, r, cls):
    pm = q.parent_map(caller.node)
    h = q.protected_by(pm, call, cls)
    if h is not None:
        # the handler must end in a ParseError (no bare re-raise, no foreign raise, no fall-through value use)
        raises = [n for n in q.walk_local(h) if isinstance(n, ast.Raise)]
        calls_rpe = [c for c in q.calls(h) if isinstance(c.func, ast.Attribute) and c.func.attr == px.rpe.name]
        good = all(_raise_class(x) is not None and _is_parse_error(ck, _raise_class(x)) for x in raises) and (raises or calls_rpe)
        return bool(good), ": handler present" if good else ": handler does not raise ParseError"
    # membership guard: the helper rejects by a literal dispatch on one parameter; the call passes a name
    # known (must-fact) to be in a literal collection that the helper accepts
    params = helper.params()
    for i, a in enumerate(call.args):
        if i < len(params) and isinstance(a, ast.Name):
            acc = accepted_literals(ck, helper, params[i])
            if not acc:
                continue
            cfg = px.cfg if caller is px.fi else caller.cfg
            facts = must_facts(cfg)
            for node in cfg.nodes_for(call):
                for (t, pol) in facts[node.id]:
                    if not pol:
                        continue
                    try:
                        e = ast.parse(t, mode="eval").body
                    except SyntaxError:
                        continue
                    if isinstance(e, ast.Compare) and len(e.ops) == 1 and isinstance(e.ops[0], ast.In) and q.dotted(e.left) == a.id:
                        coll = const_collection(e.comparators[0])
                        if coll is not None and coll <= acc:
                            return True, ": guarded by %s" % t
                    if isinstance(e, ast.Compare) and len(e.ops) == 1 and isinstance(e.ops[0], ast.Eq) and q.dotted(e.left) == a.id and isinstance(e.comparators[0], ast.Constant) and e.comparators[0].value in acc:
                        return True, ": guarded by %s" % t
    return False, ""


# --------------------------------------------------------------------------------------------
# R2 error position


def _assigned_before_all(cfg, fn, name, stores):
    """the single assignment of ``name`` dominates every node in ``stores`` (its value was captured before them)"""
    defs = cfg.stmt_nodes(lambda n: n.kind == "stmt" and isinstance(n.ast, (ast.Assign, ast.AnnAssign)) and name in q.assigned_paths(n.ast))
    return len(defs) == 1 and all(cfg.dominates(defs[0], s_) for s_ in stores)


def rule_error_line(ck, px):
    rid = "C19.error-line"
    rpe = px.rpe
    pe_init = ck.func(T, "ParseError.__init__")
    pparams = [p for p in pe_init.params() if p != "self"]
    raises = [n for n in q.walk_body(rpe.node) if isinstance(n, ast.Raise)]
    ck.floor(rid, len(raises), 1, "raise in raise_parse_error")
    for r in raises:
        c = r.exc
        ok = isinstance(c, ast.Call) and _is_parse_error(ck, q.dotted(c.func) or "")
        bound = {}
        if ok:
            for i, a in enumerate(c.args):
                if i < len(pparams):
                    bound[pparams[i]] = a
            for k in c.keywords:
                bound[k.arg] = k.value
        ck.ob(rid, rpe, r, ok and q.dotted(bound.get("lineno")) == "self.line", "ParseError receives the reader's current line as lineno")
        ck.ob(rid, rpe, r, ok and q.dotted(bound.get("filename")) == "self.name", "ParseError receives the reader's template name as filename")
        msgp = [p for p in rpe.params() if p != "self"]
        ck.ob(rid, rpe, r, ok and msgp and q.dotted(bound.get(pparams[0])) == msgp[0], "ParseError receives the caller's message")
    for attr in ("lineno", "filename"):
        st = [s for s in q.stores_to(pe_init.node, "self." + attr) if isinstance(s, ast.Assign) and q.dotted(s.value) == attr]
        ck.ob(rid, pe_init, pe_init.node, len(st) == 1, "ParseError.__init__ stores its %s argument in self.%s" % (attr, attr), construct="self.%s = %s" % (attr, attr))
    # reader.line is advanced by the number of newlines in the consumed span, before pos moves
    cons = ck.func(T, "_TemplateReader.consume")
    cfg = cons.cfg

    def is_line_update(n):
        if n.kind != "stmt" or "self.line" not in q.assigned_paths(n.ast):
            return False
        v = getattr(n.ast, "value", None)
        if v is None:
            return False
        cnt = [c for c in q.calls(v) if isinstance(c.func, ast.Attribute) and c.func.attr == "count" and c.args and q.is_const(c.args[0], "\n")]
        if not cnt:
            return False
        if isinstance(n.ast, ast.AugAssign):
            return isinstance(n.ast.op, ast.Add)
        return any(q.dotted(x) == "self.line" for x in ast.walk(v))

    def gen(n):
        return [("@line", True)] if is_line_update(n) else []

    facts = must_facts(cfg, gen_node=gen, cond_facts=False)
    pos_stores = cfg.stmt_nodes(lambda n: n.kind == "stmt" and "self.pos" in q.assigned_paths(n.ast))
    ck.floor(rid, len(pos_stores), 1, "stores to self.pos in consume")
    direct = any(any(q.dotted(x) == "self.pos" for x in ast.walk(u.ast.value)) or any(isinstance(x, ast.Name) and single_assignment(cons.node, x.id) is not None and any(q.dotted(y) == "self.pos" for y in ast.walk(single_assignment(cons.node, x.id))) and not _assigned_before_all(cfg, cons.node, x.id, pos_stores) for x in ast.walk(u.ast.value)) for u in cfg.stmt_nodes(is_line_update))
    for n in pos_stores:
        if direct:
            ck.ob(rid, cons, n.ast, ("@line", True) in facts[n.id], "self.line is advanced by the newlines of the consumed span before self.pos moves")
        else:
            upd = cfg.stmt_nodes(is_line_update)
            ck.ob(rid, cons, n.ast, bool(upd) and all(cfg.postdominates(u, cfg.entry) for u in upd), "self.line is advanced by the newlines of the consumed span (bounds captured in locals before self.pos moves) on every path")
    for n in cfg.stmt_nodes(is_line_update):
        c = [c for c in q.calls(n.ast.value) if isinstance(c.func, ast.Attribute) and c.func.attr == "count"][0]
        fn = cons.node
        recv = xdotted(fn, c.func.value)
        newpos = [s_ for s_ in pos_stores if isinstance(s_.ast, ast.Assign)]
        want_hi = xunparse(fn, newpos[0].ast.value) if newpos else None
        if recv == "self.text":
            # bounds: exactly the consumed span [self.pos, <new position>)
            ok = len(c.args) == 3 and xdotted(fn, c.args[1]) == "self.pos" and xunparse(fn, c.args[2]) == want_hi
            ck.ob(rid, cons, c, ok, "newlines are counted in [self.pos, new position) of self.text")
        else:
            # counted on the consumed slice itself
            sl = alias_expand(fn, c.func.value)
            ok = isinstance(sl, ast.Subscript) and q.dotted(sl.value) == "self.text" and isinstance(sl.slice, ast.Slice) and q.dotted(sl.slice.lower) == "self.pos" and q.unparse(sl.slice.upper) == want_hi and len(c.args) == 1
            ck.ob(rid, cons, c, bool(ok), "newlines are counted on the consumed slice self.text[self.pos:new position]")
    # every parse error site in _parse goes through the reader (so that the line is the reader's)
    ck.ob(rid, px.fi, px.fi.node, not [n for n in q.walk_body(px.fi.node) if isinstance(n, ast.Raise)], "_parse reports errors only through reader.%s (no direct raise)" % rpe.name, construct="direct raise in _parse")


# --------------------------------------------------------------------------------------------
# R3..R8 dispatch rules


def rule_block_bound(ck, px):
    rid = "C19.block-bound"
    var_appends = [(n, c) for n, c in px.appends if isinstance(c.args[0], ast.Name) and px.in_dispatch(n)]
    ck.floor(rid, len(var_appends), 2, "appends of a node variable")
    cnt = 0
    for v in px.domain:
        for n, c in var_appends:
            var = c.args[0].id

            def transfer(node, val, var=var):
                if node.id == px.opnode.id:
                    return False
                if node.kind == "stmt" and var in q.assigned_paths(node.ast):
                    return True
                return val

            r = px.reach(v, transfer, False)
            if n.id in r:
                cnt += 1
                ck.ob(rid, px.fi, c, r[n.id] == {True}, "operator %r: %s is assigned in this iteration on every path to %s" % (v, var, q.unparse(c)),
                      construct="operator=%s %s" % (v, q.unparse(c)))
    ck.floor(rid, cnt, 12, "(operator, append) pairs")


def rule_unknown_operator(ck, px):
    rid = "C19.unknown-operator"
    r = px.reach(OTHER)
    escapes = []
    for nid in r:
        n = px.cfg.nodes[nid]
        if nid == px.opnode.id:
            continue
        if n.kind == "exit" or not px.in_dispatch(n) or any(n.id == a.id for a, _ in px.appends):
            escapes.append(n)
    ck.ob(rid, px.fi, px.opnode.ast, not escapes, "an operator outside every dispatch set ends in reader.%s on every path (no chunk appended, no return, no next iteration)" % px.rpe.name,
          construct="operator outside all dispatch sets")
    ck.floor(rid, len(r), 5, "nodes walked for the unknown operator")


def rule_intermediate_table(ck, px):
    rid = "C19.intermediate-table"
    tbl = {}
    for k, vnode in px.table.items():
        coll = const_collection(vnode)
        if coll is None:
            raise AnalysisError("intermediate table value for %r is not a literal collection" % (k,))
        tbl[k] = coll
    for k in sorted(set(PY_CLAUSES) | set(tbl)):
        ck.ob(rid, px.fi, px.table.get(k, px.fi.node), tbl.get(k) == PY_CLAUSES.get(k),
              "clause %r may continue exactly the Python statements %s (found %s)" % (k, sorted(PY_CLAUSES.get(k, ())), sorted(tbl.get(k, ()))),
              construct="intermediate %s -> %s" % (k, sorted(tbl.get(k, ()))))
    openers = block_openers(px)
    for k, parents in sorted(tbl.items()):
        for p in sorted(parents):
            ck.ob(rid, px.fi, px.table[k], p in openers, "parent %r of clause %r is an operator that opens a block (recursive _parse)" % (p, k), construct="parent %s of %s" % (p, k))
    # intermediate clauses are emitted with their keyword and need an enclosing allowed block
    facts = must_facts(px.cfg)
    n = 0
    for k in sorted(tbl):
        r = px.reach(k)
        for a, c in px.appends:
            if a.id in r and px.in_dispatch(a):
                n += 1
                f = facts[a.id]
                ck.ob(rid, px.fi, c, holds(f, px.in_block, True), "clause %r is accepted only inside a block (%s truthy)" % (k, px.in_block), construct="clause=%s needs block" % k)
                ck.ob(rid, px.fi, c, holds(f, "%s in %s" % (px.in_block, px.allowed), True), "clause %r is accepted only if the enclosing block is one of its allowed parents" % k, construct="clause=%s needs allowed parent" % k)
    ck.floor(rid, n, 4, "clause append sites")


def block_openers(px):
    out = set()
    for v in px.domain:
        r = px.reach(v)
        for nid in r:
            n = px.cfg.nodes[nid]
            if n.kind == "stmt" and px.in_dispatch(n) and any(isinstance(c.func, ast.Name) and c.func.id == px.fi.name for c in q.calls(n.ast)):
                out.add(v)
    return out


def rule_block_context(ck, px):
    rid = "C19.block-context"
    facts = must_facts(px.cfg)
    rets = px.cfg.stmt_nodes(lambda n: n.kind == "stmt" and isinstance(n.ast, ast.Return))
    ck.floor(rid, len(rets), 2, "returns in _parse")
    n_end = n_eof = 0
    for n in rets:
        if px.in_dispatch(n):
            n_end += 1
            ops = sorted(v for v in px.domain + [OTHER] if n.id in px.reach(v))
            ck.ob(rid, px.fi, n.ast, holds(facts[n.id], px.in_block, True), "a block-closing return (operators %s) requires an open block (%s truthy), else 'extra end' is an error" % (ops, px.in_block),
                  construct="return under operators %s" % ops)
        else:
            n_eof += 1
            ck.ob(rid, px.fi, n.ast, holds(facts[n.id], px.in_block, False), "the end-of-input return requires that no block is open (%s falsy), else 'missing end' is an error" % px.in_block,
                  construct="return at end of input")
    ck.floor(rid, n_end, 1, "block-closing returns")
    ck.floor(rid, n_eof, 1, "end-of-input returns")
    k = 0
    for v in sorted(PY_LOOP_CTRL):
        r = px.reach(v)
        for a, c in px.appends:
            if a.id in r and px.in_dispatch(a):
                k += 1
                ck.ob(rid, px.fi, c, holds(facts[a.id], px.in_loop, True), "%r is accepted only inside a loop of the same function scope (%s truthy)" % (v, px.in_loop), construct="operator=%s needs loop" % v)
    ck.floor(rid, k, 2, "break/continue append sites")


def _emits_def(ck, clsname):
    try:
        g = ck.repo.func(T, clsname + ".generate")
    except AnalysisError:
        return False
    return any(e.head.startswith("def ") for e in emissions(g.node))


def rule_recursion_scope(ck, px):
    rid = "C19.recursion-scope"
    params = px.fi.params()
    cnt = 0
    for v in px.domain:
        r = px.reach(v)
        classes = {cls for _, _, cls in px.ctor_calls(v)}
        new_scope = any(_emits_def(ck, c) for c in classes)
        for nid in sorted(r):
            n = px.cfg.nodes[nid]
            if n.kind != "stmt" or not px.in_dispatch(n):
                continue
            for c in q.calls(n.ast):
                if not (isinstance(c.func, ast.Name) and c.func.id == px.fi.name):
                    continue
                cnt += 1
                bound = {params[i]: a for i, a in enumerate(c.args) if i < len(params)}
                bound.update({k.arg: k.value for k in c.keywords})
                ck.ob(rid, px.fi, c, q.dotted(bound.get(px.reader)) == px.reader and q.dotted(bound.get(px.template)) == px.template, "operator %r: the recursion parses the same reader for the same template" % v, construct="operator=%s reader/template" % v)
                for k_ in list(bound):
                    bound[k_] = px.resolve_under(v, bound[k_], n)
                for k_ in (px.in_block, px.in_loop):
                    x_ = bound.get(k_)
                    if x_ is not None and not isinstance(x_, ast.Constant) and q.dotted(x_) not in (px.op, px.in_loop, px.in_block):
                        raise AnalysisError("_parse: argument %s of the recursive call is not resolved to the operator / loop marker / a constant: %s" % (k_, q.unparse(x_)))
                ib = bound.get(px.in_block)
                ck.ob(rid, px.fi, c, q.dotted(ib) == px.op or q.is_const(ib, v) if ib is not None else False, "operator %r: the nested body is parsed with the opening operator as its enclosing block" % v, construct="operator=%s in_block" % v)
                il = bound.get(px.in_loop)
                if v in PY_LOOPS:
                    ok = il is not None and (q.dotted(il) == px.op or (isinstance(il, ast.Constant) and bool(il.value)))
                    what = "operator %r is a Python loop: its body is parsed with the loop marker set" % v
                elif new_scope:
                    ok = il is None or (isinstance(il, ast.Constant) and not il.value)
                    what = "operator %r generates a nested function: its body is parsed outside any loop (break/continue cannot cross a def)" % v
                else:
                    ok = il is not None and q.dotted(il) == px.in_loop
                    what = "operator %r neither opens nor hides a loop: the enclosing loop marker is passed through" % v
                ck.ob(rid, px.fi, c, bool(ok), what, construct="operator=%s in_loop=%s" % (v, q.unparse(il) if il is not None else "<default>"))
    ck.floor(rid, cnt, 5, "(operator, recursive call) pairs")


def rule_statement_text(ck, px):
    rid = "C19.statement-text"
    suffix_like = tainted_names(px.fi, [px.suffix]) - {px.contents}
    cnt = 0
    for v in px.domain:
        for n, c, cls in px.ctor_calls(v):
            if not c.args:
                continue
            a = c.args[0]
            d = q.dotted(a)
            if d == px.contents:
                kind = "contents"
            elif d in suffix_like:
                kind = "suffix"
            else:
                continue  # not built from the directive text (e.g. _Text(start_brace, ...))
            cnt += 1
            if v in PY_KEYWORD_OPS:
                ck.ob(rid, px.fi, c, kind == "contents", "operator %r is also the Python keyword: the emitted statement keeps it (whole directive text)" % v, construct="operator=%s %s(%s...)" % (v, cls, kind))
            else:
                ck.ob(rid, px.fi, c, kind == "suffix", "operator %r is not Python syntax: only its operand reaches the generated code" % v, construct="operator=%s %s(%s...)" % (v, cls, kind))
    ck.floor(rid, cnt, 18, "(operator, constructor) pairs")


# --------------------------------------------------------------------------------------------
# R9 literal text and whitespace


def rule_text_fidelity(ck, px):
    rid = "C19.text-fidelity"
    rinit = ck.func(T, "_TemplateReader.__init__")
    tinit = ck.func(T, "_Text.__init__")
    tparams = [p for p in tinit.params() if p != "self"]
    # the reader attribute holding the current whitespace mode
    rp = [p for p in rinit.params() if p != "self"]
    ws_attr = None
    for st in q.walk_body(rinit.node):
        if isinstance(st, ast.Assign) and isinstance(st.value, ast.Name) and st.value.id in rp and "whitespace" in st.value.id:
            ws_attr = q.dotted(st.targets[0]).split(".", 1)[1]
    if ws_attr is None:
        raise AnalysisError("_TemplateReader.__init__ does not store a whitespace mode")
    ws_param = [p for p in tparams if "whitespace" in p]
    if not ws_param:
        raise AnalysisError("_Text.__init__ has no whitespace parameter")
    idx = tparams.index(ws_param[0])
    sites = px.text_sites()
    ck.floor(rid, len(sites), 3, "literal-text node constructions in _parse")
    mode_path = "%s.%s" % (px.reader, ws_attr)
    cfg_ = px.cfg

    _synced = set()

    def _changes_mode(n_):
        """the reader's mode may change here: a store to it, or a recursive parse of a nested body (directives inside)"""
        if n_.kind != "stmt":
            return False
        if mode_path in q.assigned_paths(n_.ast):
            return q.dotted(getattr(n_.ast, "value", None)) not in _synced
        return any(isinstance(c_.func, ast.Name) and c_.func.id == px.fi.name for c_ in q.calls(n_.ast))

    for c, targs, _ in sites:
        a = targs[idx] if idx < len(targs) else q.kwarg(c, ws_param[0])
        if a is not None and isinstance(a, ast.Name):
            # a local copy of the mode: it must have been (re)read from the reader since the mode could last change
            lv = a.id
            defs_ = cfg_.stmt_nodes(lambda n_: n_.kind == "stmt" and isinstance(n_.ast, (ast.Assign, ast.AnnAssign)) and lv in q.assigned_paths(n_.ast))
            stored_vals = {q.dotted(n_.ast.value) for n_ in cfg_.stmt_nodes(lambda n_: n_.kind == "stmt" and isinstance(n_.ast, ast.Assign) and mode_path in q.assigned_paths(n_.ast))} - {None}
            if not defs_ or not all(q.dotted(d_.ast.value) == mode_path or (mode_path in q.assigned_paths(d_.ast)) or q.dotted(d_.ast.value) in stored_vals for d_ in defs_):
                raise AnalysisError("_parse: whitespace mode passed to _Text comes from %s, whose definitions are not reads of %s" % (lv, mode_path))
            def_ids = {d_.id for d_ in defs_}
            _synced.clear()
            _synced.update({lv} | {q.dotted(d_.ast.value) for d_ in defs_ if q.dotted(d_.ast.value) in stored_vals})
            facts_ = must_facts(cfg_, gen_node=lambda n_: [("@fresh", True)] if n_.id in def_ids else [], kill_node=lambda n_, f_: f_[0] == "@fresh" and n_.id not in def_ids and _changes_mode(n_), cond_facts=False)
            for nd in cfg_.nodes_for(c):
                ck.ob(rid, px.fi, c, ("@fresh", True) in facts_[nd.id], "literal text is tagged with the whitespace mode in force where it was read: the local copy %s of %s is re-read after every nested parse / directive that may change it" % (lv, mode_path), construct="stale whitespace mode %s" % q.normalize_construct(c, q.local_names(px.fi.node)))
            continue
        ck.ob(rid, px.fi, c, a is not None and q.dotted(a) == mode_path, "literal text is tagged with the whitespace mode in force where it was read (%s)" % mode_path)
    # the whitespace directive changes the reader's mode
    stores = []
    for v in px.domain:
        r = px.reach(v)
        for nid in r:
            n = px.cfg.nodes[nid]
            if n.kind == "stmt" and px.in_dispatch(n) and ("%s.%s" % (px.reader, ws_attr)) in q.assigned_paths(n.ast):
                stores.append((v, n))
    ck.ob(rid, px.fi, px.fi.node, len(stores) >= 1 and {v for v, _ in stores} == {"whitespace"}, "exactly the whitespace directive updates %s.%s (found under %s)" % (px.reader, ws_attr, sorted({v for v, _ in stores})),
          construct="writers of reader whitespace mode: %s" % sorted({v for v, _ in stores}))

    # _Text.generate: repr() of the utf8-encoded, filtered value
    tg = ck.func(T, "_Text.generate")
    ems = emissions(tg.node)
    ck.floor(rid, len(ems), 1, "emissions in _Text.generate")
    for e in ems:
        ok = len(e.exprs) == 1 and e.convs == ["r"]
        ck.ob(rid, tg, e.call, ok, "literal text is emitted as a repr() literal (quotes, backslashes and non-ASCII survive)")
        if ok:
            x = e.exprs[0]
            okx = isinstance(x, ast.Call) and q.call_attr(x) == "utf8" and len(x.args) == 1 and isinstance(x.args[0], ast.Name)
            ck.ob(rid, tg, e.call, okx, "the literal is the utf8 encoding of the (filtered) text value")
            if okx:
                var = x.args[0].id
                for st in q.stores_to(tg.node, var):
                    v = st.value
                    good = q.dotted(v) == "self.value" or (isinstance(v, ast.Call) and q.call_attr(v) == "filter_whitespace" and len(v.args) == 2 and q.dotted(v.args[0]) == "self.whitespace" and q.dotted(v.args[1]) in (var, "self.value"))
                    ck.ob(rid, tg, st, bool(good), "the emitted text is self.value, changed only by filter_whitespace(self.whitespace, .)")
    # the filter runs unless the text is preformatted; only empty text is suppressed
    for e in ems:
        if not (len(e.exprs) == 1 and isinstance(e.exprs[0], ast.Call) and e.exprs[0].args and isinstance(e.exprs[0].args[0], ast.Name)):
            continue
        var = e.exprs[0].args[0].id
        fcalls = {n_.id for n_ in tg.cfg.stmt_nodes(lambda n_: n_.kind == "stmt" and isinstance(n_.ast, ast.Assign) and var in q.assigned_paths(n_.ast) and isinstance(n_.ast.value, ast.Call) and q.call_attr(n_.ast.value) == "filter_whitespace")}
        pre_t = "'<pre>' in %s" % var
        pre_src = "'<pre>' in self.value"  # the same test on the unfiltered source (value is self.value on that path)

        def tr(n_, val):
            return True if n_.id in fcalls else val

        def ed(n_, kind, val):
            return val

        seen = explore(tg.cfg, False, tr, lambda t: t in (pre_t, pre_src), follow_exc=False)
        for en in tg.cfg.nodes_for(e.call):
            for facts_, filtered in sorted(seen.get(en.id, ()), key=repr):
                pre_k = (pre_t, True) in facts_ or (pre_src, True) in facts_
                ck.ob(rid, tg, e.call, filtered or pre_k, "text is emitted filtered, except text containing '<pre>' (filtered=%s, pre-known=%s)" % (filtered, pre_k), construct="emit filtered=%s pre=%s" % (filtered, pre_k))
        # tests that decide whether the emission happens at all (one branch cannot reach it)
        cfg_ = tg.cfg
        em_nodes = {n_.id for n_ in cfg_.nodes_for(e.call)}

        def reach_from(nid):
            seen_, st_ = set(), [nid]
            while st_:
                x_ = st_.pop()
                if x_ in seen_:
                    continue
                seen_.add(x_)
                st_.extend(y_ for y_, k_ in cfg_.succ[x_] if k_ != "exc")
            return bool(seen_ & em_nodes)

        for t_ in cfg_.stmt_nodes(lambda n_: n_.kind == "test"):
            br = {k_: reach_from(y_) for y_, k_ in cfg_.succ[t_.id] if k_ in ("true", "false")}
            if len(br) == 2 and br["true"] != br["false"]:
                te = alias_expand(tg.node, t_.ast)
                truthy_emits = br["true"]
                txt = q.unparse(te)
                okt = None
                try:
                    outs_ = {v_: bool(q.fold(te, {var: v_})) == truthy_emits for v_ in ("", " ", "\n", "x")}
                    okt = outs_ == {"": False, " ": True, "\n": True, "x": True}
                except q.NotFoldable:
                    meths = [c_ for c_ in ast.walk(te) if isinstance(c_, ast.Call) and isinstance(c_.func, ast.Attribute) and c_.func.attr in STR_TRANSFORMS | {"isspace"} and var in q.names_in(c_)]
                    if not meths:
                        raise AnalysisError("_Text.generate: emission guard not understood: %s" % txt)
                    okt = False
                ck.ob(rid, tg, t_.ast, okt, "only empty text is suppressed (whitespace-only text is still output)")
    tinit_st = [s for s in q.stores_to(tinit.node, "self.whitespace")]
    ck.ob(rid, tinit, tinit.node, len(tinit_st) == 1 and q.dotted(tinit_st[0].value) == ws_param[0], "_Text stores the mode it was constructed with", construct="self.whitespace = %s" % ws_param[0])

    # filter_whitespace
    fw = ck.func(T, "filter_whitespace")
    fp = fw.params()
    if len(fp) != 2:
        raise AnalysisError("filter_whitespace signature changed")
    mode, text = fp
    acc = accepted_literals(ck, fw, mode)
    ck.floor(rid, len(acc), 3, "accepted whitespace modes")
    ws_chars = [chr(i) for i in range(0, 0x250)] + [" ", "　", "€"]
    for v in sorted(acc):
        ops = ws_pipeline(ck, fw, mode, text, v)
        if ops is None:
            continue
        if v == "all":
            ck.ob(rid, fw, fw.node, not ops, "mode 'all' returns the text argument unmodified%s" % ("" if not ops else " (applies %s)" % [o[0] if o[0] == "method" else o[1] for o in ops]), construct="mode=all identity")
            continue
        if any(o[0] == "method" for o in ops):
            raise AnalysisError("filter_whitespace(%r): string method %s in the filter pipeline is not modelled" % (v, [o[1] for o in ops if o[0] == "method"]))
        ck.ob(rid, fw, fw.node, len(ops) >= 1, "mode %r filters by regular-expression substitution" % v, construct="mode=%s filters" % v)
        for _k, pat, flags, rep, c in ops:
            tree = x_sre.parse(pat, flags)
            w = x_sre.every_atom(tree, lambda ch: ch.isspace(), ws_chars, dotall=bool(flags & 16))
            ck.ob(rid, fw, c, w is None, "mode %r: the pattern %r matches whitespace only%s" % (v, pat, "" if w is None else " (can match %r)" % w))
            ck.ob(rid, fw, c, len(rep) == 1 and rep.isspace(), "mode %r: a whitespace run is replaced by a single whitespace character" % v, construct="mode=%s replacement %r" % (v, rep))
    rule_ws_runs(ck, fw, mode, text, acc)


WS_ALPHABET = [" ", "\t", "\n", "\r", "\f", "\v", "\x85", "\xa0"]  # representatives of every class the \s / blank / newline atoms distinguish
WS_MAXLEN = 4


STR_TRANSFORMS = {"strip", "lstrip", "rstrip", "lower", "upper", "replace", "expandtabs", "title", "swapcase", "casefold", "translate", "capitalize", "removeprefix", "removesuffix"}


def _expr_ops(fw, e, env):
    """Substitution pipeline denoted by expression ``e`` relative to the function's text argument: a list of
    ('sub', pattern, flags, replacement, call) / ('method', name, call); None when ``e`` does not involve the text."""
    m = fw.module
    if isinstance(e, ast.Name):
        return env.get(e.id)
    if not isinstance(e, ast.Call):
        if any(isinstance(x, ast.Name) and x.id in env for x in ast.walk(e)):
            raise AnalysisError("filter_whitespace: expression on the text not understood: %s" % q.unparse(e))
        return None
    subject = rep = None
    pf = None
    if q.is_call(e, "re.sub") and len(e.args) >= 3:
        if len(e.args) > 3 or q.kwarg(e, "count"):
            raise AnalysisError("filter_whitespace: substitution with a count is not modelled")
        pf = (x_sre.pattern_constant(e.args[0], module=m), x_sre.flag_value(q.kwarg(e, "flags")))
        rep, subject = e.args[1], e.args[2]
    elif isinstance(e.func, ast.Attribute) and e.func.attr == "sub" and x_sre.compiled_constant(m, e.func.value) is not None and len(e.args) == 2:
        pf = x_sre.compiled_constant(m, e.func.value)
        rep, subject = e.args[0], e.args[1]
    elif isinstance(e.func, ast.Attribute) and e.func.attr in STR_TRANSFORMS:
        base = _expr_ops(fw, e.func.value, env)
        if base is None:
            return None
        return base + [("method", e.func.attr, e)]
    else:
        if any(isinstance(x, ast.Name) and x.id in env for x in ast.walk(e)):
            raise AnalysisError("filter_whitespace: call on the text not understood: %s" % q.unparse(e))
        return None
    base = _expr_ops(fw, subject, env)
    if base is None:
        raise AnalysisError("filter_whitespace: substitution over something that is not the text: %s" % q.unparse(e))
    if isinstance(rep, ast.Name) and rep.id in m.assigns:
        rep = m.assigns[rep.id]
    if not (isinstance(rep, ast.Constant) and isinstance(rep.value, str)) or "\\" in rep.value:
        raise AnalysisError("filter_whitespace: replacement is not a plain string constant: %s" % q.unparse(rep))
    return base + [("sub", pf[0], pf[1], rep.value, e)]


def ws_pipeline(ck, fw, mode, text, v):
    """The sequence of substitutions that filter_whitespace applies to its text argument for mode ``v`` (tests
    on the mode folded, locals followed).  None if the mode is rejected.  Anything not understood -> AnalysisError."""
    cfg = fw.cfg
    decide = value_oracle(fw.node, mode, v)
    env = {text: []}
    n = cfg.entry
    steps = 0
    while True:
        steps += 1
        if steps > 300:
            raise AnalysisError("filter_whitespace(%r): path does not terminate" % v)
        if n.kind == "exit":
            raise AnalysisError("filter_whitespace(%r) falls off the end" % v)
        nxt = [(cfg.nodes[i], k) for i, k in cfg.succ[n.id] if k != "exc"]
        if n.kind == "test":
            d = decide(n)
            if d is None:
                raise AnalysisError("filter_whitespace(%r): test %s is not decided by the mode" % (v, q.unparse(n.ast)))
            nxt = [(x, k) for x, k in nxt if k == ("true" if d else "false")]
        elif n.kind == "stmt":
            st = n.ast
            if isinstance(st, ast.Return):
                ops = _expr_ops(fw, st.value, env) if st.value is not None else None
                if ops is None:
                    raise AnalysisError("filter_whitespace(%r): returned value is not derived from the text: %s" % (v, q.unparse(st)))
                return ops
            if isinstance(st, ast.Raise):
                return None
            if isinstance(st, (ast.Assign, ast.AnnAssign)) and st.value is not None:
                tg = st.targets if isinstance(st, ast.Assign) else [st.target]
                if len(tg) == 1 and isinstance(tg[0], ast.Name):
                    ops = _expr_ops(fw, st.value, env)
                    if ops is None:
                        env.pop(tg[0].id, None)
                    else:
                        env[tg[0].id] = ops
                elif any(isinstance(x, ast.Name) and x.id in env for x in ast.walk(st)):
                    raise AnalysisError("filter_whitespace(%r): statement on the text not understood: %s" % (v, q.unparse(st)))
            elif any(isinstance(x, ast.Name) and x.id in env for x in ast.walk(st)) and not isinstance(st, (ast.Expr,)):
                raise AnalysisError("filter_whitespace(%r): statement on the text not understood: %s" % (v, q.unparse(st)))
        if len(nxt) != 1:
            raise AnalysisError("filter_whitespace(%r): control flow not straight-line at %r" % (v, n))
        n = nxt[0][0]


def rule_ws_runs(ck, fw, mode, text, acc):
    """Because every pattern matches whitespace only and has no anchors/look-around, the filter acts on each
    maximal whitespace run independently of its surroundings; its behaviour is therefore decided by its action
    on whitespace runs.  The extracted substitution pipeline is evaluated (regex semantics: stdlib ``re``; the
    analysed code is not executed) on *every* run of up to WS_MAXLEN characters over class representatives and
    compared with what the documented modes define."""
    import itertools
    import re as _re

    rid = "C19.ws-runs"
    runs = ["".join(t) for k in range(1, WS_MAXLEN + 1) for t in itertools.product(WS_ALPHABET, repeat=k)]
    for v in sorted(acc):
        ops = ws_pipeline(ck, fw, mode, text, v)
        if ops is None:
            continue
        if any(o[0] == "method" for o in ops):
            if v == "all":
                continue  # reported by the identity obligation
            raise AnalysisError("filter_whitespace(%r): string method in the filter pipeline is not modelled" % v)
        ops = [(o[1], o[2], o[3]) for o in ops]
        for pat, flags, rep in ops:
            tree = x_sre.parse(pat, flags)
            zero_width = [op for op, av in _all_items(tree) if op in (x_sre._OP["AT"], x_sre._OP["ASSERT"], x_sre._OP["ASSERT_NOT"], x_sre._OP["GROUPREF"])]
            if zero_width:
                raise AnalysisError("filter_whitespace(%r): pattern %r uses anchors/look-around; run-independence does not hold" % (v, pat))
        comp = [(_re.compile(pat, flags), rep) for pat, flags, rep in ops]

        def apply(w):
            # the run embedded between non-whitespace characters
            s = "x" + w + "x"
            for rx_, rep in comp:
                s = rx_.sub(rep, s)
            return s[1:-1] if s.startswith("x") and s.endswith("x") else None

        bad = {}
        for w in runs:
            out = apply(w)
            why = None
            if out is None:
                why = "touches the neighbouring text"
            elif v == "all":
                if out != w:
                    why = "is changed"
            elif v == "oneline":
                if out != " ":
                    why = "does not become one space"
            elif v == "single":
                if "\n" in w:
                    if out != "\n":
                        why = "contains a newline but does not become exactly one newline"
                else:
                    if not out or "\n" in out or len(out) > len(w) or any(a in " \t" and b in " \t" for a, b in zip(out, out[1:])) or any(not ch.isspace() for ch in out):
                        why = "without newline: must stay non-empty whitespace without adjacent blanks and without a newline"
            else:
                continue
            if why and why not in bad:
                bad[why] = (w, out)
        if v not in ("all", "oneline", "single"):
            ck.note("whitespace mode %r has no documented reference semantics; only the whitespace-only rule applies" % v)
            continue
        ck.ob(rid, fw, fw.node, not bad, "mode %r over all %d whitespace runs of length <= %d: %s" % (v, len(runs), WS_MAXLEN, "every run is filtered as documented" if not bad else "; ".join("run %r -> %r %s" % (w, o, y) for y, (w, o) in bad.items())),
              construct="mode=%s runs" % v)


def _all_items(seq):
    for op, av in seq:
        yield op, av
        ch = x_sre.children(op, av) if op not in (x_sre._OP["GROUPREF"],) else []
        for sub in ch or []:
            yield from _all_items(sub)


# --------------------------------------------------------------------------------------------
# R15 one node per literal-text fragment


def rule_text_nodes(ck, px):
    """Whitespace filtering and the '<pre>' test are applied per _Text node at generation time, so each run of literal
    text between two directives must become its own node: appending a fragment to the text of an existing node merges
    text across a directive (comment, autoescape, whitespace ...) and changes what is filtered."""
    rid = "C19.text-nodes"
    tinit = ck.func(T, "_Text.__init__")
    tparams = [p for p in tinit.params() if p != "self"]
    val_attr = None
    for st in q.walk_body(tinit.node):
        if isinstance(st, ast.Assign) and q.dotted(st.value) == tparams[0] and (q.dotted(st.targets[0]) or "").startswith("self."):
            val_attr = q.dotted(st.targets[0]).split(".", 1)[1]
    if val_attr is None:
        raise AnalysisError("_Text.__init__ does not store its text")
    sites = px.text_sites()
    ck.floor(rid, len(sites), 3, "literal-text node constructions in _parse")
    funcs = [(px.fi, None)] + [(h, idxs) for h, idxs in px.text_helpers().values()]
    merges = {}
    for f, idxs in funcs:
        ck.use(f)
        if idxs is None:
            srcs = set()
            for c, targs, _ in sites:
                srcs |= q.names_in(targs[0]) if targs else set()
            tainted = srcs
        else:
            tainted = tainted_names(f, [f.params()[idxs[0]]])
        found = []
        for st in q.walk_body(f.node):
            tgt = None
            if isinstance(st, ast.AugAssign):
                tgt, rhs = st.target, st.value
            elif isinstance(st, ast.Assign) and len(st.targets) == 1:
                tgt, rhs = st.targets[0], st.value
            if tgt is not None and isinstance(tgt, ast.Attribute) and tgt.attr == val_attr and q.dotted(tgt.value) != "self" and (q.names_in(rhs) & tainted):
                found.append(st)
        merges[f.qualname] = found
        for st in found:
            ck.ob(rid, f, st, False, "a literal-text fragment is stored into the text of an existing node (%s): text on both sides of a directive is then filtered as one string" % q.unparse(st.targets[0] if isinstance(st, ast.Assign) else st.target))
    for c, targs, _ in sites:
        owner = c.func.id if isinstance(c.func, ast.Name) and c.func.id in px.text_helpers() else None
        fq = px.text_helpers()[owner][0].qualname if owner else px.fi.qualname
        if not merges.get(fq):
            ck.ob(rid, px.fi, c, True, "this text fragment becomes a node of its own (one _Text per fragment between directives)")
    # and every such node is appended to the body being built (not dropped, not inserted elsewhere)
    for f, idxs in funcs:
        for x in q.calls(f.node):
            if q.is_call(x, "_Text"):
                pm = q.parent_map(f.node)
                par = pm.get(x)
                ok = isinstance(par, ast.Call) and isinstance(par.func, ast.Attribute) and par.func.attr == "append" and (q.dotted(par.func.value) or "").endswith(".chunks")
                if not ok and isinstance(par, ast.Assign):
                    nm = q.dotted(par.targets[0])
                    ok = any(isinstance(y, ast.Call) and isinstance(y.func, ast.Attribute) and y.func.attr == "append" and (q.dotted(y.func.value) or "").endswith(".chunks") and y.args and q.dotted(y.args[0]) == nm for y in q.calls(f.node))
                if not ok:
                    raise AnalysisError("%s: what happens to the new _Text node is not understood" % f.qualname)
                ck.ob(rid, f, x, True, "the new text node is appended to the chunk list")


# --------------------------------------------------------------------------------------------
# R14 scanner: delimiters, escapes, what text is consumed


def rule_scanner(ck, px):
    rid = "C19.scanner"
    fi, cfg, rd = px.fi, px.cfg, px.reader
    # the opener: two characters consumed after the literal text
    sb = None
    for n in cfg.stmt_nodes(lambda n: n.kind == "stmt" and isinstance(n.ast, ast.Assign)):
        v = n.ast.value
        if q.is_call(v, rd + ".consume") and len(v.args) == 1 and q.is_const(v.args[0], 2) and isinstance(n.ast.targets[0], ast.Name):
            sb = (n.ast.targets[0].id, n)
    if sb is None:
        raise AnalysisError("_parse: two-character opener (reader.consume(2)) not found")
    sbv, sbn = sb
    # opener second characters admitted by the scan loop (in _parse, or in a helper the reader is handed to)
    second = None
    scan_sites = [(fi, cfg, rd, True)]
    for c_ in q.calls(fi.node):
        if isinstance(c_.func, ast.Name) and c_.func.id in fi.module.funcs and c_.func.id != fi.name:
            h_ = fi.module.funcs[c_.func.id]
            for i_, a_ in enumerate(c_.args):
                if q.dotted(a_) == rd and i_ < len(h_.params()):
                    scan_sites.append((ck.use(h_), h_.cfg, h_.params()[i_], False))
    for f_, cfg_, rd_, own in scan_sites:
        for t in cfg_.stmt_nodes(lambda n: n.kind == "test"):
            e = t.ast
            if isinstance(e, ast.Compare) and len(e.ops) == 1 and isinstance(e.ops[0], (ast.In, ast.NotIn)) and isinstance(e.left, ast.Subscript) and q.dotted(e.left.value) == rd_ and (not own or not cfg_.dominates(sbn, t)):
                coll = const_collection(e.comparators[0])
                if coll is not None and all(isinstance(c, str) and len(c) == 1 for c in coll):
                    second = coll
    if second is None:
        raise AnalysisError("_parse: the set of characters that may follow '{' was not found")
    openers = {"{" + c for c in second}
    # per opener: the closer searched for is the mirror image, a missing closer is an error, exactly the
    # closer is skipped
    handled = {}
    for t in cfg.stmt_nodes(lambda n: n.kind == "test"):
        e = t.ast
        if isinstance(e, ast.Compare) and len(e.ops) == 1 and isinstance(e.ops[0], ast.Eq) and q.dotted(e.left) == sbv and isinstance(e.comparators[0], ast.Constant):
            handled[e.comparators[0].value] = (e, True)
    asserts = [n.ast for n in cfg.stmt_nodes(lambda n: n.kind == "stmt" and isinstance(n.ast, ast.Assert)) if isinstance(n.ast.test, ast.Compare) and q.dotted(n.ast.test.left) == sbv and isinstance(n.ast.test.comparators[0], ast.Constant)]
    finds = [(n, c) for n, c in cfg.find(lambda x: q.is_call(x, rd + ".find") and len(x.args) == 1 and isinstance(x.args[0], ast.Constant) and isinstance(x.args[0].value, str) and x.args[0].value.endswith("}") and len(x.args[0].value) == 2)]
    ck.floor(rid, len(finds), 3, "closing-delimiter searches")
    seen_open = set()
    for n, c in finds:
        closer = c.args[0].value
        # which opener is this branch for?
        ops = [o for o, (e, _) in handled.items() if branch_flag(cfg, q.unparse(e), True, [sbv]).get(n.id, False)]
        if not ops:
            rest = openers - set(handled)
            neg = all(branch_flag(cfg, q.unparse(e), False, [sbv]).get(n.id, False) for o, (e, _) in handled.items())
            ops = sorted(rest) if neg and len(rest) == 1 else []
        if len(ops) != 1:
            raise AnalysisError("_parse: cannot tell for which opener %r is searched" % closer)
        op = ops[0]
        seen_open.add(op)
        mirror = {"{": "}", "(": ")", "[": "]", "<": ">"}.get(op[1], op[1]) + "}"
        ck.ob(rid, fi, c, closer == mirror, "a tag opened with %r is closed by its mirror image %r (searched: %r)" % (op, mirror, closer), construct="opener %s closer %s" % (op, closer))
        endv = None
        if isinstance(n.ast, ast.Assign) and isinstance(n.ast.targets[0], ast.Name):
            endv = n.ast.targets[0].id
        if endv is None:
            raise AnalysisError("_parse: result of the closer search is not bound to a name")
        # missing closer -> error; content consumed up to the closer; closer skipped with its own length
        after = [x for x in cfg.stmt_nodes(lambda x: x.kind == "stmt") if cfg.dominates(n, x)]
        found = branch_flag(cfg, "%s == -1" % endv, False, [endv])
        cons_content = [x for x in after if isinstance(x.ast, (ast.Assign, ast.Expr)) and any(q.is_call(cc, rd + ".consume") and len(cc.args) == 1 and q.dotted(cc.args[0]) == endv for cc in q.calls(x.ast))]
        mine = [x for x in cons_content if not any(cfg.dominates(n2, x) and n2.id != n.id and cfg.dominates(n, n2) for n2, _ in finds)]
        ck.ob(rid, fi, c, len(mine) == 1 and found.get(mine[0].id, False), "the tag body is consumed exactly up to the closer, and only when a closer was found (no closer is a parse error)", construct="opener %s body" % op)
        if mine:
            skip = [x for x in after if cfg.dominates(mine[0], x) and x.id != mine[0].id and isinstance(x.ast, ast.Expr) and q.is_call(x.ast.value, rd + ".consume")]
            skip = [x for x in skip if not any(cfg.dominates(o, x) and o.id != mine[0].id for o in cons_content if o.id != mine[0].id)]
            okk = bool(skip) and len(skip[0].ast.value.args) == 1 and q.is_const(skip[0].ast.value.args[0], len(closer))
            ck.ob(rid, fi, skip[0].ast if skip else c, okk, "after the body exactly the %d characters of the closer are skipped" % len(closer), construct="opener %s skip closer" % op)
    ck.ob(rid, fi, fi.node, seen_open == openers, "every opener the scan loop stops at (%s) has a branch that looks for its closer (handled: %s)" % (sorted(openers), sorted(seen_open)), construct="openers %s handled %s" % (sorted(openers), sorted(seen_open)))
    # escape "{{!" "{%!" "{#!": emit the two opener characters, drop the '!', parse nothing
    esc_tests = [t for t in cfg.stmt_nodes(lambda n: n.kind == "test") if isinstance(t.ast, ast.Compare) and len(t.ast.ops) == 1 and isinstance(t.ast.ops[0], ast.Eq) and q.is_const(t.ast.comparators[0], "!") and isinstance(t.ast.left, ast.Subscript) and q.dotted(t.ast.left.value) == rd]
    ck.ob(rid, fi, fi.node, len(esc_tests) == 1 and q.is_const(esc_tests[0].ast.left.slice, 0) and cfg.dominates(sbn, esc_tests[0]), "the character right after the opener is tested for the escape mark '!'", construct="escape test")
    if len(esc_tests) == 1:
        et = esc_tests[0]
        inesc = branch_flag(cfg, q.unparse(et.ast), True, [])
        nodes = [x for x in cfg.stmt_nodes(lambda x: x.kind == "stmt") if inesc.get(x.id, False) and cfg.dominates(et, x) and not px.in_dispatch(x)]
        # restrict to the escape branch proper: up to its `continue`
        branch = []
        for x in sorted(nodes, key=lambda x: x.id):
            branch.append(x)
            if isinstance(x.ast, ast.Continue):
                break
        drops = [x for x in branch if isinstance(x.ast, ast.Expr) and q.is_call(x.ast.value, rd + ".consume") and len(x.ast.value.args) == 1 and q.is_const(x.ast.value.args[0], 1)]
        other_cons = [x for x in branch if x not in drops and any(q.is_call(cc, rd + ".consume") for cc in q.calls(x.ast))]
        ck.ob(rid, fi, et.ast, len(drops) == 1 and not other_cons, "an escaped opener consumes exactly the one '!' character and nothing else", construct="escape consumes")
        tsites = px.text_sites()
        texts = [targs for x in branch for cc in q.calls(x.ast) for (c_, targs, _) in tsites if c_ is cc]
        ck.ob(rid, fi, et.ast, len(texts) == 1 and texts[0] and q.dotted(texts[0][0]) == sbv, "an escaped opener is emitted as its two literal characters", construct="escape emits opener")
        ck.ob(rid, fi, et.ast, bool(branch) and isinstance(branch[-1].ast, ast.Continue), "and scanning resumes after it (the tag is not parsed)", construct="escape continues")
    # literal text: what is emitted as text is what the reader consumed (no trimming)
    for c, targs, _ in px.text_sites():
        a = targs[0] if targs else None
        src = a
        if isinstance(a, ast.Name):
            src = single_assignment(fi.node, a.id) or a
        ok = q.is_call(src, rd + ".consume") or q.dotted(src) == sbv
        ck.ob(rid, fi, c, bool(ok), "literal text nodes carry exactly what reader.consume() returned")


# --------------------------------------------------------------------------------------------
# R10/R11 generated program structure


def _with_indent(fi, writer):
    return [n for n in q.walk_body(fi.node) if isinstance(n, ast.With) and any(isinstance(it.context_expr, ast.Call) and q.dotted(it.context_expr.func) == writer + ".indent" for it in n.items)]


def _inside(node, container):
    return any(x is node for x in ast.walk(container))


def _writer_param(fi):
    ps = [p for p in fi.params() if p != "self"]
    if not ps:
        raise AnalysisError("%s has no writer parameter" % fi.qualname)
    return ps[0]


def rule_gen_structure(ck, px):
    rid = "C19.gen-structure"
    alias_names = set()
    buffer_alias = None
    n_blocks = 0
    for cls in sorted(px.node_classes):
        if not ck.repo.has_func(T, cls + ".generate"):
            continue
        g = ck.func(T, cls + ".generate")
        w = _writer_param(g)
        ems = emissions(g.node, receiver=w)
        if not ems:
            continue
        cfg = g.cfg
        heads = [e for e in ems if e.template.rstrip().endswith(":")]
        body_calls = [c for c in q.calls(g.node) if isinstance(c.func, ast.Attribute) and c.func.attr == "generate" and q.dotted(c.func.value) == "self.body" and len(c.args) == 1 and q.dotted(c.args[0]) == w]
        # emitted expression statements that call the append alias
        for e in ems:
            if e.template.rstrip().endswith(":") or e.template.strip() in ("pass",) or e.template.strip() == PH:
                continue
            try:
                st = e.python()
            except AnalysisError:
                continue
            if isinstance(st, ast.Expr) and isinstance(st.value, ast.Call) and isinstance(st.value.func, ast.Name):
                alias_names.add((cls, st.value.func.id))
        if not heads:
            continue
        explicit_indent = [e for e in heads if len(e.call.args) >= 3 or q.kwarg(e.call, "indent") is not None]
        if body_calls:
            n_blocks += 1
            withs = _with_indent(g, w)
            for bc in body_calls:
                encl = [x for x in withs if _inside(bc, x)]
                ck.ob(rid, g, bc, len(encl) == 1, "the nested body is generated inside `with %s.indent()`" % w)
                if not encl:
                    continue
                wi = encl[0]
                # header is emitted (once) before the indented suite
                hd = heads[0]
                hn = cfg.nodes_for(hd.call)
                wn = [n for n in cfg.nodes if n.kind == "with" and n.ast is wi]
                ok = bool(hn and wn) and all(cfg.dominates(hn[0], x) for x in wn) and not _inside(hd.call, wi)
                ck.ob(rid, g, hd.call, ok, "the block header %r is emitted before, and outside, the indented suite" % hd.template.replace(PH, "{}"))
                bn = cfg.nodes_for(bc)
                is_def = hd.head.startswith("def ")
                if not is_def:
                    # an empty suite needs `pass`
                    ps = [e for e in ems if e.template.strip() == "pass" and _inside(e.call, wi)]
                    okp = bool(ps) and any(all(cfg.postdominates(pn, b) for b in bn) for pn in cfg.nodes_for(ps[0].call)) if ps else False
                    ck.ob(rid, g, bc, bool(okp), "a `pass` line follows the nested body inside the suite (empty bodies stay valid Python)")
                else:
                    inner = [e for e in ems if _inside(e.call, wi)]
                    pro = []
                    for e in inner:
                        st = e.python()
                        if isinstance(st, ast.Assign) and all(cfg.dominates(x, b) for x in cfg.nodes_for(e.call) for b in bn):
                            pro.append(st)
                    bufs = [st.targets[0].id for st in pro if isinstance(st.value, ast.List) and not st.value.elts and isinstance(st.targets[0], ast.Name)]
                    ck.ob(rid, g, bc, len(bufs) == 1, "the generated function starts with a fresh empty output buffer before its body")
                    if len(bufs) == 1:
                        al = [st.targets[0].id for st in pro if isinstance(st.value, ast.Attribute) and st.value.attr == "append" and q.dotted(st.value.value) == bufs[0]]
                        ck.ob(rid, g, bc, len(al) == 1, "the append alias of the generated function is bound to that buffer's append")
                        if al:
                            alias_names.add((cls + " (prologue)", al[0]))
                            buffer_alias = buffer_alias or al[0]
                        rets = [e for e in inner if isinstance(e.python(), ast.Return)]
                        okr = False
                        if rets:
                            rv = rets[0].python().value
                            joins = [c for c in ast.walk(rv) if isinstance(c, ast.Call) and isinstance(c.func, ast.Attribute) and c.func.attr == "join" and len(c.args) == 1 and q.dotted(c.args[0]) == bufs[0]]
                            okr = bool(joins) and all(cfg.postdominates(rn, b) for rn in cfg.nodes_for(rets[0].call) for b in bn)
                        ck.ob(rid, g, bc, okr, "the generated function ends by returning the joined buffer after its body")
                    # def name and later call agree
                    if hd.exprs:
                        fname = q.unparse(hd.exprs[0])
                        after = [e for e in ems if not _inside(e.call, wi) and e is not hd]
                        if after:
                            used = any(any(q.unparse(x) == fname for x in e.exprs) for e in after)
                            ck.ob(rid, g, after[0].call, used, "the generated helper function is the one that is called afterwards (%s)" % fname)
                            for e in after:
                                st = e.python()
                                okc = isinstance(st, ast.Expr) and isinstance(st.value, ast.Call)
                                ck.ob(rid, g, e.call, okc, "the applied block's result is appended to the enclosing output")
        elif explicit_indent:
            n_blocks += 1
            # a clause header of an enclosing compound statement: one level out, after a `pass`
            for e in explicit_indent:
                ind = alias_expand(g.node, e.call.args[2] if len(e.call.args) >= 3 else q.kwarg(e.call, "indent"))
                oki = isinstance(ind, ast.BinOp) and isinstance(ind.op, ast.Sub) and q.is_const(ind.right, 1) and isinstance(ind.left, ast.Call) and q.dotted(ind.left.func) == w + ".indent_size"
                ck.ob(rid, g, e.call, bool(oki), "an intermediate clause header is emitted one indentation level outside the current suite")
                ps = [x for x in ems if x.template.strip() == "pass"]
                okp = bool(ps) and all(cfg.dominates(pn, hn) for pn in cfg.nodes_for(ps[0].call) for hn in cfg.nodes_for(e.call))
                ck.ob(rid, g, e.call, bool(okp), "a `pass` line precedes an intermediate clause header (the previous suite may be empty)")
        else:
            ck.ob(rid, g, heads[0].call, False, "a block header is emitted without an indented body or an explicit outer indentation")
    ck.floor(rid, n_blocks, 4, "block-emitting generate() methods")
    # one append alias across all emitters
    names = {nm for _, nm in alias_names}
    ck.ob(rid, None, ck.repo.cls(T, "_Node"), len(names) == 1 and buffer_alias in names, "every emitter appends through the alias bound in the function prologue (found %s)" % sorted(alias_names), construct="append alias names %s" % sorted(names), file=T)
    ck.floor(rid, len(alias_names), 4, "emitters using the append alias")

    # sequences and leaves: every chunk is generated, in order; nodes emit the text they were built with
    clg = ck.func(T, "_ChunkList.generate")
    cw_ = _writer_param(clg)
    loops = [n for n in q.walk_body(clg.node) if isinstance(n, ast.For)]
    okc = False
    if len(loops) == 1 and (isinstance(loops[0].target, ast.Name) or (isinstance(loops[0].target, ast.Tuple) and isinstance(loops[0].target.elts[-1], ast.Name))):
        order = iter_order(loops[0].iter, "self.chunks")
        if order is None:
            raise AnalysisError("_ChunkList.generate: iteration over the chunks not understood: %s" % q.unparse(loops[0].iter))
        tv = loops[0].target.id if isinstance(loops[0].target, ast.Name) else loops[0].target.elts[-1].id
        calls_ = [c for c in q.calls(loops[0]) if isinstance(c.func, ast.Attribute) and c.func.attr == "generate" and q.dotted(c.func.value) == tv and len(c.args) == 1 and q.dotted(c.args[0]) == cw_]
        okc = order == "forward" and len(calls_) == 1 and not any(isinstance(x, (ast.If, ast.Continue, ast.Break)) for x in ast.walk(loops[0]))
    elif loops:
        raise AnalysisError("_ChunkList.generate: loop shape not understood")
    ck.ob(rid, clg, loops[0] if loops else clg.node, okc, "a chunk list generates every chunk, in order, unconditionally")
    n_text = 0
    for cls in sorted(px.node_classes):
        if not (ck.repo.has_func(T, cls + ".generate") and ck.repo.has_func(T, cls + ".__init__")):
            continue
        init = ck.repo.func(T, cls + ".__init__")
        g = ck.repo.func(T, cls + ".generate")
        ip = [p_ for p_ in init.params() if p_ != "self"]
        for attr in ("statement", "method", "expression"):
            st = [s_ for s_ in q.stores_to(init.node, "self." + attr)]
            if not st or attr not in ip:
                continue
            n_text += 1
            ck.ob(rid, init, st[0], len(st) == 1 and q.dotted(st[0].value) == attr, "%s keeps the %s text it was constructed with" % (cls, attr))
            used = [e for e in emission_program(ck.repo, g, _writer_param(g))[1] if any(q.dotted(x) == "self." + attr for x in e.exprs)]
            ck.ob(rid, g, used[0].call if used else g.node, len(used) == 1, "%s.generate emits that %s text exactly once" % (cls, attr), construct="%s emits self.%s x%d" % (cls, attr, len(used)))
    ck.floor(rid, n_text, 4, "text-carrying node classes")
    # the writer: default indentation, indent_size, printed line
    wl = ck.func(T, "_CodeWriter.write_line")
    wp = [p for p in wl.params() if p != "self"]
    if len(wp) < 3:
        raise AnalysisError("_CodeWriter.write_line signature changed")
    line_p, _, ind_p = wp[:3]
    facts = must_facts(wl.cfg)
    defaults = [st for st in q.stores_to(wl.node, ind_p)]
    ck.ob(rid, wl, wl.node, len(defaults) == 1 and q.dotted(defaults[0].value) == "self._indent" and all(holds(facts[n.id], "%s is None" % ind_p, True) for n in wl.cfg.nodes_for(defaults[0])),
          "write_line uses the writer's current indentation when none is given", construct="indent default")
    prints = [c for c in q.calls(wl.node) if q.is_call(c, "print") or q.is_call(c, ".write")]
    ck.floor(rid, len(prints), 1, "output calls in write_line")
    for c in prints:
        a0 = c.args[0] if c.args else None
        mult = [b for b in ast.walk(a0) if isinstance(b, ast.BinOp) and isinstance(b.op, ast.Mult)] if a0 is not None else []
        okm = any((isinstance(b.left, ast.Constant) and isinstance(b.left.value, str) and b.left.value and b.left.value.isspace() and q.dotted(b.right) == ind_p) or (isinstance(b.right, ast.Constant) and isinstance(b.right.value, str) and b.right.value and b.right.value.isspace() and q.dotted(b.left) == ind_p) for b in mult)
        ck.ob(rid, wl, c, okm and line_p in q.names_in(a0), "the written line is <indent * spaces> + line")
        if q.is_call(c, "print"):
            ck.ob(rid, wl, c, q.dotted(q.kwarg(c, "file")) == "self.file", "the line goes to the writer's file")
    isz = ck.func(T, "_CodeWriter.indent_size")
    rets = [n for n in q.walk_body(isz.node) if isinstance(n, ast.Return)]
    ck.ob(rid, isz, isz.node, len(rets) == 1 and q.dotted(rets[0].value) == "self._indent", "indent_size() is the current indentation", construct="return self._indent")


def rule_indent_balanced(ck, px):
    rid = "C19.indent-balanced"
    ind = ck.func(T, "_CodeWriter.indent")
    nested = {f.name: f for f in ck.repo.nested(ind) if f.name in ("__enter__", "__exit__")}
    if set(nested) != {"__enter__", "__exit__"}:
        raise AnalysisError("_CodeWriter.indent no longer returns a local context manager class")
    for nm, op in (("__enter__", ast.Add), ("__exit__", ast.Sub)):
        f = ck.use(nested[nm])
        upd = f.cfg.stmt_nodes(lambda n: n.kind == "stmt" and isinstance(n.ast, ast.AugAssign) and q.dotted(n.ast.target) == "self._indent")
        ok = len(upd) == 1 and isinstance(upd[0].ast.op, op) and q.is_const(upd[0].ast.value, 1) and f.cfg.postdominates(upd[0], f.cfg.entry)
        ck.ob(rid, f, f.node, bool(ok), "%s %s the indentation by exactly one on every normal path" % (nm, "raises" if op is ast.Add else "lowers"), construct="%s self._indent %s 1" % (nm, "+=" if op is ast.Add else "-="))
    others = [(f, st) for f in ck.repo.methods(T, "_CodeWriter") for st in q.stores_to(f.node, "self._indent") if f.name not in ("__init__", "__enter__", "__exit__")]
    ck.ob(rid, ind, ind.node, not others, "no other method changes the indentation", construct="writers of _indent")


# --------------------------------------------------------------------------------------------
# R12 inheritance


def rule_inherit(ck, px):
    rid = "C19.inherit"
    # (a) ancestors: derived first from _get_ancestors, base first for block collection, base generated
    ga = ck.func(T, "Template._get_ancestors")
    first = [st for st in q.walk_body(ga.node) if isinstance(st, ast.Assign) and isinstance(st.value, ast.List)]
    lst = None
    if len(first) == 1 and len(first[0].value.elts) == 1 and q.dotted(first[0].value.elts[0]) == "self.file":
        lst = q.dotted(first[0].targets[0])
    ck.ob(rid, ga, ga.node, lst is not None, "the ancestor list starts with the template's own file", construct="ancestors = [self.file]")
    if lst:
        ext = [c for c in q.calls(ga.node) if isinstance(c.func, ast.Attribute) and c.func.attr in ("extend", "append") and q.dotted(c.func.value) == lst]
        ok = len(ext) == 1 and ext[0].func.attr == "extend" and isinstance(ext[0].args[0], ast.Call) and q.call_attr(ext[0].args[0]) == ga.name
        ck.ob(rid, ga, ext[0] if ext else ga.node, bool(ok), "the parent's ancestors are appended after the template itself (derived-first order)")
        rets = [n for n in q.walk_body(ga.node) if isinstance(n, ast.Return)]
        ck.ob(rid, ga, ga.node, bool(rets) and all(q.dotted(r.value) == lst for r in rets), "the ancestor list is returned", construct="return ancestors")
        loads = [c for c in q.calls(ga.node) if isinstance(c.func, ast.Attribute) and c.func.attr == "load"]
        ck.ob(rid, ga, loads[0] if loads else ga.node, len(loads) == 1 and len(loads[0].args) == 2 and q.dotted(loads[0].args[1]) == "self.name" and (q.dotted(loads[0].args[0]) or "").endswith(".name"),
              "the parent is loaded by the extends-block's name relative to this template")
        isn = [c for c in q.calls(ga.node) if q.is_call(c, "isinstance") and q.dotted(c.args[1]) == "_ExtendsBlock"]
        ck.ob(rid, ga, ga.node, len(isn) == 1, "parents are found by scanning for _ExtendsBlock chunks", construct="isinstance(chunk, _ExtendsBlock)")
    gp = ck.func(T, "Template._generate_python")
    anc = None
    for st in q.walk_body(gp.node):
        if isinstance(st, ast.Assign) and isinstance(st.value, ast.Call) and q.call_attr(st.value) == ga.name:
            anc = q.dotted(st.targets[0])
    if anc is None:
        raise AnalysisError("_generate_python does not call _get_ancestors")
    cfg = gp.cfg
    rev_nodes = cfg.stmt_nodes(lambda n: n.kind == "stmt" and any(q.is_call(c, anc + ".reverse") for c in q.calls(n.ast)))
    loops = [n for n in cfg.nodes if n.kind == "for" and any(isinstance(c.func, ast.Attribute) and c.func.attr == "find_named_blocks" for st in n.ast.body for c in q.calls(st))]
    if len(loops) != 1:
        raise AnalysisError("_generate_python: named-block collection loop not found")
    loop = loops[0]
    it = loop.ast.iter
    reversed_before_loop = bool(rev_nodes) and all(cfg.dominates(r, loop) for r in rev_nodes) and len(rev_nodes) == 1
    if q.dotted(it) == anc:
        base_first = reversed_before_loop
    elif q.is_call(it, "reversed") and q.dotted(it.args[0]) == anc:
        base_first = not rev_nodes
    elif isinstance(it, ast.Subscript) and q.dotted(it.value) == anc and isinstance(it.slice, ast.Slice) and isinstance(it.slice.step, ast.UnaryOp) and it.slice.lower is None and it.slice.upper is None:
        base_first = not rev_nodes
    else:
        raise AnalysisError("_generate_python: iteration order over the ancestors not understood: %s" % q.unparse(it))
    ck.ob(rid, gp, loop.ast.iter, base_first, "named blocks are collected from the base template towards the derived one (later definitions override)")
    gens = [c for c in q.calls(gp.node) if isinstance(c.func, ast.Attribute) and c.func.attr == "generate"]
    if len(gens) != 1:
        raise AnalysisError("_generate_python: expected one generate() call")
    gen = gens[0]
    root = gen.func.value

    def is_root(e):
        if not (isinstance(e, ast.Subscript) and q.dotted(e.value) == anc):
            return None
        try:
            i = q.fold(e.slice, {})
        except q.NotFoldable:
            return None
        gn = cfg.nodes_for(gen)
        after_rev = bool(rev_nodes) and all(cfg.dominates(r, g) for r in rev_nodes for g in gn)
        return (i == 0 and after_rev) or (i == -1 and not rev_nodes)

    r = is_root(root)
    if r is None:
        raise AnalysisError("_generate_python: generated ancestor not understood: %s" % q.unparse(root))
    ck.ob(rid, gp, gen, r, "the base-most ancestor is the file whose code is generated")
    cw = [c for c in q.calls(gp.node) if q.is_call(c, "_CodeWriter")]
    cwi = ck.func(T, "_CodeWriter.__init__")
    cwp = [p for p in cwi.params() if p != "self"]
    for c in cw:
        bound = {cwp[i]: a for i, a in enumerate(c.args) if i < len(cwp)}
        bound.update({k.arg: k.value for k in c.keywords})
        nb = bound.get("named_blocks")
        fnb = [x for st in loop.ast.body for x in q.calls(st) if isinstance(x.func, ast.Attribute) and x.func.attr == "find_named_blocks"]
        ck.ob(rid, gp, c, nb is not None and fnb and q.dotted(nb) == q.dotted(fnb[0].args[-1]), "the writer resolves blocks in the table that was collected")
    # (b) _NamedBlock.generate uses the looked-up block
    nbg = ck.func(T, "_NamedBlock.generate")
    w = _writer_param(nbg)
    look = [st for st in q.walk_body(nbg.node) if isinstance(st, ast.Assign) and isinstance(st.value, ast.Subscript) and q.dotted(st.value.value) == w + ".named_blocks" and q.dotted(st.value.slice) == "self.name"]
    bodies = [c for c in q.calls(nbg.node) if isinstance(c.func, ast.Attribute) and c.func.attr == "generate"]
    ck.floor(rid, len(bodies), 1, "generate calls in _NamedBlock.generate")
    for c in bodies:
        recv = q.dotted(c.func.value) or ""
        ok = len(look) == 1 and recv == q.dotted(look[0].targets[0]) + ".body"
        ck.ob(rid, nbg, c, ok, "a block renders the body registered under its name (the most derived override), not its own body")
    # (c) registration
    fnb = ck.func(T, "_NamedBlock.find_named_blocks")
    tbl = [p for p in fnb.params() if p != "self"][-1]
    reg = [st for st in q.walk_body(fnb.node) if isinstance(st, ast.Assign) and isinstance(st.targets[0], ast.Subscript) and q.dotted(st.targets[0].value) == tbl and q.dotted(st.targets[0].slice) == "self.name" and q.dotted(st.value) == "self"]
    ck.ob(rid, fnb, fnb.node, len(reg) == 1, "a named block registers itself under its name", construct="named_blocks[self.name] = self")
    rec = [c for c in q.calls(fnb.node) if isinstance(c.func, ast.Attribute) and c.func.attr == "find_named_blocks"]
    ck.ob(rid, fnb, fnb.node, len(rec) >= 1, "and continues the search in its children (nested blocks)", construct="recursion into children")
    base = ck.func(T, "_Node.find_named_blocks")
    loops_b = [n for n in q.walk_body(base.node) if isinstance(n, ast.For) and q.is_call(n.iter, "self.each_child")]
    ck.ob(rid, base, base.node, len(loops_b) == 1 and any(isinstance(c.func, ast.Attribute) and c.func.attr == "find_named_blocks" for c in q.calls(loops_b[0])) if loops_b else False, "the default search visits every child", construct="for child in self.each_child()")
    # (d) each_child lists every child node stored by __init__
    n_child = 0
    for cls in sorted(px.node_classes):
        if not ck.repo.has_func(T, cls + ".__init__"):
            continue
        init = ck.repo.func(T, cls + ".__init__")
        ann = {a.arg: q.unparse(a.annotation) if a.annotation is not None else "" for a in init.node.args.args}
        kids = []
        for st in q.walk_body(init.node):
            if isinstance(st, ast.Assign) and isinstance(st.value, ast.Name) and st.value.id in ann and q.dotted(st.targets[0]).startswith("self."):
                t = ann[st.value.id]
                if "_Node" in t or "_ChunkList" in t:
                    kids.append(q.dotted(st.targets[0]))
        for k in kids:
            n_child += 1
            has = ck.repo.has_func(T, cls + ".each_child")
            ok = False
            if has:
                ec = ck.func(T, cls + ".each_child")
                ok = any(isinstance(r, ast.Return) and r.value is not None and any(q.dotted(x) == k for x in ast.walk(r.value)) for r in q.walk_body(ec.node))
            ck.ob(rid, init, init.node, ok, "%s.each_child() yields the child stored in %s (blocks nested in it are found)" % (cls, k), construct="%s each_child covers %s" % (cls, k))
    ck.floor(rid, n_child, 5, "child-holding node classes")
    # (e) include: both phases load the same template, relative to the including file
    ii = ck.func(T, "_IncludeBlock.__init__")
    ip = [p for p in ii.params() if p != "self"]
    rel = [st for st in q.walk_body(ii.node) if isinstance(st, ast.Assign) and isinstance(st.value, ast.Attribute) and st.value.attr == "name" and isinstance(st.value.value, ast.Name) and st.value.value.id in ip and st.value.value.id != ip[0]]
    ck.ob(rid, ii, ii.node, len(rel) == 1, "an include remembers the name of the including template", construct="self.template_name = reader.name")
    if rel:
        relattr = q.dotted(rel[0].targets[0])
        for m_ in ("find_named_blocks", "generate"):
            f = ck.func(T, "_IncludeBlock." + m_)
            loads = [c for c in q.calls(f.node) if isinstance(c.func, ast.Attribute) and c.func.attr == "load"]
            ok = len(loads) == 1 and len(loads[0].args) == 2 and q.dotted(loads[0].args[0]) == "self.name" and q.dotted(loads[0].args[1]) == relattr
            ck.ob(rid, f, loads[0] if loads else f.node, ok, "%s loads the included template by (self.name, %s)" % (m_, relattr))
        inc_f = ck.func(T, "_IncludeBlock.find_named_blocks")
        ps_ = [p_ for p_ in inc_f.params() if p_ != "self"]
        rec_ = [c for c in q.calls(inc_f.node) if isinstance(c.func, ast.Attribute) and c.func.attr == "find_named_blocks"]
        ck.ob(rid, inc_f, rec_[0] if rec_ else inc_f.node, len(rec_) == 1 and [q.dotted(a) for a in rec_[0].args] == ps_ and isinstance(rec_[0].func.value, ast.Attribute) and rec_[0].func.value.attr == "file", "the included file's named blocks are collected into the same table")


# --------------------------------------------------------------------------------------------


def run(ck):
    from ..x_valuewalk import guard_obligations, canonical

    ck.repo = canonical(ck.repo, ['tornado/template.py'], keep_names=('_DEFAULT_AUTOESCAPE',))

    # function splitting: single-use private helpers of template.py are inlined first (vt.x_wsnorm)
    from .. import x_wsnorm

    try:
        ck.repo = x_wsnorm.normalize(ck.repo, T, keep={"_parse", "_get_ancestors", "_generate_python", "_create_template"})
    except (SyntaxError, RecursionError, ValueError) as e:
        raise AnalysisError("normalisation of %s failed: %s" % (T, e))
    # one level of delegation: private helpers the rules do not anchor on (also multi-use ones) are
    # replaced by their bodies at the call sites (vt.x_inline); what cannot be inlined stays a call
    # and is reported by guard_obligations below
    from .. import x_inline

    ck.repo = x_inline.inline_repo(ck.repo, [T], keep=['_parse', '_get_ancestors', '_generate_python', '_format_code', '_create_template', '_find_directive'])
    from ..x_valuewalk import split_ifexp_assign

    ck.repo = split_ifexp_assign(ck.repo, T, ['generate'])
    from ..x_valuewalk import coalesce_copies

    ck.repo = coalesce_copies(ck.repo, T, ['generate'])
    guard_obligations(ck, ['_parse', '_get_ancestors', '_generate_python', '_format_code', '_create_template', '_find_directive'])
    ck.rule("C19.raise-class", "every raise statement in the call closure of _parse / _get_ancestors constructs ParseError; a helper raising another class is only called behind a handler that raises ParseError or a membership guard over the values it accepts")
    ck.rule("C19.error-line", "raise_parse_error raises ParseError(message, reader.name, reader.line); ParseError keeps them; consume() advances reader.line by the newlines of exactly the consumed span before moving pos; _parse never raises directly")
    ck.rule("C19.block-bound", "for every operator literal of the dispatch (tests constant-folded per operator) the node variable is assigned in the current iteration on every path to body.chunks.append(<var>)")
    ck.rule("C19.unknown-operator", "an operator that is in no dispatch set reaches a parse error on every path")
    ck.rule("C19.intermediate-table", "the intermediate-clause table equals Python's clause table (else: if/for/while/try, elif: if, except/finally: try); its parents open blocks; a clause is appended only with an open, allowed block")
    ck.rule("C19.block-context", "returns of _parse: end-of-input only with no open block, block end only with an open block; break/continue only with the loop marker set")
    ck.rule("C19.recursion-scope", "recursive _parse calls pass the opening operator as enclosing block; loop marker: set for Python loops, cleared for operators that generate a nested function, passed through otherwise")
    ck.rule("C19.statement-text", "operators that are Python keywords are emitted with their keyword (whole directive text); all other operators pass only their operand")
    ck.rule("C19.text-fidelity", "literal text carries the whitespace mode in force where it was read; _Text emits repr(utf8(filtered value)); filter_whitespace patterns match whitespace only, replace by one whitespace character, 'all' is the identity, 'single' keeps and 'oneline' removes newlines")
    ck.rule("C19.ws-runs", "the substitution pipeline of each whitespace mode, evaluated on every whitespace run up to length 4 over class representatives, does what the mode documents: all = identity; oneline = one space; single = exactly one newline for a run containing a newline, otherwise non-empty whitespace without adjacent blanks")
    ck.rule("C19.text-nodes", "every literal-text fragment (text before a tag, escaped opener, rest of input) becomes its own _Text node appended to the chunk list; no fragment is added to the text of an existing node (filtering and the <pre> test are per node)")
    ck.rule("C19.scanner", "tags: each opener the scan loop stops at has a branch searching its mirror-image closer, a missing closer is an error, the body is consumed up to the closer and exactly the closer is skipped; an escaped opener ('!' after it) emits the two opener characters, drops the '!' and is not parsed; text nodes carry what consume() returned")
    ck.rule("C19.gen-structure", "emitted block structure: header before an indented suite, pass for empty suites, clause headers one level out after pass, generated functions open with a fresh buffer + append alias and end returning the joined buffer, one alias for all emitters, write_line indents with the current level")
    ck.rule("C19.indent-balanced", "_CodeWriter.indent(): __enter__ adds one level, __exit__ removes one level, nothing else writes _indent")
    ck.rule("C19.inherit", "ancestors are derived-first, named blocks collected base-first, base-most file generated; a block renders the registered override; each_child covers stored children; include loads (name, including template) in both phases")
    px = ParseCtx(ck)
    ck.note("dispatch variable %s (contents %s, operand %s); %d operator literals: %s" % (px.op, px.contents, px.suffix, len(px.domain), px.domain))
    rule_raise_class(ck, px)
    rule_error_line(ck, px)
    rule_block_bound(ck, px)
    rule_unknown_operator(ck, px)
    rule_intermediate_table(ck, px)
    rule_block_context(ck, px)
    rule_recursion_scope(ck, px)
    rule_statement_text(ck, px)
    rule_text_fidelity(ck, px)
    rule_text_nodes(ck, px)
    rule_scanner(ck, px)
    rule_gen_structure(ck, px)
    rule_indent_balanced(ck, px)
    rule_inherit(ck, px)


def _in(qn, edit, rel=T):
    return lambda repo: mutate(repo, rel, qn, edit)


def _u(n):
    return ast.unparse(n)


def _is_rpe_stmt(st, text):
    return isinstance(st, ast.Expr) and isinstance(st.value, ast.Call) and q.call_attr(st.value) == "raise_parse_error" and text in _u(st)


def _if_guarding(text):
    """an `if` statement whose whole body is the parse error mentioning ``text``"""
    return lambda st: isinstance(st, ast.If) and len(st.body) == 1 and _is_rpe_stmt(st.body[0], text) and not st.orelse


def _add_operator(root):
    for n in ast.walk(root):
        if isinstance(n, ast.Compare) and isinstance(n.ops[0], ast.In) and isinstance(n.comparators[0], ast.Tuple) and any(q.is_const(e, "module") for e in n.comparators[0].elts):
            n.comparators[0].elts.append(ast.Constant(value="static"))
            return True
    return False


def _table_drop(key, member):
    def edit(root):
        for n in ast.walk(root):
            if isinstance(n, ast.Dict):
                for k, v in zip(n.keys, n.values):
                    if q.is_const(k, key) and isinstance(v, ast.Set):
                        before = len(v.elts)
                        v.elts = [e for e in v.elts if not q.is_const(e, member)]
                        return len(v.elts) != before
        return False

    return edit


def _table_add(key, member):
    def edit(root):
        for n in ast.walk(root):
            if isinstance(n, ast.Dict):
                for k, v in zip(n.keys, n.values):
                    if q.is_const(k, key) and isinstance(v, ast.Set):
                        v.elts.append(ast.Constant(value=member))
                        return True
        return False

    return edit


def _parse_call_arg(which, new_src):
    """Rewrite the loop-marker argument of the which-th recursive _parse call."""
    def edit(root):
        calls = [n for n in ast.walk(root) if isinstance(n, ast.Call) and isinstance(n.func, ast.Name) and n.func.id == "_parse"]
        calls.sort(key=lambda c: c.lineno)
        if which >= len(calls) or len(calls[which].args) < 4:
            return False
        calls[which].args[3] = parse_expr(new_src)
        return True

    return edit


def _swap_consume(root):
    body = root.body
    for i, st in enumerate(body):
        if isinstance(st, ast.AugAssign) and _u(st.target) == "self.line":
            for j in range(i + 1, len(body)):
                if isinstance(body[j], ast.Assign) and _u(body[j].targets[0]) == "self.pos":
                    body.insert(i, body.pop(j))
                    return True
    return False


def _drop_method(name):
    def edit(cls):
        before = len(cls.body)
        cls.body = [st for st in cls.body if not (isinstance(st, ast.FunctionDef) and st.name == name)]
        return len(cls.body) != before

    return edit


def _seed_coalesce(tree):
    helper = ast.parse("def _append_text(body, value, line, whitespace):\n    last = body.chunks[-1] if body.chunks else None\n    if isinstance(last, _Text) and last.whitespace == whitespace:\n        last.value += value\n    else:\n        body.chunks.append(_Text(value, line, whitespace))\n").body[0]
    n = 0
    for i, st in enumerate(tree.body):
        if isinstance(st, ast.FunctionDef) and st.name == "_parse":
            class R(ast.NodeTransformer):
                def visit_Call(self, node):
                    self.generic_visit(node)
                    nonlocal n
                    if isinstance(node.func, ast.Attribute) and node.func.attr == "append" and _u(node.func.value) == "body.chunks" and node.args and isinstance(node.args[0], ast.Call) and _u(node.args[0].func) == "_Text":
                        n += 1
                        return ast.Call(func=ast.Name(id="_append_text", ctx=ast.Load()), args=[ast.Name(id="body", ctx=ast.Load())] + node.args[0].args, keywords=[])
                    return node
            R().visit(st)
            tree.body.insert(i, helper)
            break
    return n > 0


MUTANTS = [
    ("empty expression raises a plain Exception", _in("_parse", replace_stmt(lambda st: _is_rpe_stmt(st, "Empty expression"), lambda st: [parse_stmt("raise Exception('Empty expression')")])), ("C19.raise-class", "C19.error-line")),
    ("missing loader reported with ValueError", _in("Template._get_ancestors", replace_expr(lambda n: isinstance(n, ast.Name) and n.id == "ParseError", lambda n: ast.Name(id="ValueError", ctx=ast.Load()))), "C19.raise-class"),
    ("F15 repair undone: whitespace mode validated outside any handler", _in("_parse", replace_stmt(lambda st: isinstance(st, ast.Try) and "filter_whitespace" in _u(st), lambda st: st.body)), "C19.raise-class"),
    ("F15 handler re-raises the foreign exception", _in("_parse", replace_stmt(lambda st: isinstance(st, ast.Expr) and "raise_parse_error(str(e))" in _u(st), lambda st: [parse_stmt("raise")])), "C19.raise-class"),
    ("seeded C19-adv1: 'single' newline pattern swallows only one space before the newline", _in("filter_whitespace", replace_expr(lambda n: q.is_const(n, "(\\s*\\n\\s*)"), lambda n: ast.Constant(value=" ?\\n\\s*"))), "C19.ws-runs"),
    ("'oneline' collapses blanks only (newlines survive)", _in("filter_whitespace", replace_expr(lambda n: q.is_const(n, "(\\s+)"), lambda n: ast.Constant(value="([ \\t]+)"))), "C19.ws-runs"),
    ("operator added to the dispatch tuple without a branch", _in("_parse", _add_operator), "C19.block-bound"),
    ("unknown operators are skipped silently", _in("_parse", replace_stmt(lambda st: _is_rpe_stmt(st, "unknown operator"), lambda st: [ast.Continue()])), "C19.unknown-operator"),
    ("error line is off by one", _in("_TemplateReader.raise_parse_error", replace_expr(lambda n: _u(n) == "self.line", lambda n: parse_expr("self.line - 1"))), "C19.error-line"),
    ("consume() moves pos before counting newlines", _in("_TemplateReader.consume", _swap_consume), "C19.error-line"),
    ("consume() counts newlines from the start of the text", _in("_TemplateReader.consume", replace_expr(lambda n: isinstance(n, ast.Call) and q.call_attr(n) == "count", lambda n: parse_expr("self.text.count('\\n', 0, newpos)"))), "C19.error-line"),
    ("while ... else no longer accepted", _in("_parse", _table_drop("else", "while")), "C19.intermediate-table"),
    ("else accepted directly inside apply", _in("_parse", _table_add("else", "apply")), "C19.intermediate-table"),
    ("clause accepted for any enclosing block", _in("_parse", remove_stmts(_if_guarding("cannot be attached"))), "C19.intermediate-table"),
    ("extra {% end %} no longer rejected", _in("_parse", remove_stmts(_if_guarding("Extra {% end %}"))), "C19.block-context"),
    ("missing {% end %} at EOF no longer rejected", _in("_parse", remove_stmts(_if_guarding("Missing {%% end %%}"))), "C19.block-context"),
    ("break accepted outside loops", _in("_parse", remove_stmts(lambda st: isinstance(st, ast.If) and _u(st.test) == "not in_loop")), "C19.block-context"),
    ("apply body inherits the loop marker", _in("_parse", _parse_call_arg(1, "in_loop")), "C19.recursion-scope"),
    ("if/try/block bodies lose the loop marker", _in("_parse", _parse_call_arg(2, "None")), "C19.recursion-scope"),
    ("for body parsed with the outer loop marker", _in("_parse", _parse_call_arg(0, "in_loop")), "C19.recursion-scope"),
    ("set emits the whole directive", _in("_parse", replace_expr(lambda n: isinstance(n, ast.Call) and _u(n) == "_Statement(suffix, line)", lambda n: parse_expr("_Statement(contents, line)"))), "C19.statement-text"),
    ("control block emits only the operand", _in("_parse", replace_expr(lambda n: isinstance(n, ast.Call) and _u(n).startswith("_ControlBlock(contents"), lambda n: parse_expr("_ControlBlock(suffix, line, block_body)"))), "C19.statement-text"),
    ("seeded C19-adv3: whitespace mode cached in a per-call local (changes made in nested blocks do not reach the outer frame)", _in("_parse", lambda fn: (replace_expr(lambda n: isinstance(n, ast.Attribute) and _u(n) == "reader.whitespace" and isinstance(n.ctx, ast.Load), lambda n: ast.Name(id="ws_mode", ctx=ast.Load()), limit=9)(fn) and replace_stmt(lambda st: isinstance(st, ast.Assign) and _u(st.targets[0]) == "reader.whitespace", lambda st: [st, parse_stmt("ws_mode = mode")])(fn) and (fn.body.insert(0, parse_stmt("ws_mode = reader.whitespace")) or True))), "C19.text-fidelity"),
    ("whitespace directive does not change the reader mode", _in("_parse", remove_stmts(lambda st: isinstance(st, ast.Assign) and _u(st.targets[0]) == "reader.whitespace")), "C19.text-fidelity"),
    ("text before a directive gets the template default mode", _in("_parse", replace_expr(lambda n: isinstance(n, ast.Call) and _u(n).startswith("_Text(cons"), lambda n: parse_expr("_Text(cons, reader.line, 'all')"))), "C19.text-fidelity"),
    ("literal text emitted with %s inside quotes", _in("_Text.generate", replace_expr(lambda n: isinstance(n, ast.BinOp) and isinstance(n.op, ast.Mod), lambda n: parse_expr("'_tt_append(b\"%s\")' % value"))), "C19.text-fidelity"),
    ("'single' turns newline runs into a space", _in("filter_whitespace", replace_expr(lambda n: q.is_const(n, "\n"), lambda n: ast.Constant(value=" "))), "C19.ws-runs"),
    ("'oneline' also eats the character after the run", _in("filter_whitespace", replace_expr(lambda n: q.is_const(n, "(\\s+)"), lambda n: ast.Constant(value="(\\s+.?)"))), "C19.text-fidelity"),
    ("mode 'all' strips the text", _in("filter_whitespace", replace_stmt(lambda st: isinstance(st, ast.Return) and _u(st) == "return text", lambda st: [parse_stmt("return text.strip()")])), "C19.text-fidelity"),
    ("seeded C19-adv5: text fragments coalesced into the previous _Text node", _in(None, lambda tree: _seed_coalesce(tree)), "C19.text-nodes"),
    ("text before a tag is appended to the previous text node's value", _in("_parse", replace_stmt(lambda st: isinstance(st, ast.Expr) and _u(st).startswith("body.chunks.append(_Text(cons"), lambda st: [parse_stmt("if body.chunks and isinstance(body.chunks[-1], _Text):\n    body.chunks[-1].value += cons\nelse:\n    body.chunks.append(_Text(cons, reader.line, reader.whitespace))")])), "C19.text-nodes"),
    ("escaped opener keeps the '!'", _in("_parse", remove_stmts(lambda st: isinstance(st, ast.Expr) and _u(st) == "reader.consume(1)")), "C19.scanner"),
    ("escaped opener emits only the first brace", _in("_parse", replace_expr(lambda n: isinstance(n, ast.Call) and _u(n).startswith("_Text(start_brace"), lambda n: parse_expr("_Text(start_brace[0], line, reader.whitespace)"))), "C19.scanner"),
    ("comment closer skipped with one character", _in("_parse", lambda fn: (lambda ifs: (replace_expr(lambda n: isinstance(n, ast.Call) and _u(n) == "reader.consume(2)", lambda n: parse_expr("reader.consume(1)"))(ifs[0]) if ifs else False))([n for n in ast.walk(fn) if isinstance(n, ast.If) and _u(n.test) == "start_brace == '{#'"])), "C19.scanner"),
    ("unterminated expression is not an error", _in("_parse", remove_stmts(_if_guarding("Missing end expression"))), "C19.scanner"),
    ("text before a tag loses trailing blanks", _in("_parse", replace_expr(lambda n: isinstance(n, ast.Call) and _u(n) == "reader.consume(curly)", lambda n: parse_expr("reader.consume(curly).rstrip(' ')"))), "C19.scanner"),
    ("<pre> test inverted: ordinary text is never filtered", _in("_Text.generate", replace_expr(lambda n: isinstance(n, ast.Compare) and isinstance(n.ops[0], ast.NotIn) and "<pre>" in _u(n), lambda n: ast.Compare(left=n.left, ops=[ast.In()], comparators=n.comparators))), "C19.text-fidelity"),
    ("whitespace-only text is dropped", _in("_Text.generate", replace_expr(lambda n: isinstance(n, ast.Name) and n.id == "value" and isinstance(n.ctx, ast.Load) and False, lambda n: n) if False else replace_stmt(lambda st: isinstance(st, ast.If) and _u(st.test) == "value", lambda st: [ast.If(test=parse_expr("value.strip()"), body=st.body, orelse=[])])), "C19.text-fidelity"),
    ("control block without the trailing pass", _in("_ControlBlock.generate", remove_stmts(lambda st: "'pass'" in _u(st) and isinstance(st, ast.Expr))), "C19.gen-structure"),
    ("intermediate clause at the body's indentation", _in("_IntermediateControlBlock.generate", replace_expr(lambda n: _u(n) == "writer.indent_size() - 1", lambda n: parse_expr("writer.indent_size()"))), "C19.gen-structure"),
    ("intermediate clause without the preceding pass", _in("_IntermediateControlBlock.generate", remove_stmts(lambda st: isinstance(st, ast.Expr) and "'pass'" in _u(st))), "C19.gen-structure"),
    ("apply function does not reset the buffer", _in("_ApplyBlock.generate", remove_stmts(lambda st: isinstance(st, ast.Expr) and "_tt_buffer = []" in _u(st))), "C19.gen-structure"),
    ("apply function keeps the outer append alias", _in("_ApplyBlock.generate", remove_stmts(lambda st: isinstance(st, ast.Expr) and "_tt_append = _tt_buffer.append" in _u(st))), "C19.gen-structure"),
    ("chunk list skips its first chunk", _in("_ChunkList.generate", replace_expr(lambda n: isinstance(n, ast.Attribute) and _u(n) == "self.chunks", lambda n: parse_expr("self.chunks[1:]"))), "C19.gen-structure"),
    ("statement node emits its text twice", _in("_Statement.generate", lambda fn: (fn.body.append(fn.body[0]) or True)), "C19.gen-structure"),
    ("apply calls str() instead of the named method", _in("_ApplyBlock.generate", replace_expr(lambda n: isinstance(n, ast.JoinedStr), lambda n: parse_expr("f'_tt_append(_tt_utf8(str({method_name}())))'"))), "C19.gen-structure"),
    ("blocks of included files are not collected", _in("_IncludeBlock.find_named_blocks", remove_stmts(lambda st: isinstance(st, ast.Expr) and "find_named_blocks" in _u(st))), "C19.inherit"),
    ("Indenter.__exit__ forgets to dedent", _in("_CodeWriter.indent", remove_stmts(lambda st: isinstance(st, ast.AugAssign) and isinstance(st.op, ast.Sub))), "C19.indent-balanced"),
    ("named block renders its own body", _in("_NamedBlock.generate", replace_expr(lambda n: _u(n) == "block.body", lambda n: parse_expr("self.body"))), "C19.inherit"),
    ("ancestors not reversed", _in("Template._generate_python", remove_stmts(lambda st: isinstance(st, ast.Expr) and "reverse" in _u(st))), "C19.inherit"),
    ("blocks nested in control blocks are not collected", _in("_ControlBlock", _drop_method("each_child")), "C19.inherit"),
    ("include resolved relative to nothing while generating", _in("_IncludeBlock.generate", replace_expr(lambda n: _u(n) == "self.template_name", lambda n: ast.Constant(value=None))), "C19.inherit"),
]
