"""C35 — queues conserve items and match their ordering discipline.

Decided statically (DESIGN.md §4 C35): ordering table per queue class
(container operations of ``_put``/``_get``), ``full()`` evaluated exhaustively
over small (maxsize, qsize), ``_consume_expired()`` dominating every inspection
of the waiter queues in ``put_nowait``/``get_nowait`` and purging only finished
heads, exit-state typestates of ``put_nowait``/``get_nowait``/``put``/``get``
(items put x items taken x waiters popped x waiters settled x waiters queued),
``__put_internal`` as the only route to ``_put`` with its accounting,
``task_done``/``join`` guards folded over small integers, layout agreement of
the putter tuples, FIFO-only use of the waiter queues and SETTLE on the
getter/putter futures.  Not decided: conservation over whole histories.
"""
from __future__ import annotations

import ast

from .. import q
from ..cfg import must_facts, holds, canon_fact
from ..rules import settle_sites, check_settles, event_facts, node_calls, callers_of
from ..mutate import mutate, remove_stmts, replace_expr, replace_stmt, parse_stmt, parse_expr
from ..model import AnalysisError
from ..x_syncnorm import normalized

NORM_MODULES = ("tornado/locks.py", "tornado/queues.py", "tornado/gen.py", "tornado/concurrent.py", "tornado/ioloop.py", "tornado/platform/asyncio.py")
from ..x_sync import with_nullness, check_outcome_reads, in_cycle, check_none_tests, own_walk, guard_models, aug_delta, node_counts, method_call_on, container_uses, exit_states, own_find, own_settle_sites
from .c34 import _while_to_if
from .c33 import wrong_timer_api, check_timeout_cb, _is_grant, _grant_target, _grant_value, _drop_done_test, _rename_attr, _cmp_op

TECHNIQUE = "typestate over the CFG (item/waiter accounting), exhaustive folding of small predicates, dominance, table agreement, settle-discipline lint"
EXPLANATION = (
    "Ordering table (_put/_get container operations per class); full() evaluated for all maxsize 0..3 x qsize 0..5; _consume_expired() must precede "
    "every look at _getters/_putters in the *_nowait methods and pops only heads whose future is done(); exit-state typestates of put_nowait, "
    "get_nowait, put, get; __put_internal is the only caller of _put and always counts and clears the finished event; task_done guards folded over "
    "small integers; putter tuple layout agrees between writer and readers; waiter queues use append/popleft only; SETTLE at every settle."
)
NOT_DECIDED = "conservation and ordering over whole operation histories with timer expiries and cancellations (a sequential reference model); Event/with_timeout behaviour behind join (see C34)"

Q = "tornado/queues.py"
GET, PUT = "self._getters", "self._putters"
UNF = "self._unfinished_tasks"
FIN = "self._finished"
QUEUE = "self._queue"

# (put operation, get operation) -> discipline
DISCIPLINES = {("append", "popleft"): "fifo", ("heappush", "heappop"): "priority", ("append", "pop"): "lifo"}
EXPECT = {"Queue": "fifo", "PriorityQueue": "priority", "LifoQueue": "lifo"}


def _queue_op(fi, kind):
    """The single container operation ``_put`` / ``_get`` performs on self._queue:
    returns (opname, call).  Recognised: self._queue.<m>(...), heapq.<f>(self._queue, ...)."""
    ops = []
    for c in q.calls(fi.node):
        if method_call_on(c, QUEUE):
            ops.append((c.func.attr, c))
        elif isinstance(c.func, ast.Attribute) and q.dotted(c.func.value) == "heapq" and c.args and q.dotted(c.args[0]) == QUEUE:
            ops.append((c.func.attr, c))
    if len(ops) != 1:
        raise AnalysisError("%s: expected exactly one operation on %s, found %d" % (fi.site(), QUEUE, len(ops)))
    return ops[0]


def check_order(ck):
    n = 0
    for cls, want in EXPECT.items():
        put = ck.func(Q, cls + "._put")
        get = ck.func(Q, cls + "._get")
        pop_, pc = _queue_op(put, "put")
        gop, gc = _queue_op(get, "get")
        item = [p for p in put.params() if p != "self"]
        extra = [a for a in pc.args if q.dotted(a) != QUEUE]
        ck.ob("C35.order", put, pc, len(item) == 1 and len(extra) == 1 and q.dotted(extra[0]) == item[0] and not pc.keywords, "%s._put stores exactly its item" % cls)
        gargs = [a for a in gc.args if q.dotted(a) != QUEUE]
        rets = [r for r in own_walk(get.node) if isinstance(r, ast.Return)]
        ck.ob("C35.order", get, gc, len(rets) == 1 and rets[0].value is gc, "%s._get returns the element it removes" % cls)
        disc = DISCIPLINES.get((pop_, gop)) if not gargs and not gc.keywords else None
        ck.ob("C35.order", get, gc, disc == want, "%s pairs %s/%s%s = %s discipline (expected %s)" % (cls, pop_, gop, "(args)" if gargs else "", disc, want),
              construct="%s order %s/%s args=%d" % (cls, pop_, gop, len(gargs)))
        # the container the operations need
        init = ck.func(Q, cls + "._init")
        st = q.stores_to(init.node, QUEUE)
        if len(st) != 1:
            raise AnalysisError("%s: expected one store to %s" % (init.site(), QUEUE))
        v = st[0].value
        kind = "deque" if isinstance(v, ast.Call) and q.call_attr(v) == "deque" and not v.args else ("list" if isinstance(v, ast.List) and not v.elts else None)
        ck.ob("C35.order", init, st[0], kind == ("deque" if want == "fifo" else "list"), "%s starts from an empty %s" % (cls, "deque" if want == "fifo" else "list"))
        n += 1
    ck.floor("C35.order", n, 3, "queue classes")
    # nobody else touches the item container
    for fi in ck.repo.methods(Q, "Queue") + ck.repo.methods(Q, "PriorityQueue") + ck.repo.methods(Q, "LifoQueue"):
        if fi.name in ("_put", "_get", "_init"):
            continue
        for c in q.calls(fi.node):
            if method_call_on(c, QUEUE) or (q.dotted(c.func) or "").startswith("heapq."):
                ck.ob("C35.order", fi, c, False, "only _put/_get/_init operate on the item container")
        for st in q.stores_to(fi.node, QUEUE):
            ck.ob("C35.order", fi, st, False, "only _init rebinds the item container")


# ---------------------------------------------------------------------------
# full(): exhaustive evaluation


class _Subst(ast.NodeTransformer):
    def visit_Call(self, node):
        if method_call_on(node, "self", "qsize") and not node.args:
            return ast.Name(id="QSIZE", ctx=ast.Load())
        if q.is_call(node, "len") and len(node.args) == 1 and q.dotted(node.args[0]) == QUEUE:
            return ast.Name(id="QSIZE", ctx=ast.Load())
        return self.generic_visit(node)

    def visit_Attribute(self, node):
        if q.dotted(node) in ("self.maxsize", "self._maxsize"):
            return ast.Name(id="MAX", ctx=ast.Load())
        return self.generic_visit(node)


def _eval_body(fi, stmts, env):
    import copy
    for st in stmts:
        if isinstance(st, ast.Expr) and isinstance(st.value, ast.Constant):
            continue
        if isinstance(st, ast.If):
            t = q.fold(_Subst().visit(copy.deepcopy(st.test)), env)
            r = _eval_body(fi, st.body if t else st.orelse, env)
            if r is not None:
                return r
            continue
        if isinstance(st, ast.Return) and st.value is not None:
            return (q.fold(_Subst().visit(copy.deepcopy(st.value)), env),)
        raise AnalysisError("%s: statement not understood by the small evaluator: %s" % (fi.site(st), type(st).__name__))
    return None


def check_full(ck):
    fi = ck.func(Q, "Queue.full")
    qs = ck.func(Q, "Queue.qsize")
    rets = [r for r in own_walk(qs.node) if isinstance(r, ast.Return)]
    ok = len(rets) == 1 and q.is_call(rets[0].value, "len") and q.dotted(rets[0].value.args[0]) == QUEUE
    ck.ob("C35.full", qs, qs.node, ok, "qsize() is len(self._queue)", construct="qsize")
    mx = ck.func(Q, "Queue.maxsize")
    rets = [r for r in own_walk(mx.node) if isinstance(r, ast.Return)]
    ck.ob("C35.full", mx, mx.node, len(rets) == 1 and q.dotted(rets[0].value) == "self._maxsize", "maxsize is the constructor's bound", construct="maxsize")
    bad = []
    n = 0
    for m in range(0, 4):
        for s in range(0, 6):
            # abstract evaluation of the body (assignments, if/else, returns; a result variable with a single exit is fine)
            from fractions import Fraction as _F
            from .. import x_tdeval as _tde
            try:
                _tde.run(fi.node.body, {"self.maxsize": _F(m), "self._maxsize": _F(m)}, {"self.qsize()": _F(s), "len(self._queue)": _F(s)})
                r = None
            except _tde.Returned as rr_:
                r = (rr_.value,)
            except (_tde.Unsupported, _tde.Raised) as e:
                raise AnalysisError("%s: cannot evaluate full(): %s" % (fi.site(), e))
            if r is None:
                raise AnalysisError("%s: full() falls off the end" % fi.site())
            n += 1
            if bool(r[0]) != (m > 0 and s >= m):
                bad.append((m, s, bool(r[0])))
    ck.ob("C35.full", fi, fi.node, not bad, "full() is True exactly when maxsize > 0 and qsize >= maxsize, for all maxsize 0..3 x qsize 0..5 (wrong at (maxsize,qsize,result) %s)" % bad[:4],
          construct="full() table mismatches=%d" % len(bad))
    ck.note("full(): %d (maxsize, qsize) pairs evaluated by folding the function body" % n)
    init = ck.func(Q, "Queue.__init__")
    mp = [x for x in init.params() if x != "self"][0]
    sts = q.stores_to(init.node, "self._maxsize")
    ck.ob("C35.full", init, init.node, len(sts) == 1 and q.dotted(getattr(sts[0], "value", None)) == mp, "the bound is the constructor's maxsize", construct="maxsize stored")
    fa = must_facts(init.cfg)
    rs = [nd for nd in init.cfg.stmt_nodes(lambda nd: nd.kind == "stmt" and isinstance(nd.ast, ast.Raise))]
    ok = any(guard_models(fa[nd.id], [mp], range(-3, 4)) == {(-3,), (-2,), (-1,)} for nd in rs)
    ck.ob("C35.full", init, init.node, ok, "a negative maxsize (and only that, among integers) is rejected; 0 means unbounded", construct="rejects negative maxsize")
    # writers of the bound
    for f in ck.repo.methods(Q, "Queue"):
        if f.name != "__init__":
            for st in q.stores_to(f.node, "self._maxsize"):
                ck.ob("C35.full", f, st, False, "maxsize is fixed at construction")


# ---------------------------------------------------------------------------
# expired waiters


def _mentions(node, path):
    from ..cfg import _node_roots
    if node.ast is None or node.kind not in ("stmt", "test", "for", "with"):
        return False
    if node.kind == "stmt" and isinstance(node.ast, q.ScopeNode):
        return False
    return any(isinstance(x, ast.Attribute) and q.dotted(x) == path for r in _node_roots(node) for x in q.walk_local(r))


def check_expired(ck):
    n = 0
    for name in ("put_nowait", "get_nowait"):
        fi = ck.func(Q, "Queue." + name)
        facts = event_facts(fi, {"consumed": node_calls("self._consume_expired")}, {"consumed": lambda nd: nd.suspends}, cond_facts=False)
        for nd in fi.cfg.stmt_nodes(lambda nd: _mentions(nd, GET) or _mentions(nd, PUT)):
            n += 1
            ck.ob("C35.expired", fi, nd.ast, ("@consumed", True) in facts[nd.id], "_consume_expired() runs before %s looks at the getters/putters (timed-out operations have no effect)" % name)
    ck.floor("C35.expired", n, 4, "inspections of the waiter queues in *_nowait")
    ce = ck.func(Q, "Queue._consume_expired")
    facts = must_facts(ce.cfg)
    pops = own_find(ce, lambda x: method_call_on(x, GET) or method_call_on(x, PUT))
    ck.floor("C35.expired", len(pops), 2, "removals in _consume_expired")
    seen = set()
    for nd, c in pops:
        cont = q.dotted(c.func.value)
        seen.add(cont)
        ck.ob("C35.expired", ce, c, c.func.attr == "popleft", "_consume_expired removes from the head")
        ck.ob("C35.expired", ce, c, in_cycle(ce.cfg, nd), "finished heads are removed in a loop, until the head is live or the queue is empty (several waiters may have expired)")
        # the head's future is known done: a fact `<cont>[0]...done()` True
        ok = False
        for text, pol in facts[nd.id]:
            if not pol or not text.endswith(".done()"):
                continue
            e = ast.parse(text, mode="eval").body
            recv = e.func.value
            # recv is cont[0] (getters) or cont[0][k] (putters: k = future slot)
            if isinstance(recv, ast.Subscript) and q.dotted(recv.value) == cont and q.is_const(recv.slice, 0) and cont == GET:
                ok = True
            if isinstance(recv, ast.Subscript) and isinstance(recv.value, ast.Subscript) and q.dotted(recv.value.value) == cont and q.is_const(recv.value.slice, 0) and cont == PUT and q.is_const(recv.slice, _putter_layout(ck)["future"]):
                ok = True
        wrong_slot = False
        for text, pol in facts[nd.id]:
            if pol and text.endswith(".done()") and cont == PUT:
                e_ = ast.parse(text, mode="eval").body.func.value
                if isinstance(e_, ast.Subscript) and isinstance(e_.value, ast.Subscript) and q.dotted(e_.value.value) == cont and q.is_const(e_.value.slice, 0) and isinstance(e_.slice, ast.Constant) and e_.slice.value != _putter_layout(ck)["future"]:
                    wrong_slot = True
        if wrong_slot:
            ck.ob("C35.layout", ce, c, False, "_consume_expired tests done() on the future slot of a putter entry (layout written by put: future at %d)" % _putter_layout(ck)["future"])
            continue
        if not ok and any(pol and text.endswith(".done()") for text, pol in facts[nd.id]):
            raise AnalysisError("%s: the removal is guarded by a done() test on something that is not recognised as the head entry's future" % ce.site(c))
        ck.ob("C35.expired", ce, c, ok and holds(facts[nd.id], cont, True), "only a head entry whose future is done() is discarded")
    ck.ob("C35.expired", ce, ce.node, seen == {GET, PUT}, "_consume_expired purges both waiter queues", construct="purged=%s" % sorted(seen))
    # the purge is unconditional: the head test of each queue is evaluated on every call (cancelled waiters must be purged
    # whether or not a timeout was ever used)
    for cont in sorted(seen):
        heads = [nd for nd in ce.cfg.stmt_nodes(lambda nd: nd.kind == "test") if q.dotted(nd.ast) == cont]
        if not heads:
            raise AnalysisError("%s: cannot find the emptiness test of %s" % (ce.site(), cont))
        ck.ob("C35.expired", ce, heads[0].ast, any(ce.cfg.postdominates(h, ce.cfg.entry) for h in heads), "every call of _consume_expired inspects the head of %s (no early exit that skips the purge)" % cont, construct="purge of %s unconditional" % cont)
    ck.ob("C35.expired", ce, ce.node, not own_settle_sites(ce) and not any(method_call_on(c, "self", "_put", "_get") or "put_internal" in (q.call_attr(c) or "") for c in q.calls(ce.node)), "_consume_expired neither settles futures nor moves items", construct="consume side effects")


def _putter_layout(ck):
    """Positions of (item, future) in the tuples stored in _putters, from the writer (Queue.put)."""
    if getattr(ck, "_c35_layout", None) is not None:
        return ck._c35_layout
    put = ck.func(Q, "Queue.put")
    item = [p for p in put.params() if p != "self"][0]
    apps = [c for c in q.calls(put.node) if method_call_on(c, PUT, "append", "appendleft")]
    entry = apps[0].args[0] if len(apps) == 1 and len(apps[0].args) == 1 else None
    if isinstance(entry, ast.Name):  # a local bound once to the tuple
        defs = q.stores_to(put.node, entry.id)
        entry = defs[0].value if len(defs) == 1 and isinstance(defs[0], ast.Assign) else None
    if not isinstance(entry, ast.Tuple) or len(entry.elts) != 2:
        raise AnalysisError("%s: putter entry is not a 2-tuple" % put.site())
    elts = [q.dotted(e) for e in entry.elts]
    if item not in elts:
        raise AnalysisError("%s: putter entry does not contain the item" % put.site())
    i = elts.index(item)
    lay = {"item": i, "future": 1 - i, "future_name": elts[1 - i], "call": apps[0]}
    ck._c35_layout = lay
    return lay


# ---------------------------------------------------------------------------
# accounting


def _is_put_internal(c):
    return isinstance(c, ast.Call) and isinstance(c.func, ast.Attribute) and q.dotted(c.func.value) == "self" and c.func.attr.endswith("__put_internal")


def _acct(fi):
    """Per CFG node: (items stored, tasks counted, finished-event clears).  A call of
    __put_internal contributes (1, 1, 1) (its own body is checked separately); inlined
    statements contribute individually, so an inlined copy of the helper is still decided."""
    out = {}

    def add(nid, i, k=1):
        t = list(out.get(nid, (0, 0, 0)))
        t[i] += k
        out[nid] = tuple(t)

    for nd, c in own_find(fi, lambda x: isinstance(x, ast.Call)):
        if _is_put_internal(c):
            add(nd.id, 0); add(nd.id, 1); add(nd.id, 2)
        elif method_call_on(c, "self", "_put"):
            add(nd.id, 0)
        elif method_call_on(c, FIN, "clear"):
            add(nd.id, 2)
    for nd in fi.cfg.stmt_nodes(lambda nd: nd.kind == "stmt"):
        d = aug_delta(nd.ast, UNF) if not isinstance(nd.ast, q.ScopeNode) else None
        if d is not None and d > 0:
            add(nd.id, 1, d)
    return out


def _store_sites(fi):
    return own_find(fi, lambda x: _is_put_internal(x) or method_call_on(x, "self", "_put"))


def check_accounting(ck):
    pi = ck.func(Q, "Queue.__put_internal")
    item = [p for p in pi.params() if p != "self"]
    puts = node_counts(pi, lambda x: method_call_on(x, "self", "_put") and len(x.args) == 1 and item and q.dotted(x.args[0]) == item[0])
    incs = {}
    for nd in pi.cfg.stmt_nodes(lambda nd: nd.kind == "stmt"):
        d = aug_delta(nd.ast, UNF)
        if d is not None:
            incs[nd.id] = d
    clears = node_counts(pi, lambda x: method_call_on(x, FIN, "clear"))
    normal, _ = exit_states(pi.cfg, (0, 0, 0), lambda nd, v: (min(2, v[0] + puts.get(nd.id, 0)), max(-2, min(2, v[1] + incs.get(nd.id, 0))), min(2, v[2] + clears.get(nd.id, 0))))
    ck.floor("C35.accounting", len(normal), 1, "exit states of __put_internal")
    for _f, (p, i, c) in normal:
        ck.ob("C35.accounting", pi, pi.node, (p, i) == (1, 1) and c >= 1, "__put_internal stores the item once, counts one unfinished task and clears the finished event (puts=%d counted=%d cleared=%d)" % (p, i, c),
              construct="exit puts=%d counted=%d cleared=%d" % (p, i, c))
    # every other place that stores an item / counts a task / touches the event keeps the three in step
    n = 0
    for f in ck.repo.methods(Q, "Queue") + ck.repo.methods(Q, "PriorityQueue") + ck.repo.methods(Q, "LifoQueue"):
        if f is pi or f.name == "__init__" or not isinstance(f.node, q.FuncNode):
            continue
        for st in q.stores_to(f.node, UNF):
            d = aug_delta(st, UNF)
            if d is not None and d < 0:
                ck.ob("C35.accounting", f, st, f.name == "task_done", "the unfinished-task count is decremented only by task_done")
        for c in q.calls(f.node):
            if method_call_on(c, FIN, "set"):
                ck.ob("C35.accounting", f, c, f.name == "task_done", "the finished event is set only by task_done (and the constructor)")
        ac = _acct(f)
        if not ac or f.name == "task_done" and not any(v[0] or v[1] for v in ac.values()):
            continue
        n += 1
        normal, _ = exit_states(f.cfg, (0, 0, 0), lambda nd, v, ac=ac: tuple(min(2, a + b) for a, b in zip(v, ac.get(nd.id, (0, 0, 0)))))
        for _f, (p_, c_, k_) in normal:
            ck.ob("C35.accounting", f, f.node, c_ == (1 if (p_ or c_) else 0) and p_ <= 1 and (k_ >= 1 if c_ else True),
                  "on every normal path of %s an item that enters the queue or is handed over is counted exactly once as an unfinished task and the finished event is cleared (stored=%d counted=%d cleared=%d)" % (f.name, p_, c_, k_),
                  construct="exit stored=%d counted=%d cleared=%d" % (p_, c_, k_))
    ck.floor("C35.accounting", n, 1, "methods that account for items")
    init = ck.func(Q, "Queue.__init__")
    z = [st for st in q.stores_to(init.node, UNF) if q.is_const(getattr(st, "value", None), 0)]
    sets = [c for c in q.calls(init.node) if method_call_on(c, FIN, "set")]
    ck.ob("C35.accounting", init, init.node, len(z) == 1 and len(sets) == 1, "a new queue has no unfinished tasks and its finished event is set", construct="initial accounting")


def check_task_done(ck):
    td = ck.func(Q, "Queue.task_done")
    cfg = td.cfg
    facts = must_facts(cfg)
    decs = {}
    for nd in cfg.stmt_nodes(lambda nd: nd.kind == "stmt"):
        d = aug_delta(nd.ast, UNF)
        if d is not None:
            decs[nd.id] = d
    ck.floor("C35.task-done", len(decs), 1, "decrements in task_done")
    for nd in cfg.stmt_nodes(lambda nd: nd.id in decs):
        ms = guard_models(facts[nd.id], [UNF], range(-2, 5))
        ck.ob("C35.task-done", td, nd.ast, decs[nd.id] == -1 and all(v > 0 for (v,) in ms), "task_done decrements by one and only while unfinished tasks remain (guard admits %s)" % sorted(v for (v,) in ms))
    raises = [r for r in own_walk(td.node) if isinstance(r, ast.Raise)]
    ck.ob("C35.task-done", td, td.node, any((q.dotted(r.exc.func if isinstance(r.exc, ast.Call) else r.exc) or "") == "ValueError" for r in raises), "an extra task_done raises ValueError", construct="raises ValueError")
    sets = own_find(td, lambda x: method_call_on(x, FIN, "set"))
    ck.floor("C35.task-done", len(sets), 1, "finished.set() sites in task_done")
    for nd, c in sets:
        ms = guard_models(facts[nd.id], [UNF], range(-2, 5))
        ck.ob("C35.task-done", td, c, all(v == 0 for (v,) in ms), "join is released only when the count reached zero (guard admits %s)" % sorted(v for (v,) in ms))
    sc = node_counts(td, lambda x: any(x is c for _, c in sets))
    dc = {k: 1 for k in decs}
    zero = "%s == 0" % UNF

    def edge(nd, kind, v):
        d, s, z = v
        if nd.kind == "test" and kind in ("true", "false") and d:
            ms = guard_models([canon_fact(nd.ast, kind == "true")], [UNF], range(-2, 5))
            if ms and all(m == (0,) for m in ms):
                z = True
            elif (0,) not in ms:
                z = False
        return (d, s, z)

    normal, _ = exit_states(cfg, (0, 0, None), lambda nd, v: (min(2, v[0] + dc.get(nd.id, 0)), min(2, v[1] + sc.get(nd.id, 0)), v[2]), edge_transfer=edge)
    for _f, (d, s, z) in normal:
        if d != 1:
            ck.ob("C35.task-done", td, td.node, False, "every normal return of task_done consumed exactly one task (decrements=%d)" % d, construct="exit decrements=%d" % d)
        elif z is None:
            ck.ob("C35.task-done", td, td.node, False, "after the decrement the count is compared with zero", construct="exit zero-test missing sets=%d" % s)
        else:
            ck.ob("C35.task-done", td, td.node, s == (1 if z else 0), "the finished event is set exactly when the count reached zero (zero=%s sets=%d)" % (z, s), construct="exit zero=%s sets=%d" % (z, s))
    jn = ck.func(Q, "Queue.join")
    tp = [p for p in jn.params() if p != "self"]
    rets = [r for r in own_walk(jn.node) if isinstance(r, ast.Return)]
    ok = len(rets) == 1 and method_call_on(rets[0].value, FIN, "wait") and len(tp) == 1 and q.dotted(q.arg(rets[0].value, 0, "timeout")) == tp[0]
    ck.ob("C35.task-done", jn, jn.node, ok, "join waits on the finished event with the caller's timeout", construct="join delegation")
    init = ck.func(Q, "Queue.__init__")
    ev = [st for st in q.stores_to(init.node, FIN) if isinstance(getattr(st, "value", None), ast.Call) and q.dotted(st.value.func) == "Event"]
    ck.ob("C35.task-done", init, init.node, len(ev) == 1, "the finished event is a locks.Event", construct="finished is Event")


# ---------------------------------------------------------------------------
# put_nowait / get_nowait / put / get typestates


def _pop_binding(fi, cont):
    """(node ids, names bound) of `x = cont.popleft()` / `a, b = cont.popleft()`."""
    out = []
    for nd, c in own_find(fi, lambda x: method_call_on(x, cont, "popleft", "pop")):
        if nd.kind == "stmt" and isinstance(nd.ast, ast.Assign) and nd.ast.value is c and len(nd.ast.targets) == 1:
            t = nd.ast.targets[0]
            if isinstance(t, ast.Name):
                out.append((nd, c, [t.id]))
                continue
            if isinstance(t, ast.Tuple) and all(isinstance(e, ast.Name) for e in t.elts):
                out.append((nd, c, [e.id for e in t.elts]))
                continue
        raise AnalysisError("%s: popped waiter not bound to locals" % fi.site(c))
    return out


def _consumed_extra_ok(fi, popped_names):
    """SETTLE w5 (container take): the future was just removed from a waiter queue
    whose finished heads were purged by a dominating _consume_expired() with no
    suspension in between."""
    facts = event_facts(fi, {"consumed": node_calls("self._consume_expired")}, {"consumed": lambda nd: nd.suspends}, cond_facts=False)

    def ok(node, c, p, f):
        return p in popped_names and ("@consumed", True) in facts[node.id]

    return ok


def _is_taken_item(fi, v):
    """``v`` is ``self._get()`` or a local bound exactly once, to ``self._get()``."""
    if method_call_on(v, "self", "_get"):
        return True
    if isinstance(v, ast.Name):
        defs = q.stores_to(fi.node, v.id)
        return len(defs) == 1 and isinstance(defs[0], ast.Assign) and method_call_on(defs[0].value, "self", "_get")
    return False


def check_nowait(ck):
    lay = _putter_layout(ck)
    # ---- put_nowait
    fi = ck.func(Q, "Queue.put_nowait")
    cfg = fi.cfg
    item = [p for p in fi.params() if p != "self"][0]
    pops = _pop_binding(fi, GET)
    ck.floor("C35.put-nowait", len(pops), 1, "getter removals in put_nowait")
    getter_names = {nm for _, _, names in pops for nm in names}
    ac = _acct(fi)
    pi = {k: v[0] for k, v in ac.items() if v[0]}
    gi = node_counts(fi, lambda x: method_call_on(x, "self", "_get"))
    po = {nd.id: 1 for nd, _, _ in pops}
    ss = own_settle_sites(fi)
    si = node_counts(fi, lambda x: any(x is s[1] for s in ss))

    # value: (stored, taken, getters popped, settled, counted, cleared, not-full known, stored-while-possibly-full)
    def tr(nd, v):
        a = ac.get(nd.id, (0, 0, 0))
        bad = v[7] or (a[0] > 0 and v[2] == 0 and not v[6])
        return (min(2, v[0] + a[0]), min(2, v[1] + gi.get(nd.id, 0)), min(2, v[2] + po.get(nd.id, 0)), min(2, v[3] + si.get(nd.id, 0)), min(2, v[4] + a[1]), min(2, v[5] + a[2]), v[6], bad)

    def ed(nd, kind, v):
        if nd.kind == "test" and kind in ("true", "false"):
            t, pol = canon_fact(nd.ast, kind == "true")
            if t == "self.full()" and not pol:
                v = v[:6] + (True, v[7])
        return v

    Z = (0, 0, 0, 0, 0, 0, False, False)
    Zn, trn, edn = with_nullness(Z, tr, ed)
    normal, _ = exit_states(cfg, Zn, trn, edge_transfer=edn)
    normal = sorted({(f_, v_[0]) for f_, v_ in normal}, key=repr)
    ck.floor("C35.put-nowait", len(normal), 2, "normal exit states of put_nowait")
    for _f, vv in normal:
        v = vv[:6]
        ck.ob("C35.put-nowait", fi, fi.node, not vv[7], "an item is stored without handing one to a getter only when the queue is known not full (never more than maxsize items)", construct="exit stored-while-possibly-full=%s" % vv[7])
        shape = v[:4]
        ok = shape in ((1, 0, 0, 0), (1, 1, 1, 1), (0, 0, 1, 1)) and v[4] == 1 and v[5] >= 1
        ck.ob("C35.put-nowait", fi, fi.node, ok,
              "put_nowait counts the item once (clearing the finished event) and either stores it, or stores it and hands one queued item to exactly one popped getter, or hands it to that getter directly (stored=%d taken=%d getters=%d settled=%d counted=%d cleared=%d)" % v,
              construct="exit stored=%d taken=%d getters=%d settled=%d counted=%d cleared=%d" % v)
    for nd, c in _store_sites(fi):
        ck.ob("C35.put-nowait", fi, c, len(c.args) == 1 and q.dotted(c.args[0]) == item, "the stored item is the caller's item")
    facts = must_facts(cfg)
    # raise QueueFull: nothing stored before
    from ..cfg import explore
    seen = explore(cfg, Zn, trn, lambda t: False, edge_transfer=edn, follow_exc=False)
    raises = [nd for nd in cfg.stmt_nodes(lambda nd: nd.kind == "stmt" and isinstance(nd.ast, ast.Raise))]
    ck.ob("C35.put-nowait", fi, fi.node, len(raises) >= 1, "put_nowait has a reachable QueueFull path", construct="raises QueueFull")
    for nd in raises:
        for _f, v in sorted(seen.get(nd.id, ()), key=repr):
            ck.ob("C35.put-nowait", fi, nd.ast, v[0][:6] == Z[:6], "QueueFull is raised before anything was stored, counted or anyone was woken")
        ck.ob("C35.put-nowait", fi, nd.ast, holds(facts[nd.id], "self.full()", True) and (q.dotted(nd.ast.exc.func if isinstance(nd.ast.exc, ast.Call) else nd.ast.exc) == "QueueFull"), "QueueFull is raised only when full()")
    # direct store only when not full; hand-over only when a getter waits; store precedes take
    stored = event_facts(fi, {"stored": lambda nd: nd.id in pi}, cond_facts=False)
    for nd, c in own_find(fi, lambda x: method_call_on(x, "self", "_get")):
        ck.ob("C35.put-nowait", fi, c, ("@stored", True) in stored[nd.id], "the item handed to a getter is taken after the new item was stored")
    for nd, c, names in pops:
        ck.ob("C35.put-nowait", fi, c, holds(facts[nd.id], GET, True), "a getter is popped only from a non-empty getter queue")
    for s in ss:
        v = _grant_value(s[1]) if _is_grant(s[1]) else None
        ck.ob("C35.put-nowait", fi, s[1], s[2] in getter_names and v is not None and (_is_taken_item(fi, v) or q.dotted(v) == item), "the popped getter receives an item taken from the queue (or the new item itself)")
    check_settles(ck, "C35.settle", fi, allow_safe_unguarded=False, extra_ok=_consumed_extra_ok(fi, getter_names))

    # ---- get_nowait
    fi = ck.func(Q, "Queue.get_nowait")
    cfg = fi.cfg
    pops = _pop_binding(fi, PUT)
    ck.floor("C35.get-nowait", len(pops), 1, "putter removals in get_nowait")
    ac = _acct(fi)
    gi = node_counts(fi, lambda x: method_call_on(x, "self", "_get"))
    po = {nd.id: 1 for nd, _, _ in pops}
    ss = own_settle_sites(fi)
    si = node_counts(fi, lambda x: any(x is s[1] for s in ss))

    # value: (stored, taken, putters popped, settled, counted, cleared, non-empty known, taken-from-possibly-empty)
    def tr(nd, v):
        a = ac.get(nd.id, (0, 0, 0))
        g = gi.get(nd.id, 0)
        bad = v[7] or (g > 0 and v[0] + a[0] == 0 and not v[6])
        return (min(2, v[0] + a[0]), min(2, v[1] + g), min(2, v[2] + po.get(nd.id, 0)), min(2, v[3] + si.get(nd.id, 0)), min(2, v[4] + a[1]), min(2, v[5] + a[2]), v[6], bad)

    def ed(nd, kind, v):
        if nd.kind == "test" and kind in ("true", "false"):
            t, pol = canon_fact(nd.ast, kind == "true")
            if (t in ("self.qsize()", QUEUE) and pol) or (t == "self.empty()" and not pol) or (t in ("self.qsize() > 0", "len(self._queue)") and pol):
                v = v[:6] + (True, v[7])
        return v

    Zn, trn, edn = with_nullness(Z, tr, ed)
    normal, _ = exit_states(cfg, Zn, trn, edge_transfer=edn)
    normal = sorted({(f_, v_[0]) for f_, v_ in normal}, key=repr)
    ck.floor("C35.get-nowait", len(normal), 2, "normal exit states of get_nowait")
    for _f, vv in normal:
        v = vv[:6]
        ck.ob("C35.get-nowait", fi, fi.node, not vv[7], "an item is taken only after a waiting putter's item was stored or from a queue known to be non-empty", construct="exit taken-from-possibly-empty=%s" % vv[7])
        ok = (v[:5] == (0, 1, 0, 0, 0)) or (v[:5] == (1, 1, 1, 1, 1) and v[5] >= 1)
        ck.ob("C35.get-nowait", fi, fi.node, ok, "get_nowait takes exactly one item; if a putter waited, its item is stored and counted and it is woken, exactly once (stored=%d taken=%d putters=%d settled=%d counted=%d cleared=%d)" % v,
              construct="exit stored=%d taken=%d putters=%d settled=%d counted=%d cleared=%d" % v)
    facts = must_facts(cfg)
    for nd, c, names in pops:
        if len(names) != 2:
            raise AnalysisError("%s: putter entry not unpacked into two locals" % fi.site(c))
        it, fu = names[lay["item"]], names[lay["future"]]
        ck.ob("C35.get-nowait", fi, c, holds(facts[nd.id], PUT, True), "a putter is popped only from a non-empty putter queue")
        for nd2, c2 in _store_sites(fi):
            ck.ob("C35.layout", fi, c2, len(c2.args) == 1 and q.dotted(c2.args[0]) == it, "the item stored for a woken putter is the item slot of its entry (layout written by put: item at %d)" % lay["item"])
        for s in ss:
            v = _grant_value(s[1]) if _is_grant(s[1]) else None
            ck.ob("C35.layout", fi, s[1], s[2] == fu and v is not None and q.is_const(v, None), "the future woken is the future slot of the popped entry, resolved with None")
    rets = [nd for nd in cfg.stmt_nodes(lambda nd: nd.kind == "stmt" and isinstance(nd.ast, ast.Return))]
    for nd in rets:
        ck.ob("C35.get-nowait", fi, nd.ast, method_call_on(nd.ast.value, "self", "_get"), "get_nowait returns the item removed by _get()")
    raises = [nd for nd in cfg.stmt_nodes(lambda nd: nd.kind == "stmt" and isinstance(nd.ast, ast.Raise))]
    ck.ob("C35.get-nowait", fi, fi.node, len(raises) >= 1, "get_nowait has a reachable QueueEmpty path", construct="raises QueueEmpty")
    seen = explore(cfg, Zn, trn, lambda t: False, edge_transfer=edn, follow_exc=False)
    for nd in raises:
        for _f, v in sorted(seen.get(nd.id, ()), key=repr):
            ck.ob("C35.get-nowait", fi, nd.ast, v[0][:6] == Z[:6] and q.dotted(nd.ast.exc.func if isinstance(nd.ast.exc, ast.Call) else nd.ast.exc) == "QueueEmpty", "QueueEmpty is raised before anything was taken or anyone was woken")
    putter_names = {nm for _, _, names in pops for nm in names}
    check_settles(ck, "C35.settle", fi, allow_safe_unguarded=False, extra_ok=_consumed_extra_ok(fi, putter_names))


def _try_handler_for(fi, call):
    pm = q.parent_map(fi.node)
    tries = q.enclosing_try_handlers(pm, call)
    return tries[0] if tries else None


def check_blocking(ck):
    """Queue.put / Queue.get: try the non-blocking form, otherwise queue a fresh future (+timeout)."""
    lay = _putter_layout(ck)
    for name, nowait, cont, exc in (("put", "put_nowait", PUT, "QueueFull"), ("get", "get_nowait", GET, "QueueEmpty")):
        R = "C35.%s" % name
        fi = ck.func(Q, "Queue." + name)
        cfg = fi.cfg
        tparam = fi.params()[-1]
        calls = own_find(fi, lambda x: method_call_on(x, "self", nowait))
        ck.floor(R, len(calls), 1, "%s calls in %s" % (nowait, name))
        enqs = own_find(fi, lambda x: method_call_on(x, cont, "append", "appendleft", "insert"))
        ck.floor(R, len(enqs), 1, "waiter registrations in %s" % name)
        tmos = own_find(fi, lambda x: q.is_call(x, "_set_timeout"))
        ss = own_settle_sites(fi)
        rets = [r for r in own_walk(fi.node) if isinstance(r, ast.Return)]
        futs = {q.dotted(r.value) for r in rets if r.value is not None and q.dotted(r.value) is not None}
        if len(futs) != 1 or any(r.value is None for r in rets):
            raise AnalysisError("%s: cannot identify the returned future" % fi.site())
        fut = next(iter(futs))
        for r in rets:
            if q.dotted(r.value) is None:
                # something computed from the queued future is returned instead of the queued future itself
                v_ = r.value
                if q.is_call(v_, "typing.cast", "cast") and len(v_.args) == 2 and q.dotted(v_.args[1]) == fut:
                    continue
                other = False  # positive evidence: a same-module helper that can return something else than the future it is given
                if isinstance(v_, ast.Call) and isinstance(v_.func, ast.Name) and v_.func.id in fi.module.funcs:
                    hf = fi.module.funcs[v_.func.id]
                    idx_ = [i_ for i_, a_ in enumerate(v_.args) if q.dotted(a_) == fut]
                    if idx_ and idx_[0] < len(hf.params()):
                        hp = hf.params()[idx_[0]]
                        other = any(isinstance(x, ast.Return) and x.value is not None and q.dotted(x.value) != hp for x in own_walk(hf.node))
                if not other:
                    raise AnalysisError("%s: cannot identify the returned future" % fi.site(r))
                if any(isinstance(n, ast.Name) and n.id == fut for n in ast.walk(r.value)):
                    ck.ob(R, fi, r, False, "%s returns the very future it queued (a wrapper around it can time out while the queued waiter is still live, so an item or a slot is handed to an operation that already failed)" % name)
                else:
                    raise AnalysisError("%s: cannot identify the returned future" % fi.site(r))
        fresh = any(isinstance(getattr(st, "value", None), ast.Call) and q.call_attr(st.value) in ("Future", "_create_future") for st in q.stores_to(fi.node, fut))
        ck.ob(R, fi, fi.node, fresh, "%s returns a fresh future" % name, construct="future fresh")
        # the non-blocking attempt is protected by a handler for the matching exception, which does not re-raise
        for nd, c in calls:
            th = _try_handler_for(fi, c)
            hs = [h for h in (th[1] if th else []) if q.exc_is_caught(exc, q.handler_names(h))]
            ck.ob(R, fi, c, len(hs) >= 1, "%s() is attempted under a handler for %s" % (nowait, exc))
            if name == "put":
                item = [p for p in fi.params() if p != "self"][0]
                ck.ob(R, fi, c, len(c.args) == 1 and q.dotted(c.args[0]) == item, "put attempts put_nowait(item)")
        # exceptions raised by the *_nowait sibling
        sib = ck.func(Q, "Queue." + nowait)
        raised = {q.dotted(r.exc.func if isinstance(r.exc, ast.Call) else r.exc) for r in own_walk(sib.node) if isinstance(r, ast.Raise) and r.exc is not None}
        ck.ob(R, fi, fi.node, exc in raised, "%s raises %s, which %s handles" % (nowait, exc, name), construct="sibling raises " + exc)
        cc = node_counts(fi, lambda x: any(x is c for _, c in calls))
        ec = node_counts(fi, lambda x: any(x is c for _, c in enqs))
        tc = node_counts(fi, lambda x: any(x is c for _, c in tmos))
        sc = node_counts(fi, lambda x: any(x is s[1] for s in ss))

        def tr(nd, v, cc=cc, ec=ec, tc=tc, sc=sc):
            return (min(2, v[0] + cc.get(nd.id, 0)), min(2, v[1] + ec.get(nd.id, 0)), min(2, v[2] + tc.get(nd.id, 0)), min(2, v[3] + sc.get(nd.id, 0)))

        # completing the fresh local future cannot raise (verified: created in this function, nothing else in the
        # statement): drop those exception edges on a private CFG so that they do not look like a failed attempt
        from ..rules import fresh_cfg, event_created
        created = event_created(fi)
        pcfg = fresh_cfg(fi)
        if len(pcfg.nodes) != len(cfg.nodes) or any(a.ast is not b.ast or a.kind != b.kind for a, b in zip(pcfg.nodes, cfg.nodes)):
            raise AnalysisError("%s: CFG construction is not deterministic" % fi.site())

        def _pure_settle(nd):
            if nd.kind != "stmt" or not isinstance(nd.ast, ast.Expr) or not isinstance(nd.ast.value, ast.Call):
                return False
            c = nd.ast.value
            if not (isinstance(c.func, ast.Attribute) and c.func.attr == "set_result" and q.dotted(c.func.value) == fut):
                return False
            if not all(isinstance(a, (ast.Constant, ast.Name)) for a in c.args) or c.keywords:
                return False
            return ("@created:" + fut, True) in created[nd.id]

        pcfg.drop_exc_edges(_pure_settle)
        normal, _ = exit_states(pcfg, (0, 0, 0, 0), tr, follow_exc=True)
        ck.floor(R, len(normal), 2, "normal exit states of %s" % name)
        for _f, (a, e, t, s) in normal:
            # a == 1: the non-blocking attempt completed (no exception); a == 0: it raised into the handler
            if a == 1:
                ok = (e, t, s) == (0, 0, 1)
                what = "when %s succeeds the future is completed at once and nothing is queued" % nowait
            else:
                ok = (e, t, s) == (1, 1, 0)
                what = "when %s raises %s the pending future is queued once with its timeout and not completed" % (nowait, exc)
            ck.ob(R, fi, fi.node, ok, "%s (attempt-completed=%d queued=%d timeouts=%d settled=%d)" % (what, a, e, t, s), construct="exit attempt=%d queued=%d timeouts=%d settled=%d" % (a, e, t, s))
        for nd, c in enqs:
            ck.ob(R, fi, c, c.func.attr == "append", "a blocked %ster joins the tail of the queue" % name)
            if name == "get":
                ck.ob(R, fi, c, len(c.args) == 1 and q.dotted(c.args[0]) == fut, "the queued getter is the returned future")
            else:
                ck.ob("C35.layout", fi, c, lay["future_name"] == fut, "the queued putter entry carries the caller's item and the returned future")
        for nd, c in tmos:
            ck.ob(R, fi, c, q.dotted(q.arg(c, 0)) == fut and q.dotted(q.arg(c, 1)) == tparam, "the timeout is armed on the returned future with the caller's timeout")
        for s in ss:
            v = _grant_value(s[1]) if _is_grant(s[1]) else None
            if name == "get":
                src = v
                if isinstance(v, ast.Name):
                    defs = q.stores_to(fi.node, v.id)
                    if defs and all(isinstance(d, (ast.Assign, ast.AnnAssign)) and d.value is not None and method_call_on(d.value, "self", nowait) for d in defs):
                        src = defs[0].value
                ck.ob(R, fi, s[1], s[2] == fut and src is not None and method_call_on(src, "self", nowait), "get completes its future with the item from get_nowait()")
            else:
                ck.ob(R, fi, s[1], s[2] == fut and v is not None and q.is_const(v, None), "put completes its future with None")
        check_settles(ck, "C35.settle", fi, allow_safe_unguarded=False)
    # _set_timeout
    st = ck.func(Q, "_set_timeout")
    ps = st.params()
    tmo = own_find(st, lambda x: isinstance(x, ast.Call) and q.call_attr(x) == "add_timeout")
    if not tmo:
        wrapped = own_find(st, lambda x: isinstance(x, ast.Call) and q.call_attr(x) == "with_timeout" and any(q.dotted(a) == ps[0] for a in x.args))
        for nd_, c_ in wrapped:
            ck.ob("C35.timeout", st, c_, False, "the queued waiter itself is failed at the deadline (so that _consume_expired sees it done); gen.with_timeout only fails its wrapper and leaves the queued future pending")
        if wrapped or wrong_timer_api(ck, "C35.timeout", st, ps[1]):
            return
    ck.floor("C35.timeout", len(tmo), 1, "timers armed by _set_timeout")
    tc = node_counts(st, lambda x: any(x is c for _, c in tmo))
    tfact = "%s is None" % ps[1]
    normal, _ = exit_states(st.cfg, 0, lambda nd, v: min(2, v + tc.get(nd.id, 0)), track=lambda t: t == tfact)
    for facts, t in normal:
        none = (tfact, True) in facts
        ck.ob("C35.timeout", st, st.node, t == (0 if none else 1), "_set_timeout arms one timer iff a timeout was given (none=%s timers=%d)" % (none, t), construct="exit none=%s timers=%d" % (none, t))
    n = check_none_tests(ck, "C35.none-test", st, only=[ps[1]])
    ck.floor("C35.none-test", n, 1, "tests of the timeout in _set_timeout")
    check_timeout_cb(ck, st, ps[0], tmo, ps[1], R="C35.timeout", RS="C35.settle", expect="exc", val=None, safe_ok=False)


def check_waiter_fifo(ck):
    n = 0
    for attr in ("_getters", "_putters"):
        for u in container_uses(ck.repo, Q, ("Queue", "PriorityQueue", "LifoQueue"), attr):
            if u.kind == "method":
                n += 1
                if u.name in ("append", "popleft"):
                    ck.ob("C35.waiter-fifo", u.fi, u.call, True, "blocked getters/putters are served in arrival order (append / popleft)")
                elif u.name in ("pop", "appendleft", "insert", "remove", "extendleft", "rotate", "reverse", "clear", "extend", "sort"):
                    ck.ob("C35.waiter-fifo", u.fi, u.call, False, "only append/popleft may modify self.%s; found .%s()" % (attr, u.name))
                elif u.name not in ("copy", "count", "index"):
                    raise AnalysisError("%s: unknown method %s on self.%s" % (u.fi.site(u.node), u.name, attr))
            elif u.kind == "store":
                ck.ob("C35.waiter-fifo", u.fi, u.node, u.fi.qualname == "Queue.__init__", "self.%s is bound only by the constructor" % attr)
            elif u.kind == "index":
                ck.ob("C35.waiter-fifo", u.fi, u.node, q.is_const(u.node.slice, 0) and u.fi.qualname == "Queue._consume_expired", "only the head of self.%s is peeked at, by _consume_expired" % attr)
    ck.floor("C35.waiter-fifo", n, 6, "operations on the waiter queues")


def run(ck):
    ck._orig_repo = getattr(ck, "_orig_repo", None) or ck.repo
    ck.repo = normalized(ck.repo, NORM_MODULES, only=('tornado/queues.py', 'tornado/locks.py'))  # alias / named-boolean / temporary / setter-helper normalisation (vt/x_syncnorm.py)
    ck.rule("C35.order", "each queue class pairs its _put/_get container operations according to its discipline (append/popleft, heappush/heappop, append/pop()); nothing else touches the item container")
    ck.rule("C35.full", "full() == (maxsize > 0 and qsize >= maxsize) for all small maxsize/qsize (body folded exhaustively); the bound is fixed")
    ck.rule("C35.expired", "_consume_expired() precedes every look at the getter/putter queues in *_nowait; it removes only heads whose future is done(), from both queues, with no other effect")
    ck.rule("C35.accounting", "__put_internal is the only caller of _put; it stores once, counts once, clears the finished event; the counter/event have no other writers")
    ck.rule("C35.task-done", "task_done raises at zero, decrements by one, sets the finished event exactly when zero is reached; join waits on that event")
    ck.rule("C35.put-nowait", "put_nowait: store once (directly only when not full) and, if a getter waits, hand exactly one item (taken after the store) to exactly one popped getter; QueueFull before any effect")
    ck.rule("C35.get-nowait", "get_nowait: take exactly one item (from a non-empty queue); if a putter waits its item is stored and it is woken exactly once; QueueEmpty before any effect")
    ck.rule("C35.put", "put: fresh future; put_nowait under a QueueFull handler; success -> completed with None; full -> queued at the tail with the timeout, not completed")
    ck.rule("C35.get", "get: fresh future; get_nowait under a QueueEmpty handler; success -> completed with the item; empty -> queued at the tail with the timeout")
    ck.rule("C35.layout", "the (item, future) layout of putter entries agrees between put (writer), get_nowait and _consume_expired (readers)")
    ck.rule("C35.none-test", "_set_timeout compares the timeout with None by identity (timeout=0 is a legal, immediate timeout)")
    ck.rule("C35.cancel-aware", "any result()/exception() read of a getter/putter future in queues.py is cancel-aware (a cancelled waiter must not raise CancelledError out of an unrelated put/get)")
    ck.rule("C35.timeout", "_set_timeout arms one timer iff a timeout is given; its callback fails a live future with TimeoutError exactly once and does nothing else")
    ck.rule("C35.waiter-fifo", "the getter/putter queues are modified only by append and popleft; only _consume_expired peeks at the head")
    ck.rule("C35.settle", "every settle of a getter/putter future is on a fresh future, under not done(), or on the head popped after a dominating _consume_expired() with no suspension in between")

    check_order(ck)
    check_full(ck)
    check_expired(ck)
    check_accounting(ck)
    check_task_done(ck)
    check_nowait(ck)
    check_blocking(ck)
    check_waiter_fifo(ck)
    # join()/task_done() go through locks.Event: its wake-up loop must not settle a waiter that is already done but still
    # registered (*_unless_cancelled only excludes cancelled futures) — otherwise task_done() raises and later joins hang
    es = ck.func("tornado/locks.py", "Event.set")
    k_ = check_settles(ck, "C35.settle", es, allow_safe_unguarded=False)
    ck.floor("C35.settle", k_, 1, "settle sites in Event.set (the queue's finished event)")
    for fi in list(ck.repo.module(Q).funcs.values()):
        if isinstance(fi.node, q.FuncNode):
            check_outcome_reads(ck, "C35.cancel-aware", fi)


# ---------------------------------------------------------------------------


def _in(qn, edit, rel=Q):
    return lambda repo: mutate(repo, rel, qn, edit)


def _swap_tuple(root):
    for n in ast.walk(root):
        if isinstance(n, ast.Call) and isinstance(n.func, ast.Attribute) and n.func.attr == "append" and n.args and isinstance(n.args[0], ast.Tuple):
            n.args[0].elts.reverse()
            return True
    return False


def _get_before_put(root):
    """put_nowait getter branch: take the item for the getter before storing the new one"""
    for node in ast.walk(root):
        body = getattr(node, "body", None)
        if isinstance(body, list):
            for i, st in enumerate(body[:-1]):
                if isinstance(st, ast.Expr) and "put_internal" in ast.unparse(st) and "_get()" in ast.unparse(body[i + 1]):
                    body[i], body[i + 1] = body[i + 1], body[i]
                    return True
    return False


MUTANTS = [
    ("the finished event wakes join() waiters with *_unless_cancelled, no done() test (seeded C35-adv6)", lambda repo: mutate(repo, "tornado/locks.py", "Event.set", replace_stmt(lambda st: isinstance(st, ast.If) and "done()" in ast.unparse(st.test), lambda st: [parse_stmt("future_set_result_unless_cancelled(fut, None)")])), "C35.settle"),
    ("_consume_expired skips the purge while no timed waiter was registered (seeded C35-adv4)", _in("Queue._consume_expired", lambda root: (root.body.insert(0, parse_stmt("if not getattr(self, '_timed_waiters', 0):\n    return")) or True)), "C35.expired"),
    ("_consume_expired reads .exception() of purged waiters (seeded C35-adv3)", _in("Queue._consume_expired", replace_stmt(lambda st: isinstance(st, ast.Expr) and "_getters.popleft" in ast.unparse(st), lambda st: [ast.Expr(value=parse_expr("self._getters.popleft().exception()"))])), "C35.cancel-aware"),
    ("get_nowait re-raises the woken putter's outcome (putter.result() unguarded)", _in("Queue.get_nowait", replace_stmt(lambda st: isinstance(st, ast.Expr) and "future_set_result_unless_cancelled" in ast.unparse(st), lambda st: [st, parse_stmt("putter.result()")])), "C35.cancel-aware"),
    ("_consume_expired removes only one expired waiter per queue (while -> if)", _in("Queue._consume_expired", lambda root: _while_to_if(root)), "C35.expired"),
    ("Queue(maxsize=0) rejected (maxsize <= 0)", _in("Queue.__init__", _cmp_op(ast.Lt, ast.LtE)), "C35.full"),
    ("put_nowait hands the item to the getter and counts it inline but never clears the finished event (seeded C35-adv1)", _in("Queue.put_nowait", lambda root: _inline_handoff(root, clear=False)), ("C35.put-nowait", "C35.accounting")),
    ("get_nowait stores the putter's item with _put and forgets to count it", _in("Queue.get_nowait", replace_expr(lambda n: _is_put_internal(n), lambda n: ast.Call(func=ast.Attribute(value=ast.Name(id="self", ctx=ast.Load()), attr="_put", ctx=ast.Load()), args=n.args, keywords=[]))), ("C35.get-nowait", "C35.accounting")),
    ("get/put(timeout=0) wait forever (`if timeout:` in _set_timeout)", _in("_set_timeout", replace_expr(lambda n: isinstance(n, ast.Compare) and isinstance(n.ops[0], ast.IsNot) and ast.unparse(n.left) == "timeout", lambda n: n.left)), ("C35.none-test", "C35.timeout")),
    ("put_nowait does not purge expired getters", _in("Queue.put_nowait", remove_stmts(lambda st: "_consume_expired" in ast.unparse(st))), ("C35.expired", "C35.settle")),
    ("get_nowait does not purge expired putters", _in("Queue.get_nowait", remove_stmts(lambda st: "_consume_expired" in ast.unparse(st))), ("C35.expired", "C35.settle")),
    ("put_nowait stores without accounting (_put instead of __put_internal)", _in("Queue.put_nowait", replace_expr(lambda n: _is_put_internal(n), lambda n: ast.Call(func=ast.Attribute(value=ast.Name(id="self", ctx=ast.Load()), attr="_put", ctx=ast.Load()), args=n.args, keywords=[]))), ("C35.accounting", "C35.put-nowait")),
    ("LifoQueue._get takes the oldest item (pop(0))", _in("LifoQueue._get", replace_expr(lambda n: isinstance(n, ast.Call) and q.call_attr(n) == "pop", lambda n: ast.Call(func=n.func, args=[ast.Constant(value=0)], keywords=[]))), "C35.order"),
    ("PriorityQueue._put appends instead of heappush", _in("PriorityQueue._put", replace_stmt(lambda st: "heappush" in ast.unparse(st), lambda st: [parse_stmt("self._queue.append(item)")])), "C35.order"),
    ("full() lets the queue grow to maxsize + 1 (>= -> >)", _in("Queue.full", _cmp_op(ast.GtE, ast.Gt)), "C35.full"),
    ("task_done tolerates one extra call (<= 0 -> < 0)", _in("Queue.task_done", _cmp_op(ast.LtE, ast.Lt)), "C35.task-done"),
    ("task_done releases join one task early (== 0 -> <= 1)", _in("Queue.task_done", replace_expr(lambda n: isinstance(n, ast.Compare) and isinstance(n.ops[0], ast.Eq), lambda n: ast.Compare(left=n.left, ops=[ast.LtE()], comparators=[ast.Constant(value=1)]))), "C35.task-done"),
    ("__put_internal forgets to clear the finished event", _in("Queue.__put_internal", remove_stmts(lambda st: "clear()" in ast.unparse(st))), "C35.accounting"),
    ("put_nowait serves the newest getter (pop)", _in("Queue.put_nowait", _rename_attr("popleft", "pop")), "C35.waiter-fifo"),
    ("put_nowait wakes a getter but stores nothing for it to take first", _in("Queue.put_nowait", _get_before_put), "C35.put-nowait"),
    ("put_nowait stores directly even when full (elif full() removed)", _in("Queue.put_nowait", replace_expr(lambda n: method_call_on(n, "self", "full"), lambda n: ast.Constant(value=False))), "C35.put-nowait"),
    ("get_nowait wakes the putter without storing its item", _in("Queue.get_nowait", remove_stmts(lambda st: isinstance(st, ast.Expr) and "put_internal" in ast.unparse(st))), "C35.get-nowait"),
    ("put queues (future, item) instead of (item, future)", _in("Queue.put", _swap_tuple), "C35.layout"),
    ("put forgets the timeout of a blocked putter", _in("Queue.put", remove_stmts(lambda st: isinstance(st, ast.Expr) and "_set_timeout" in ast.unparse(st))), "C35.put"),
    ("get completes the future even when it was queued (set_result moved out)", _in("Queue.get", replace_stmt(lambda st: isinstance(st, ast.Return), lambda st: [parse_stmt("future.set_result(None)"), st])), ("C35.get", "C35.settle")),
    ("_consume_expired drops live head getters", _in("Queue._consume_expired", replace_expr(lambda n: isinstance(n, ast.BoolOp) and "_getters" in ast.unparse(n), lambda n: n.values[0])), "C35.expired"),
    ("timeout callback fires on a finished future (guard removed)", _in("_set_timeout.<locals>.on_timeout", _drop_done_test), ("C35.settle", "C35.timeout")),
]


def _inline_handoff(root, clear):
    for node in ast.walk(root):
        body = getattr(node, "body", None)
        if isinstance(body, list):
            for i, st in enumerate(body[:-1]):
                if isinstance(st, ast.Expr) and "put_internal" in ast.unparse(st) and "_get()" in ast.unparse(body[i + 1]):
                    new = [parse_stmt("self._unfinished_tasks += 1")] + ([parse_stmt("self._finished.clear()")] if clear else []) + [parse_stmt("future_set_result_unless_cancelled(getter, item)")]
                    body[i:i + 2] = new
                    return True
    return False
