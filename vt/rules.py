"""Reusable rule shapes (MPT, SETTLE, take-and-clear, who-may-write, EXC).

Every helper records its obligations on the :class:`~vt.report.Check` it is
given and returns the number of governed sites it found, so that callers can
apply an instance floor.
"""
from __future__ import annotations

import ast
from typing import Callable, Dict, FrozenSet, Iterable, List, Optional, Sequence, Set, Tuple

from . import q
from .cfg import CFG, Node, Fact, canon_fact, must_facts, explore, holds, FactDB, default_kill
from .model import AnalysisError, FuncInfo, Repo
from .report import Check

NodePred = Callable[[Node], bool]
AstPred = Callable[[ast.AST], bool]


# ---------------------------------------------------------------------------
# site selection


def sites(fi: FuncInfo, pred: AstPred) -> List[Tuple[Node, ast.AST]]:
    """(cfg node, ast node) pairs in fi (own scope, reachable code)."""
    return fi.cfg.find(pred)


def call_sites(fi: FuncInfo, *names: str) -> List[Tuple[Node, ast.Call]]:
    return fi.cfg.find(lambda n: q.is_call(n, *names))


def node_has(pred: AstPred) -> NodePred:
    def f(n: Node) -> bool:
        if n.ast is None or n.kind not in ("stmt", "test", "for", "with"):
            return False
        from .cfg import _node_roots, _walk_root

        return any(pred(x) for root in _node_roots(n) for x in _walk_root(root))

    return f


def node_calls(*names: str) -> NodePred:
    return node_has(lambda x: q.is_call(x, *names))


def node_assigns(path: str, value: Optional[AstPred] = None) -> NodePred:
    """Node is an assignment statement to dotted ``path`` (optionally with a
    value satisfying ``value``)."""

    def f(n: Node) -> bool:
        if n.kind != "stmt" or not isinstance(n.ast, (ast.Assign, ast.AnnAssign, ast.AugAssign)):
            return False
        if path not in q.assigned_paths(n.ast):
            return False
        if value is None:
            return True
        v = n.ast.value
        return v is not None and value(v)

    return f


def is_true(e):
    return isinstance(e, ast.Constant) and e.value is True


def is_false(e):
    return isinstance(e, ast.Constant) and e.value is False


def is_none(e):
    return isinstance(e, ast.Constant) and e.value is None


# ---------------------------------------------------------------------------
# MPT: must-pass-through / dominance with kills


def event_facts(fi: FuncInfo, events: Dict[str, NodePred], kills: Optional[Dict[str, NodePred]] = None, cond_facts: bool = True, exc_gen: bool = False) -> Dict[int, FrozenSet[Fact]]:
    """Must-facts where each named event ``@name`` is generated at nodes matching
    its predicate and killed at nodes matching ``kills[name]``."""
    kills = kills or {}

    def gen(n: Node):
        return [("@" + name, True) for name, p in events.items() if p(n)]

    def kill(n: Node, f: Fact) -> bool:
        if f[0].startswith("@"):
            p = kills.get(f[0][1:])
            return bool(p and p(n))
        return False

    return must_facts(fi.cfg, gen_node=gen, kill_node=kill, cond_facts=cond_facts, exc_gen=exc_gen)


def require_before(ck: Check, rule: str, fi: FuncInfo, target: NodePred, event: NodePred, what: str, kill: Optional[NodePred] = None, exc_gen: bool = False) -> int:
    """Every reachable node matching ``target`` is preceded, on every path from
    entry, by a node matching ``event`` (not subsequently killed)."""
    facts = event_facts(fi, {"e": event}, {"e": kill} if kill else None, cond_facts=False, exc_gen=exc_gen)
    n = 0
    for node in fi.cfg.stmt_nodes(target):
        n += 1
        ck.ob(rule, fi, node.ast, ("@e", True) in facts[node.id], what)
    return n


def require_fact(ck: Check, rule: str, fi: FuncInfo, target: NodePred, cond: str, pol: bool, what: str, also: Sequence[Tuple[str, bool]] = ()) -> int:
    """At every node matching ``target`` the branch condition ``cond`` is known
    to be ``pol`` on every path (guard dominance, killed by re-assignment,
    mutation through calls on the same receiver, or suspension)."""
    facts = must_facts(fi.cfg)
    n = 0
    for node in fi.cfg.stmt_nodes(target):
        n += 1
        ok = holds(facts[node.id], cond, pol) or any(holds(facts[node.id], c, p) for c, p in also)
        ck.ob(rule, fi, node.ast, ok, what)
    return n


def facts_at(fi: FuncInfo) -> Dict[int, FrozenSet[Fact]]:
    return must_facts(fi.cfg)


def require_after(ck: Check, rule: str, fi: FuncInfo, start: NodePred, end: NodePred, what: str, exits: str = "normal", track: Optional[Callable[[str], bool]] = None, stop: Optional[NodePred] = None) -> int:
    """On every path from a node matching ``start`` to the function exit
    (``exits`` = 'normal' | 'all'), a node matching ``end`` occurs.  ``stop``
    nodes end the obligation without discharging (e.g. the flag is re-armed)."""
    cfg = fi.cfg
    starts = cfg.stmt_nodes(start)
    pending_at_exit: Dict[int, bool] = {}

    def transfer(n: Node, val):
        # val: frozenset of pending start-node ids
        if n.kind in ("exit", "rexit"):
            return val
        if val and (end(n) or (stop is not None and stop(n))):
            val = frozenset()
        if start(n):
            val = val | {n.id}
        return val

    seen = explore(cfg, frozenset(), transfer, track or (lambda t: False))
    bad: Set[int] = set()
    ex = [cfg.exit.id] + ([cfg.rexit.id] if exits == "all" else [])
    for e in ex:
        for facts, val in seen.get(e, ()):
            bad |= set(val)
    for s in starts:
        ck.ob(rule, fi, s.ast, s.id not in bad, what)
    return len(starts)


# ---------------------------------------------------------------------------
# SETTLE


SETTLE_SAFE_FUNCS = ("future_set_result_unless_cancelled", "future_set_exception_unless_cancelled", "future_set_exc_info")
SETTLE_RAW = ("set_result", "set_exception")


def settle_sites(fi: FuncInfo, fut: Optional[str] = None) -> List[Tuple[Node, ast.Call, str, str]]:
    """(node, call, future-path, kind) for every settle of a future in fi.
    kind: 'raw' (``F.set_result/set_exception``) or 'safe' (``*_unless_cancelled(F, ..)``)."""
    out = []
    for node, c in fi.cfg.find(lambda n: isinstance(n, ast.Call)):
        if isinstance(c.func, ast.Attribute) and c.func.attr in SETTLE_RAW:
            p = q.dotted(c.func.value)
            if p and (fut is None or p == fut):
                out.append((node, c, p, "raw"))
        else:
            nm = q.call_attr(c)
            if nm in SETTLE_SAFE_FUNCS and c.args:
                p = q.dotted(c.args[0])
                if p and (fut is None or p == fut):
                    out.append((node, c, p, "safe"))
    return out


def _created_locally(fi: FuncInfo, path: str) -> bool:
    """``path`` is assigned in fi from ``Future()``/``_create_future()``/``create_future()``."""
    for st in q.stores_to(fi.node, path):
        v = getattr(st, "value", None)
        if isinstance(v, ast.Call) and q.call_attr(v) in ("Future", "_create_future", "create_future"):
            return True
    return False


def check_settles(ck: Check, rule: str, fi: FuncInfo, fut: Optional[str] = None, allow_safe_unguarded: bool = True, extra_ok: Optional[Callable[[Node, ast.Call, str, FrozenSet[Fact]], bool]] = None) -> int:
    """SETTLE writes: every raw ``F.set_result/set_exception`` in ``fi`` must be
    (w2) under a dominating ``not F.done()`` guard, (w3) on a future created in
    the same function with no suspension in between, or accepted by ``extra_ok``.
    ``*_unless_cancelled`` forms are accepted when ``allow_safe_unguarded``."""
    facts = must_facts(fi.cfg)
    created = event_created(fi)
    n = 0
    for node, c, p, kind in settle_sites(fi, fut):
        n += 1
        f = facts[node.id]
        ok = False
        why = ""
        if holds(f, "%s.done()" % p, False):
            ok, why = True, "guarded by not %s.done()" % p
        elif ("@created:" + p, True) in created[node.id]:
            ok, why = True, "future created in this function, no suspension/escape since"
        elif kind == "safe" and allow_safe_unguarded:
            ok, why = True, "*_unless_cancelled form"
        elif extra_ok is not None and extra_ok(node, c, p, f):
            ok, why = True, "accepted idiom"
        ck.ob(rule, fi, c, ok, "settle of %s must be guarded (not done() / fresh future / take-and-clear)%s" % (p, (": " + why) if why else ""))
    return n


def event_created(fi: FuncInfo) -> Dict[int, FrozenSet[Fact]]:
    """Event facts ``@created:<path>`` — path was bound to a fresh Future in this
    function and no suspension point has been passed since."""

    def gen(n: Node):
        out = []
        if n.kind == "stmt" and isinstance(n.ast, (ast.Assign, ast.AnnAssign)):
            v = n.ast.value
            if isinstance(v, ast.Call) and q.call_attr(v) in ("Future", "_create_future", "create_future"):
                for p in q.assigned_paths(n.ast):
                    out.append(("@created:" + p, True))
        return out

    def kill(n: Node, f: Fact) -> bool:
        if not f[0].startswith("@created:"):
            return False
        p = f[0][len("@created:"):]
        if n.suspends:
            return True
        if n.kind == "stmt" and isinstance(n.ast, (ast.Assign, ast.AnnAssign, ast.AugAssign, ast.Delete)) and p in q.assigned_paths(n.ast):
            v = getattr(n.ast, "value", None)
            if not (isinstance(v, ast.Call) and q.call_attr(v) in ("Future", "_create_future", "create_future")):
                return True
        return False

    return must_facts(fi.cfg, gen_node=gen, kill_node=kill, cond_facts=False)


# ---------------------------------------------------------------------------
# take-and-clear


def check_take_and_clear(ck: Check, rule: str, fi: FuncInfo, attr_path: str, what: str, use: Optional[AstPred] = None) -> int:
    """Every *use* (call / settle / argument) of the value taken from
    ``attr_path`` (e.g. ``self._close_callback``) happens through a local alias,
    after ``attr_path`` was cleared (assigned None) on every path.  Direct calls
    ``self.attr(...)`` are violations.  Returns number of uses found."""
    cfg = fi.cfg
    aliases: Set[str] = set()

    def _pairs(st):
        """(target, value) pairs of an assignment, element-wise for tuple swaps
        (``cb, self._cb = self._cb, None``)."""
        out = []
        if isinstance(st, ast.Assign):
            for t in st.targets:
                if isinstance(t, (ast.Tuple, ast.List)) and isinstance(st.value, (ast.Tuple, ast.List)) and len(t.elts) == len(st.value.elts):
                    out.extend(zip(t.elts, st.value.elts))
                else:
                    out.append((t, st.value))
        elif isinstance(st, ast.AnnAssign) and st.value is not None:
            out.append((st.target, st.value))
        return out

    for n in q.walk_body(fi.node):
        for t, v in _pairs(n):
            if q.dotted(v) == attr_path:
                d = q.dotted(t)
                if d:
                    aliases.add(d)

    # walrus form: ``if (cb := self._cb) is not None: self._cb = None; cb()``
    for x in q.walk_local(fi.node):
        if isinstance(x, ast.NamedExpr) and q.dotted(x.value) == attr_path and isinstance(x.target, ast.Name):
            aliases.add(x.target.id)

    def _clears(n):
        return n.kind == "stmt" and any(q.dotted(t) == attr_path and is_none(v) for t, v in _pairs(n.ast))

    def _rearms(n):
        return n.kind == "stmt" and any(q.dotted(t) == attr_path and not is_none(v) for t, v in _pairs(n.ast))

    cleared = event_facts(fi, {"cleared": _clears}, {"cleared": _rearms}, cond_facts=False)
    cnt = 0

    def is_use(x: ast.AST) -> Optional[str]:
        if isinstance(x, ast.Call):
            d = q.dotted(x.func)
            if d == attr_path or d in aliases:
                return d
            if isinstance(x.func, ast.Attribute):
                r = q.dotted(x.func.value)
                if (r == attr_path or r in aliases) and x.func.attr in ("set_result", "set_exception", "cancel"):
                    return r
            for a in list(x.args) + [k.value for k in x.keywords]:
                d = q.dotted(a)
                if d == attr_path or d in aliases:
                    fn = q.call_attr(x)
                    if fn in PASS_THROUGH_CALLERS:
                        return d
        return None

    for node, x in cfg.find(lambda x: is_use(x) is not None):
        if use is not None and not use(x):
            continue
        d = is_use(x)
        cnt += 1
        ok = d in aliases and d != attr_path and ("@cleared", True) in cleared[node.id]
        ck.ob(rule, fi, x, ok, what)
    return cnt


PASS_THROUGH_CALLERS = {
    "add_callback", "run_callback", "_run_callback", "call_soon", "spawn_callback", "add_future", "future_add_done_callback",
    "future_set_result_unless_cancelled", "future_set_exception_unless_cancelled", "future_set_exc_info", "add_done_callback",
    "_signal_closed", "call_later", "add_timeout", "call_at",
}


# ---------------------------------------------------------------------------
# who-may-write / who-may-call


def writers_of(repo: Repo, relpath: str, clsname: str, attr: str, base: str = "self") -> List[Tuple[FuncInfo, ast.AST]]:
    out = []
    for fi in repo.methods(relpath, clsname):
        for st in q.stores_to(fi.node, base + "." + attr):
            out.append((fi, st))
    return out


def callers_of(repo: Repo, name: str, relpaths: Optional[Iterable[str]] = None) -> List[Tuple[FuncInfo, ast.Call]]:
    """All call sites ``….name(...)`` / ``name(...)`` in the given modules."""
    out = []
    mods = [repo.module(r) for r in relpaths] if relpaths else list(repo.modules.values())
    for m in mods:
        for fi in m.funcs.values():
            for n in q.walk_body(fi.node):
                if isinstance(n, ast.Call) and q.call_attr(n) == name:
                    out.append((fi, n))
    return out


def references_to(repo: Repo, name: str, relpaths: Optional[Iterable[str]] = None) -> List[Tuple[FuncInfo, ast.AST]]:
    """All loads of attribute/name ``name`` (calls and bound-method references)."""
    out = []
    mods = [repo.module(r) for r in relpaths] if relpaths else list(repo.modules.values())
    for m in mods:
        for fi in m.funcs.values():
            for n in q.walk_body(fi.node):
                if (isinstance(n, ast.Attribute) and n.attr == name) or (isinstance(n, ast.Name) and n.id == name):
                    out.append((fi, n))
    return out


# ---------------------------------------------------------------------------
# EXC: local exception protection


def check_protected(ck: Check, rule: str, fi: FuncInfo, node: ast.AST, exc: str, what: str, callers: Optional[Sequence[Tuple[FuncInfo, ast.AST]]] = None) -> bool:
    """``exc`` raised at ``node`` is caught inside ``fi`` — or, when ``callers``
    is given, at every listed call site of ``fi`` (one level of summary)."""
    pm = q.parent_map(fi.node)
    h = q.protected_by(pm, node, exc)
    ok = h is not None
    if not ok and callers:
        ok = True
        for cfi, cnode in callers:
            cpm = q.parent_map(cfi.node)
            if q.protected_by(cpm, cnode, exc) is None:
                ok = False
                break
    return ck.ob(rule, fi, node, ok, what)


def tainted_names(fi: FuncInfo, sources: Iterable[str], sanitizers: Iterable[str] = (), source_calls: Iterable[str] = ()) -> Set[str]:
    """Flow-insensitive taint closure over the local names/paths of ``fi``:
    a name is tainted if it is a source or is assigned from an expression
    mentioning a tainted name, unless the expression is a call to a sanitizer.
    ``source_calls``: dotted callee names (or ``.attr``) whose result is tainted."""
    tainted: Set[str] = set(sources)
    sanitizers = set(sanitizers)
    source_calls = tuple(source_calls)

    def expr_tainted(e: ast.AST) -> bool:
        if isinstance(e, ast.Call):
            nm = q.call_attr(e)
            if nm in sanitizers or q.dotted(e.func) in sanitizers:
                return False
            if source_calls and q.is_call(e, *source_calls):
                return True
        if isinstance(e, (ast.Name, ast.Attribute)):
            d = q.dotted(e)
            if d is not None:
                parts = d.split(".")
                for i in range(1, len(parts) + 1):
                    if ".".join(parts[:i]) in tainted:
                        return True
                return False
        if isinstance(e, ScopeTypes):
            return False
        return any(expr_tainted(c) for c in ast.iter_child_nodes(e))

    changed = True
    while changed:
        changed = False
        for n in q.walk_body(fi.node):
            tgts: List[ast.AST] = []
            val = None
            if isinstance(n, ast.Assign):
                tgts, val = n.targets, n.value
            elif isinstance(n, ast.AnnAssign) and n.value is not None:
                tgts, val = [n.target], n.value
            elif isinstance(n, ast.AugAssign):
                tgts, val = [n.target], n.value
            elif isinstance(n, (ast.For, ast.AsyncFor)):
                tgts, val = [n.target], n.iter
            elif isinstance(n, ast.NamedExpr):
                tgts, val = [n.target], n.value
            elif isinstance(n, (ast.With, ast.AsyncWith)):
                for it in n.items:
                    if it.optional_vars is not None and expr_tainted(it.context_expr):
                        for p in _target_paths(it.optional_vars):
                            if p not in tainted:
                                tainted.add(p)
                                changed = True
                continue
            if val is None or not expr_tainted(val):
                continue
            for t in tgts:
                for p in _target_paths(t):
                    if p not in tainted:
                        tainted.add(p)
                        changed = True
    return tainted


ScopeTypes = (ast.Lambda, ast.FunctionDef, ast.AsyncFunctionDef, ast.ClassDef)


def _target_paths(t: ast.AST) -> List[str]:
    if isinstance(t, (ast.Tuple, ast.List)):
        out = []
        for x in t.elts:
            out.extend(_target_paths(x))
        return out
    if isinstance(t, ast.Starred):
        return _target_paths(t.value)
    if isinstance(t, ast.Subscript):
        d = q.dotted(t.value)
        return [d] if d else []
    d = q.dotted(t)
    return [d] if d else []


def mentions(e: ast.AST, paths: Set[str]) -> bool:
    for n in ast.walk(e):
        if isinstance(n, (ast.Name, ast.Attribute)):
            d = q.dotted(n)
            if d:
                parts = d.split(".")
                for i in range(1, len(parts) + 1):
                    if ".".join(parts[:i]) in paths:
                        return True
    return False


def asserts_in(fi: FuncInfo) -> List[ast.Assert]:
    return [n for n in q.walk_body(fi.node) if isinstance(n, ast.Assert)]


def is_type_narrowing_assert(a: ast.Assert) -> bool:
    """``assert isinstance(x, T)`` / ``assert x is not None`` on non-wire values
    are typing aids; the caller still has to decide whether ``x`` is peer data."""
    t = a.test
    if isinstance(t, ast.Call) and q.call_attr(t) == "isinstance":
        return True
    if isinstance(t, ast.Compare) and len(t.ops) == 1 and isinstance(t.ops[0], (ast.IsNot, ast.Is)) and isinstance(t.comparators[0], ast.Constant) and t.comparators[0].value is None:
        return True
    return False


def trivial_context_manager(repo: Repo, relpath: str, clsname: str) -> bool:
    """``clsname`` is a context manager whose construction and ``__enter__``
    cannot raise: ``__init__`` only stores its arguments, ``__enter__`` is empty."""
    try:
        init = repo.func(relpath, clsname + ".__init__")
        enter = repo.func(relpath, clsname + ".__enter__")
        repo.func(relpath, clsname + ".__exit__")
    except AnalysisError:
        return False
    from .cfg import may_raise

    for st in init.node.body:
        if may_raise(st):
            return False
    for st in enter.node.body:
        if not isinstance(st, ast.Pass) and not (isinstance(st, ast.Expr) and isinstance(st.value, ast.Constant)):
            return False
    return True


def fresh_cfg(fi: FuncInfo) -> CFG:
    """A private CFG copy for rules that edit edges."""
    from .cfg import build

    return build(fi.node)
