"""Finite-domain abstract interpretation (partial evaluation) of one function body over the AST.

Static analysis only: no tornado code is imported or run, no solver is used.  A small
AST interpreter over *abstract stub values* — constants, ``Obj`` attribute bags,
``HeaderMap`` (case-normalising multimap stub) and ``UNK`` (the unknown/top value) —
partially evaluates the statements of a single function for one valuation of its
inputs, forks on branch conditions whose abstract value is unknown (both branches
are explored), and returns every path outcome (return / raise / fall-through) with
the final abstract state and the list of calls met on the path.  Rules enumerate a
finite input domain exhaustively (DESIGN.md §2.1 E2: "evaluates the guard expression
for every value of the domain by constant folding the AST, which is exhaustive").

Only a whitelist of pure builtin/str/dict operations is folded; every other call
evaluates to ``UNK`` (after its arguments were evaluated) and is recorded as an
event; methods of the same object are either interpreted inline (statement level)
or havocked by their statically computed mod-set; a header map handed to code that is
not interpreted becomes unknown.  Statement kinds that are not modelled raise
AnalysisError (fail closed).
"""
from __future__ import annotations

import ast
import copy
import re as _re
from typing import Callable, Dict, List, Optional, Tuple

from . import q
from .model import AnalysisError


class _Unk:
    def __repr__(self):
        return "UNK"

    def __deepcopy__(self, memo):
        return self

    def __copy__(self):
        return self


UNK = _Unk()


class Obj:
    """Attribute bag.  Missing attributes read as UNK (``getattr`` with a default
    returns the default)."""

    def __init__(self, _name="obj", **attrs):
        self._name = _name
        self.attrs = dict(attrs)

    def __repr__(self):
        return "<%s %r>" % (self._name, self.attrs)


def _norm(name):
    return "-".join(w.capitalize() for w in name.split("-")) if isinstance(name, str) else name


class HeaderMap:
    """Stub of HTTPHeaders: case-normalised keys, single value per key."""

    PURE = {"get", "get_all", "get_list", "items", "keys", "values", "copy"}

    def __init__(self, d=None):
        self.d = {}
        self.poisoned = False  # handed to code the evaluator does not model: content unknown
        for k, v in (d or {}).items():
            self.d[_norm(k)] = v

    def __contains__(self, k):
        return _norm(k) in self.d

    def __getitem__(self, k):
        return self.d[_norm(k)]

    def __setitem__(self, k, v):
        self.d[_norm(k)] = v

    def __delitem__(self, k):
        del self.d[_norm(k)]

    def get(self, k, default=None):
        return self.d.get(_norm(k), default)

    def __repr__(self):
        return "Headers%r" % (self.d,)


class Raised(Exception):
    def __init__(self, cls):
        self.cls = cls


class State:
    def __init__(self, env):
        self.frames = [env]  # call frames of inlined same-object methods; objects are shared between frames
        self.events: List[Tuple[str, tuple, ast.Call]] = []
        self.trace: List[int] = []
        self.last_kwargs: Dict[str, object] = {}

    @property
    def env(self):
        return self.frames[-1]

    def fork(self):
        n = State({})
        n.frames = copy.deepcopy(self.frames)  # one deepcopy: sharing between frames is preserved
        n.events = list(self.events)  # AST nodes are shared, not copied
        n.trace = list(self.trace)
        return n


class Outcome:
    def __init__(self, kind, value, state, node=None):
        self.kind = kind  # 'return' | 'raise' | 'fall'
        self.value = value
        self.state = state
        self.node = node

    def __repr__(self):
        return "<%s %r>" % (self.kind, self.value)


_STR_METHODS = {"lower", "upper", "strip", "lstrip", "rstrip", "startswith", "endswith", "split", "capitalize", "title", "find", "replace", "casefold", "partition"}
_BUILTINS = {"len": len, "min": min, "max": max, "int": int, "str": str, "bool": bool, "abs": abs}


class Evaluator:
    def __init__(self, funcs: Optional[Dict[str, Callable]] = None, on_call: Optional[Callable] = None, max_paths: int = 4000, modset: Optional[Callable] = None):
        self.funcs = funcs or {}
        self.on_call = on_call
        self.modset = modset  # dotted "self.m" -> set of self attributes the method may assign (None: not a method)
        self.private_funcs: set = set()  # module-level private functions of the analysed module: a call that is not interpreted makes the fold unfaithful
        self.globals: Dict[str, object] = {}  # module-level constants of the analysed module (names not bound locally)
        self.signatures: Dict[str, List[str]] = {}  # dotted callee -> parameter names, so that hooks see keyword arguments positionally
        self.max_unroll = 2  # bounded unrolling of `while` loops whose condition stays true/unknown
        self.handler_names: Callable = q.handler_names  # rules may resolve module-level tuple constants in `except` clauses
        self.fallback: Optional[Callable] = None  # (state, call ast, dotted, args) -> value | NotImplemented, for calls that are not interpreted
        self.inline: Optional[Callable] = None  # dotted "self.m" -> FunctionDef to interpret at statement level (else havoc by mod-set)
        self.depth = 0
        self.max_paths = max_paths
        self.paths = 0

    # -- expressions ---------------------------------------------------------------------
    def ev(self, e: ast.AST, st: State):
        if isinstance(e, ast.Constant):
            return e.value
        if isinstance(e, ast.Name):
            if e.id in st.env:
                return st.env[e.id]
            return self.globals.get(e.id, UNK)
        if isinstance(e, ast.Attribute):
            b = self.ev(e.value, st)
            if isinstance(b, Obj):
                return b.attrs.get(e.attr, UNK)
            if b is None:
                raise Raised("AttributeError")
            return UNK
        if isinstance(e, ast.Subscript):
            b = self.ev(e.value, st)
            if isinstance(e.slice, ast.Slice):
                lo = self.ev(e.slice.lower, st) if e.slice.lower is not None else None
                hi = self.ev(e.slice.upper, st) if e.slice.upper is not None else None
                sp = self.ev(e.slice.step, st) if e.slice.step is not None else None
                if isinstance(b, (str, bytes, tuple, list)) and all(x is None or isinstance(x, int) for x in (lo, hi, sp)):
                    return b[lo:hi:sp]
                if b is None:
                    raise Raised("TypeError")
                return UNK
            k = self.ev(e.slice, st)
            if b is UNK or k is UNK or isinstance(b, Obj) or (isinstance(b, HeaderMap) and b.poisoned):
                return UNK
            try:
                return b[k]
            except KeyError:
                raise Raised("KeyError")
            except IndexError:
                raise Raised("IndexError")
            except Exception:
                return UNK
        if isinstance(e, (ast.Tuple, ast.List)):
            vals = [self.ev(x, st) for x in e.elts]
            return tuple(vals) if isinstance(e, ast.Tuple) else list(vals)
        if isinstance(e, ast.Set):
            vals = [self.ev(x, st) for x in e.elts]
            return UNK if any(v is UNK for v in vals) else frozenset(vals)
        if isinstance(e, ast.BoolOp):
            is_and = isinstance(e.op, ast.And)
            unk = False
            last = None
            for v in e.values:
                x = self.ev(v, st)
                if x is UNK:
                    unk = True
                    continue
                last = x
                if is_and and not x:
                    return x
                if not is_and and x:
                    return x
            return UNK if unk else last
        if isinstance(e, ast.UnaryOp):
            v = self.ev(e.operand, st)
            if v is UNK:
                return UNK
            if isinstance(e.op, ast.Not):
                return not v
            if isinstance(e.op, ast.USub):
                return -v
            return UNK
        if isinstance(e, ast.IfExp):
            t = self.ev(e.test, st)
            if t is UNK:
                a, b = self.ev(e.body, st), self.ev(e.orelse, st)
                return a if (a is not UNK and b is not UNK and a == b) else UNK
            return self.ev(e.body, st) if t else self.ev(e.orelse, st)
        if isinstance(e, ast.Compare):
            left = self.ev(e.left, st)
            res = True
            for op, rhs in zip(e.ops, e.comparators):
                right = self.ev(rhs, st)
                r = self._cmp(op, left, right)
                if r is UNK:
                    return UNK
                if not r:
                    return False
                left = right
            return res
        if isinstance(e, ast.BinOp):
            a, b = self.ev(e.left, st), self.ev(e.right, st)
            if a is UNK or b is UNK or isinstance(a, Obj) or isinstance(b, Obj):
                return UNK
            try:
                return q.fold(ast.BinOp(left=ast.Constant(value=a), op=e.op, right=ast.Constant(value=b)), {})
            except Exception:
                return UNK
        if isinstance(e, ast.Call):
            return self._call(e, st)
        if isinstance(e, ast.Await):
            return self.ev(e.value, st)
        if isinstance(e, ast.NamedExpr):
            v = self.ev(e.value, st)
            st.env[e.target.id] = v
            return v
        if isinstance(e, (ast.GeneratorExp, ast.ListComp, ast.SetComp)):
            return self._comp(e, st)
        if isinstance(e, (ast.JoinedStr, ast.Lambda, ast.DictComp, ast.Dict, ast.Starred, ast.Yield, ast.YieldFrom, ast.FormattedValue)):
            return UNK
        raise AnalysisError("abstract interpreter: expression %s not modelled" % type(e).__name__)

    def _comp(self, e, st: State):
        """list of element values of a single-generator comprehension over a known small iterable; else UNK"""
        if len(e.generators) != 1 or e.generators[0].is_async:
            return UNK
        g = e.generators[0]
        it = self.ev(g.iter, st)
        if not isinstance(it, (list, tuple, str, frozenset)) or len(it) > 64:
            return UNK
        saved = dict(st.env)
        out = []
        try:
            for v in it:
                self._assign(g.target, v, st)
                keep = True
                for cond in g.ifs:
                    c = self.ev(cond, st)
                    if c is UNK:
                        return UNK
                    if not c:
                        keep = False
                        break
                if keep:
                    out.append(self.ev(e.elt, st))
        finally:
            st.env.clear()
            st.env.update(saved)
        return out

    def _cmp(self, op, a, b):
        if isinstance(op, (ast.Is, ast.IsNot)):
            if a is UNK or b is UNK:
                return UNK
            if a is None or b is None:
                r = a is None and b is None
            elif isinstance(a, (Obj, HeaderMap)) or isinstance(b, (Obj, HeaderMap)):
                r = a is b
            else:
                r = type(a) is type(b) and a == b
            return r if isinstance(op, ast.Is) else not r
        if a is UNK or b is UNK or (isinstance(b, HeaderMap) and b.poisoned):
            return UNK
        try:
            if isinstance(op, ast.Eq):
                return a == b
            if isinstance(op, ast.NotEq):
                return a != b
            if isinstance(op, ast.In):
                return a in b
            if isinstance(op, ast.NotIn):
                return a not in b
            if isinstance(op, ast.Lt):
                return a < b
            if isinstance(op, ast.LtE):
                return a <= b
            if isinstance(op, ast.Gt):
                return a > b
            if isinstance(op, ast.GtE):
                return a >= b
        except TypeError:
            return UNK
        return UNK

    def _call(self, c: ast.Call, st: State):
        d = q.dotted(c.func)
        args = [self.ev(a, st) for a in c.args if not isinstance(a, ast.Starred)]
        kwargs = {k.arg: self.ev(k.value, st) for k in c.keywords if k.arg}
        if kwargs and d in self.signatures:
            names = self.signatures[d]
            full = list(args) + [UNK] * max(0, len(names) - len(args))
            for k, v in kwargs.items():
                if k in names:
                    full[names.index(k)] = v
            while full and full[-1] is UNK and len(full) > len(args) and not any(names[i] in kwargs for i in range(len(full) - 1, len(names))):
                full.pop()
            args = full
        st.last_kwargs = kwargs
        st.events.append((d or q.unparse(c.func), tuple(args), c))
        if self.on_call is not None:
            self.on_call(st, c, d, args)
        if d in self.funcs:
            return self.funcs[d](st, *args)
        if self.fallback is not None:
            r = self.fallback(st, c, d, args)
            if r is not NotImplemented:
                return r
        # effects of code that is not interpreted: a header map handed to it is no longer known;
        # a method of the same object may assign the attributes in its mod-set
        is_hdr_method = isinstance(c.func, ast.Attribute) and isinstance(self.ev(c.func.value, st), HeaderMap)
        if not is_hdr_method and not (isinstance(c.func, ast.Name) and c.func.id in ("cast", "getattr", "isinstance", "len", "bool", "str", "repr")):
            for a in list(args) + list(kwargs.values()):
                if isinstance(a, HeaderMap):
                    a.poisoned = True
        if self.modset is not None and d is not None and d.startswith("self.") and d.count(".") == 1:
            ms = self.modset(d)
            me = st.env.get("self")
            if ms and isinstance(me, Obj):
                for attr in ms:
                    me.attrs[attr] = UNK
        if isinstance(c.func, ast.Name):
            n = c.func.id
            if n in self.private_funcs and n not in st.env:
                raise AnalysisError("abstract interpreter: private helper %s() is called in a position where it cannot be followed" % n)
            if n == "cast" and len(args) == 2:
                return args[1]
            if n == "getattr" and len(args) >= 2 and isinstance(args[1], str):
                o = args[0]
                if isinstance(o, Obj):
                    if args[1] in o.attrs:
                        return o.attrs[args[1]]
                    return args[2] if len(args) > 2 else UNK
                if o is None and len(args) > 2:
                    return args[2]
                return UNK
            if n in ("any", "all") and len(args) == 1 and isinstance(args[0], (list, tuple)):
                vals = list(args[0])
                if n == "any":
                    if any(v is not UNK and not isinstance(v, (Obj, HeaderMap)) and v for v in vals):
                        return True
                    return UNK if any(v is UNK for v in vals) else False
                if any(v is not UNK and not isinstance(v, (Obj, HeaderMap)) and not v for v in vals):
                    return False
                return UNK if any(v is UNK for v in vals) else True
            if n in ("set", "list", "tuple", "sorted") and len(args) == 1 and isinstance(args[0], (list, tuple, frozenset)) and all(v is not UNK for v in args[0]) and not kwargs:
                try:
                    return {"set": frozenset, "list": list, "tuple": tuple, "sorted": sorted}[n](args[0])
                except Exception:
                    return UNK
            if n in _BUILTINS and all(a is not UNK and not isinstance(a, (Obj, HeaderMap)) for a in args) and not kwargs:
                try:
                    return _BUILTINS[n](*args)
                except Exception:
                    return UNK
            return UNK
        if isinstance(c.func, ast.Attribute):
            recv = self.ev(c.func.value, st)
            m = c.func.attr
            if recv is None:
                raise Raised("AttributeError")
            if isinstance(recv, (bytes, bytearray)) and m in ("find", "startswith", "endswith", "index", "count", "decode") and all(a is not UNK for a in args) and not kwargs:
                try:
                    return getattr(recv, m)(*args)
                except ValueError:
                    raise Raised("ValueError")
                except Exception:
                    return UNK
            if isinstance(recv, _re.Pattern) and m in ("search", "match", "fullmatch", "split") and all(a is not UNK for a in args) and not kwargs:
                try:
                    return getattr(recv, m)(*args)
                except Exception:
                    return UNK
            if isinstance(recv, _re.Match) and m in ("start", "end", "group", "groups", "span") and all(a is not UNK for a in args) and not kwargs:
                try:
                    return getattr(recv, m)(*args)
                except Exception:
                    return UNK
            if isinstance(recv, dict) and m == "pop" and args and all(a is not UNK for a in args) and not kwargs:
                try:
                    return recv.pop(*args)
                except KeyError:
                    raise Raised("KeyError")
            if isinstance(recv, list) and m == "append" and len(args) == 1 and not kwargs:
                recv.append(args[0])
                return None
            if isinstance(recv, (str, bytes)) and m == "join" and len(args) == 1 and isinstance(args[0], (list, tuple)) and all(isinstance(x, type(recv)) for x in args[0]):
                return recv.join(args[0])
            if isinstance(recv, (str, bytes)) and m in _STR_METHODS and all(a is not UNK for a in args) and not kwargs:
                try:
                    return getattr(recv, m)(*args)
                except Exception:
                    return UNK
            if isinstance(recv, HeaderMap):
                if recv.poisoned:
                    return UNK
                if m == "get" and args and all(a is not UNK for a in args):
                    return recv.get(*args)
                if m == "add" and len(args) == 2 and args[0] is not UNK:
                    recv[args[0]] = args[1] if args[0] not in recv else (UNK if (args[1] is UNK or recv[args[0]] is UNK) else "%s,%s" % (recv[args[0]], args[1]))
                    return None
                if m not in HeaderMap.PURE:
                    recv.poisoned = True
                return UNK
            if isinstance(recv, dict) and m == "get" and args and all(a is not UNK for a in args):
                return recv.get(*args)
            # unknown method on a known mutable local: its content is no longer known
            if isinstance(recv, (list, dict)) and isinstance(c.func.value, ast.Name):
                st.env[c.func.value.id] = UNK
            return UNK
        return UNK

    # -- statements ------------------------------------------------------------------------
    def run(self, fn: ast.AST, env: Dict[str, object]) -> List[Outcome]:
        self.paths = 0
        st = State(dict(env))
        outs: List[Outcome] = []
        for s, status in self.block(fn.body, st):
            if status == "next":
                outs.append(Outcome("fall", None, s))
            elif status[0] == "return":
                outs.append(Outcome("return", status[1], s, status[2]))
            elif status[0] == "raise":
                outs.append(Outcome("raise", status[1], s, status[2]))
            else:
                raise AnalysisError("abstract interpreter: stray %s" % (status,))
        return outs

    def block(self, stmts, st: State):
        """Returns [(state, status)]; status: 'next' | ('return', v, node) | ('raise', cls, node) | 'break' | 'continue'."""
        cur = [st]
        done = []
        for s in stmts:
            nxt = []
            for x in cur:
                for y, status in self.stmt(s, x):
                    if status == "next":
                        nxt.append(y)
                    else:
                        done.append((y, status))
            cur = nxt
            if not cur:
                break
        return [(x, "next") for x in cur] + done

    def _branch(self, test: ast.AST, st: State):
        """[(state, truth)] for a condition; forks when unknown."""
        v = self.ev(test, st)
        if v is UNK:
            self.paths += 1
            if self.paths > self.max_paths:
                raise AnalysisError("abstract interpreter: path explosion")
            return [(st, True), (st.fork(), False)]
        if isinstance(v, (Obj, HeaderMap)):
            return [(st, True)]
        return [(st, bool(v))]

    def _assign(self, t: ast.AST, v, st: State):
        if isinstance(t, ast.Name):
            st.env[t.id] = v
        elif isinstance(t, ast.Attribute):
            b = self.ev(t.value, st)
            if isinstance(b, Obj):
                b.attrs[t.attr] = v
        elif isinstance(t, ast.Subscript):
            b = self.ev(t.value, st)
            k = self.ev(t.slice, st) if not isinstance(t.slice, ast.Slice) else UNK
            if isinstance(b, (HeaderMap, dict)) and k is not UNK:
                b[k] = v
            elif isinstance(b, list) and isinstance(k, int) and not isinstance(k, bool):
                try:
                    b[k] = v
                except IndexError:
                    raise Raised("IndexError")
            elif isinstance(b, list) and isinstance(t.value, ast.Name):
                st.env[t.value.id] = UNK
        elif isinstance(t, (ast.Tuple, ast.List)):
            if isinstance(v, (tuple, list)) and len(v) == len(t.elts):
                for x, y in zip(t.elts, v):
                    self._assign(x, y, st)
            elif isinstance(v, (tuple, list)) and not any(isinstance(x, ast.Starred) for x in t.elts):
                raise Raised("ValueError")  # wrong number of values to unpack
            else:
                for x in t.elts:
                    self._assign(x, UNK, st)
        elif isinstance(t, ast.Starred):
            self._assign(t.value, UNK, st)

    def stmt(self, s: ast.stmt, st: State):
        st.trace.append(getattr(s, "lineno", 0))
        try:
            return self._stmt(s, st)
        except Raised as r:
            return [(st, ("raise", r.cls, s))]

    def _inlined(self, s, st: State):
        """Statement-level call of a method of the same object whose body is available:
        interpret it in a new frame.  Returns None when not applicable."""
        if self.inline is None or self.depth >= 3:
            return None
        call = s.value if isinstance(s, (ast.Expr, ast.Assign, ast.Return)) else None
        if isinstance(call, ast.Await):
            call = call.value
        if not isinstance(call, ast.Call):
            return None
        d = q.dotted(call.func)
        if d is None or not d.startswith("self.") or d.count(".") != 1 or d in self.funcs:
            return None
        fn = self.inline(d)
        if fn is None or any(isinstance(a, ast.Starred) for a in call.args) or any(k.arg is None for k in call.keywords):
            return None
        a = fn.args
        if a.vararg or a.kwarg or a.posonlyargs:
            return None
        names = [x.arg for x in a.args]
        args = [self.ev(x, st) for x in call.args]
        kwargs = {k.arg: self.ev(k.value, st) for k in call.keywords}
        st.events.append((d, tuple(args), call))
        if self.on_call is not None:
            self.on_call(st, call, d, args)
        env = {"self": st.env.get("self")}
        defaults = [None] * (len(names) - len(a.defaults)) + list(a.defaults)
        pos = names[1:] if names and names[0] == "self" else names
        dflt = defaults[1:] if names and names[0] == "self" else defaults
        for i, nm in enumerate(pos):
            if i < len(args):
                env[nm] = args[i]
            elif nm in kwargs:
                env[nm] = kwargs[nm]
            elif dflt[i] is not None and isinstance(dflt[i], ast.Constant):
                env[nm] = dflt[i].value
            else:
                env[nm] = UNK
        for x, dv in zip(a.kwonlyargs, a.kw_defaults):
            env[x.arg] = kwargs.get(x.arg, dv.value if isinstance(dv, ast.Constant) else UNK)
        st.frames.append(env)
        self.depth += 1
        try:
            res = self.block(fn.body, st)
        finally:
            self.depth -= 1
        out = []
        for y, status in res:
            y.frames.pop()
            if status == "next":
                v = None
            elif status[0] == "return":
                v = status[1]
            elif status[0] == "raise":
                out.append((y, status))
                continue
            else:
                raise AnalysisError("abstract interpreter: stray %s in inlined %s" % (status, d))
            if isinstance(s, ast.Assign):
                for t in s.targets:
                    self._assign(t, v, y)
                out.append((y, "next"))
            elif isinstance(s, ast.Return):
                out.append((y, ("return", v, s)))
            else:
                out.append((y, "next"))
        return out

    def _stmt(self, s, st: State):
        r = self._inlined(s, st)
        if r is not None:
            return r
        if isinstance(s, ast.Expr):
            self.ev(s.value, st)
            return [(st, "next")]
        if isinstance(s, ast.Assign):
            v = self.ev(s.value, st)
            for t in s.targets:
                self._assign(t, v, st)
            return [(st, "next")]
        if isinstance(s, ast.AnnAssign):
            if s.value is not None:
                self._assign(s.target, self.ev(s.value, st), st)
            return [(st, "next")]
        if isinstance(s, ast.AugAssign):
            cur = self.ev(ast.copy_location(_as_load(s.target), s.target), st)
            v = self.ev(s.value, st)
            if cur is UNK or v is UNK or isinstance(cur, (Obj, HeaderMap)):
                new = UNK
            else:
                try:
                    new = q.fold(ast.BinOp(left=ast.Constant(value=cur), op=s.op, right=ast.Constant(value=v)), {})
                except Exception:
                    new = UNK
            self._assign(s.target, new, st)
            return [(st, "next")]
        if isinstance(s, ast.If):
            out = []
            for x, truth in self._branch(s.test, st):
                out.extend(self.block(s.body if truth else s.orelse, x))
            return out
        if isinstance(s, ast.Return):
            v = self.ev(s.value, st) if s.value is not None else None
            return [(st, ("return", v, s))]
        if isinstance(s, ast.Raise):
            cls = None
            if s.exc is not None:
                e = s.exc.func if isinstance(s.exc, ast.Call) else s.exc
                cls = q.dotted(e)
                if isinstance(s.exc, ast.Call):
                    for a in s.exc.args:
                        self.ev(a, st)
            return [(st, ("raise", cls or "<reraise>", s))]
        if isinstance(s, ast.Assert):
            out = []
            for x, truth in self._branch(s.test, st):
                if truth:
                    out.append((x, "next"))
                # an assert whose condition is unknown is assumed; a known-false one raises
                elif self.ev(s.test, x) is not UNK:
                    out.append((x, ("raise", "AssertionError", s)))
            return out
        if isinstance(s, (ast.Pass, ast.Global, ast.Nonlocal, ast.Import, ast.ImportFrom)):
            return [(st, "next")]
        if isinstance(s, (ast.FunctionDef, ast.AsyncFunctionDef, ast.ClassDef)):
            st.env[s.name] = UNK
            return [(st, "next")]
        if isinstance(s, ast.Delete):
            for t in s.targets:
                if isinstance(t, ast.Subscript):
                    b = self.ev(t.value, st)
                    k = self.ev(t.slice, st)
                    if isinstance(b, (HeaderMap, dict)) and k is not UNK:
                        try:
                            del b[k]
                        except KeyError:
                            raise Raised("KeyError")
                elif isinstance(t, ast.Name):
                    st.env.pop(t.id, None)
            return [(st, "next")]
        if isinstance(s, (ast.With, ast.AsyncWith)):
            for it in s.items:
                v = self.ev(it.context_expr, st)
                if it.optional_vars is not None:
                    self._assign(it.optional_vars, UNK, st)
            return self.block(s.body, st)
        if isinstance(s, (ast.For, ast.AsyncFor)):
            it = self.ev(s.iter, st)
            out = []
            if isinstance(it, (list, tuple)) and len(it) <= 8:
                cur = [st]
                for v in it:
                    nxt = []
                    for x in cur:
                        self._assign(s.target, v, x)
                        for y, status in self.block(s.body, x):
                            if status in ("next", "continue"):
                                nxt.append(y)
                            elif status == "break":
                                out.append((y, "next"))
                            else:
                                out.append((y, status))
                    cur = nxt
                for x in cur:
                    out.extend(self.block(s.orelse, x) if s.orelse else [(x, "next")])
                return out
            # unknown iterable: zero or one iteration
            skip = st.fork()
            out.extend(self.block(s.orelse, skip) if s.orelse else [(skip, "next")])
            self._assign(s.target, UNK, st)
            for y, status in self.block(s.body, st):
                if status in ("next", "continue", "break"):
                    out.append((y, "next"))
                else:
                    out.append((y, status))
            return out
        if isinstance(s, ast.While):
            out = []
            cur = [st]
            for _round in range(self.max_unroll):
                nxt = []
                for x in cur:
                    for y, truth in self._branch(s.test, x):
                        if not truth:
                            out.extend(self.block(s.orelse, y) if s.orelse else [(y, "next")])
                            continue
                        for z, status in self.block(s.body, y):
                            if status in ("next", "continue"):
                                nxt.append(z)
                            elif status == "break":
                                out.append((z, "next"))
                            else:
                                out.append((z, status))
                cur = nxt
            out.extend((x, "next") for x in cur)  # bounded unrolling: leave the loop
            return out
        if isinstance(s, ast.Try):
            return self._try(s, st)
        if isinstance(s, ast.Break):
            return [(st, "break")]
        if isinstance(s, ast.Continue):
            return [(st, "continue")]
        raise AnalysisError("abstract interpreter: statement %s not modelled (line %s)" % (type(s).__name__, getattr(s, "lineno", "?")))

    def _try(self, s: ast.Try, st: State):
        res = []
        for y, status in self.block(s.body, st):
            if status == "next" and s.orelse:
                res.extend(self.block(s.orelse, y))
            elif isinstance(status, tuple) and status[0] == "raise":
                cls = status[1] or ""
                handled = False
                for h in s.handlers:
                    names = self.handler_names(h)
                    if cls == "<reraise>" or q.exc_is_caught(cls, names) or q.exc_is_caught(cls.split(".")[-1], names):
                        if h.name:
                            y.env[h.name] = UNK
                        for z, st2 in self.block(h.body, y):
                            # a bare `raise` in the handler re-raises the caught class
                            if isinstance(st2, tuple) and st2[0] == "raise" and st2[1] == "<reraise>":
                                st2 = ("raise", cls, st2[2])
                            res.append((z, st2))
                        handled = True
                        break
                if not handled:
                    res.append((y, status))
            else:
                res.append((y, status))
        if not s.finalbody:
            return res
        out = []
        for y, status in res:
            for z, st2 in self.block(s.finalbody, y):
                out.append((z, status if st2 == "next" else st2))
        return out


def call_value(st: State, args, index: int, name: str, default=UNK):
    """argument ``index`` / keyword ``name`` of the call a hook is currently folding"""
    if index < len(args):
        return args[index]
    return st.last_kwargs.get(name, default)


def _as_load(t: ast.AST) -> ast.AST:
    t2 = copy.deepcopy(t)
    for n in ast.walk(t2):
        if hasattr(n, "ctx"):
            n.ctx = ast.Load()
    return t2
