"""x_objalias — substitute local aliases of attribute paths.

``jar = self._new_cookie`` … ``jar.pop(k)`` … ``jar[k] = v``  is rewritten to the
attribute path itself when this cannot change the meaning: the local is bound
exactly once (plain assignment or one element of a tuple assignment from a
tuple of paths), never rebound, and no assignment to the path (or a prefix of
it) is reachable from the binding on the CFG — so from there on both names
denote the same object / value.  Rules that speak about ``self.<attr>`` then
keep seeing it after a 'thread the value through a local' refactoring."""
from __future__ import annotations

import ast
import copy
from typing import Dict, List, Optional, Tuple

from . import q
from .model import FuncInfo


def _alias_defs(node) -> List[Tuple[ast.stmt, str, ast.AST]]:
    out = []
    for st in q.walk_body(node):
        if isinstance(st, ast.Assign) and len(st.targets) == 1:
            t, v = st.targets[0], st.value
            if isinstance(t, ast.Name) and isinstance(v, ast.Attribute) and q.dotted(v):
                out.append((st, t.id, v))
            elif isinstance(t, (ast.Tuple, ast.List)) and isinstance(v, (ast.Tuple, ast.List)) and len(t.elts) == len(v.elts):
                for x, y in zip(t.elts, v.elts):
                    if isinstance(x, ast.Name) and isinstance(y, ast.Attribute) and q.dotted(y):
                        out.append((st, x.id, y))
        elif isinstance(st, ast.AnnAssign) and isinstance(st.target, ast.Name) and isinstance(st.value, ast.Attribute) and q.dotted(st.value):
            out.append((st, st.target.id, st.value))
    return out


def _binding_count(node, name: str) -> int:
    k = 0
    for n in q.walk_body(node):
        if isinstance(n, ast.Name) and n.id == name and isinstance(n.ctx, (ast.Store, ast.Del)):
            k += 1
        elif isinstance(n, ast.ExceptHandler) and n.name == name:
            k += 1
    a = node.args
    if name in [x.arg for x in a.posonlyargs + a.args + a.kwonlyargs] or (a.vararg and a.vararg.arg == name) or (a.kwarg and a.kwarg.arg == name):
        k += 1
    return k


def _method_rebinds(fi: FuncInfo, cname: str, meth: str, attr: str, depth: int, seen) -> bool:
    h = fi.module.funcs.get("%s.%s" % (cname, meth))
    if h is None or meth in seen:
        return False
    seen = seen | {meth}
    for n in q.walk_body(h.node):
        if isinstance(n, (ast.Assign, ast.AugAssign, ast.AnnAssign, ast.Delete)) and ("self." + attr) in {p for p in q.assigned_paths(n) if not p.endswith("[]")}:
            return True
        if depth > 0 and isinstance(n, ast.Call) and isinstance(n.func, ast.Attribute) and q.dotted(n.func.value) == "self" and _method_rebinds(fi, cname, n.func.attr, attr, depth - 1, seen):
            return True
    return False


def subst_object_aliases(fi: FuncInfo, rounds: int = 3) -> FuncInfo:
    cur = fi
    for _ in range(rounds):
        node = cur.node
        cfg = cur.cfg
        mapping: Dict[str, ast.AST] = {}
        drop = []
        for st, name, path_expr in _alias_defs(node):
            if _binding_count(node, name) != 1 or name in mapping:
                continue
            path = q.dotted(path_expr)
            parts = path.split(".")
            prefixes = {".".join(parts[:i]) for i in range(1, len(parts) + 1)}
            if parts[0] in mapping or any(_binding_count(node, parts[0]) > 1 for _ in [0]) and parts[0] not in ("self", "cls"):
                continue
            # any (re)binding of the path or a prefix reachable from the alias definition?
            defs = [n for n in cfg.nodes_for(st)]
            if len(defs) != 1:
                continue
            reach = set()
            stack = [defs[0].id]
            while stack:
                x = stack.pop()
                for y, _k in cfg.succ[x]:
                    if y not in reach:
                        reach.add(y)
                        stack.append(y)
            clash = False
            for nid in reach:
                n = cfg.nodes[nid]
                if n.ast is None or n.kind not in ("stmt", "for", "with"):
                    continue
                src = n.ast if n.kind == "stmt" else (ast.Assign(targets=[n.ast.target], value=ast.Constant(value=None)) if n.kind == "for" else None)
                if src is None:
                    continue
                assigned = {p for p in q.assigned_paths(src) if not p.endswith("[]")}
                if assigned & prefixes:
                    clash = True
                    break
            if not clash and parts[0] == "self" and len(parts) >= 2:
                # a method of the same class called after the binding that re-binds the attribute breaks the alias too
                cname = cur.qualname.split(".")[0]
                for nid in reach:
                    n = cfg.nodes[nid]
                    if n.ast is None or n.kind not in ("stmt", "test", "for", "with"):
                        continue
                    for c in q.calls(n.ast) if n.kind in ("stmt", "test") else []:
                        if isinstance(c.func, ast.Attribute) and q.dotted(c.func.value) == "self" and _method_rebinds(cur, cname, c.func.attr, parts[1], 2, set()):
                            clash = True
            if clash:
                continue
            # nested functions/lambdas that capture the name keep it
            captured = any(isinstance(x, ast.Name) and x.id == name for sc in ast.walk(node) if sc is not node and isinstance(sc, (ast.Lambda, ast.FunctionDef, ast.AsyncFunctionDef)) for x in ast.walk(sc))
            if captured:
                continue
            mapping[name] = path_expr
            drop.append((st, name))
        if not mapping:
            return cur
        new = copy.deepcopy(node)

        class T(ast.NodeTransformer):
            def visit_Name(self, n):
                if isinstance(n.ctx, ast.Load) and n.id in mapping:
                    return ast.copy_location(copy.deepcopy(mapping[n.id]), n)
                return n

            def visit_Assign(self, st):
                st = self.generic_visit(st)
                if len(st.targets) == 1:
                    t, v = st.targets[0], st.value
                    if isinstance(t, ast.Name) and t.id in mapping:
                        return ast.copy_location(ast.Pass(), st)
                    if isinstance(t, (ast.Tuple, ast.List)) and isinstance(v, (ast.Tuple, ast.List)) and len(t.elts) == len(v.elts):
                        keep = [(x, y) for x, y in zip(t.elts, v.elts) if not (isinstance(x, ast.Name) and x.id in mapping)]
                        if not keep:
                            return ast.copy_location(ast.Pass(), st)
                        if len(keep) < len(t.elts):
                            if len(keep) == 1:
                                st.targets, st.value = [keep[0][0]], keep[0][1]
                            else:
                                st.targets = [ast.Tuple(elts=[k[0] for k in keep], ctx=ast.Store())]
                                st.value = ast.Tuple(elts=[k[1] for k in keep], ctx=ast.Load())
                return st

            def visit_AnnAssign(self, st):
                st = self.generic_visit(st)
                if isinstance(st.target, ast.Name) and st.target.id in mapping:
                    return ast.copy_location(ast.Pass(), st)
                return st

        new = T().visit(new)
        ast.fix_missing_locations(new)
        cur = FuncInfo(fi.module, fi.qualname, new, fi.cls, fi.parent)
    return cur


# ---------------------------------------------------------------------------
# literals hoisted to module-level constants


def _literal(e: ast.AST) -> bool:
    if isinstance(e, ast.Constant):
        return isinstance(e.value, (str, bytes, int, float, bool, type(None)))
    if isinstance(e, (ast.Tuple,)):
        return all(_literal(x) for x in e.elts)
    if isinstance(e, ast.Call) and isinstance(e.func, ast.Name) and e.func.id in ("frozenset", "tuple") and len(e.args) == 1 and not e.keywords:
        return isinstance(e.args[0], (ast.Tuple, ast.List, ast.Set)) and all(_literal(x) for x in e.args[0].elts)
    return False


def inline_constants(fi: FuncInfo) -> FuncInfo:
    """Replace loads of module-level names that are bound (once, at module level) to a plain literal — string, bytes,
    number, tuple/frozenset of those — by the literal, unless the function shadows the name.  ``_SLASH = "/"`` …
    ``x.lstrip(_SLASH)`` is then analysed exactly like ``x.lstrip("/")``.  (Compiled regexes are resolved by the
    pattern resolvers, not here.)"""
    mod = fi.module
    locs = q.local_names(fi.node) if hasattr(fi.node, "args") else set()
    counts = {}
    for st in mod.tree.body:
        for p in q.assigned_paths(st) if isinstance(st, (ast.Assign, ast.AnnAssign, ast.AugAssign)) else ():
            counts[p] = counts.get(p, 0) + 1
    table = {}
    for name, value in mod.assigns.items():
        if name in locs or counts.get(name, 0) != 1 or not _literal(value):
            continue
        lit = value
        if isinstance(value, ast.Call):  # frozenset((..)) / tuple([..]) -> a tuple literal (membership and iteration agree)
            lit = ast.Tuple(elts=list(value.args[0].elts), ctx=ast.Load())
        table[name] = lit
    if not table or not any(isinstance(n, ast.Name) and n.id in table for n in ast.walk(fi.node)):
        return fi
    new = copy.deepcopy(fi.node)

    class T(ast.NodeTransformer):
        def visit_Name(self, n):
            if isinstance(n.ctx, ast.Load) and n.id in table:
                return ast.copy_location(copy.deepcopy(table[n.id]), n)
            return n

    new = T().visit(new)
    ast.fix_missing_locations(new)
    return FuncInfo(fi.module, fi.qualname, new, fi.cls, fi.parent)


def through_local(fi: FuncInfo, test: ast.AST, depth: int = 4) -> ast.AST:
    """A branch test with its *tested operand* looked through an explaining local:
    ``m = P.search(x)`` … ``if m is None`` -> ``P.search(x) is None``;  ``bad = p.startswith("//")`` … ``if bad`` ->
    the call.  Only the operand that is tested is resolved (the subject ``x`` keeps its name)."""
    from .x_flow import unique_def

    def res(e, d):
        while isinstance(e, ast.Name) and d > 0:
            df = unique_def(fi, e.id)
            if df is None:
                return e
            e, d = df, d - 1
        return e

    if isinstance(test, ast.UnaryOp) and isinstance(test.op, ast.Not):
        return ast.copy_location(ast.UnaryOp(op=ast.Not(), operand=through_local(fi, test.operand, depth)), test)
    if isinstance(test, ast.Name):
        r = res(test, depth)
        return through_local(fi, r, depth - 1) if r is not test and depth > 0 else r
    if isinstance(test, ast.Compare) and len(test.ops) == 1 and isinstance(test.left, ast.Name):
        r = res(test.left, depth)
        if r is not test.left:
            return ast.copy_location(ast.Compare(left=r, ops=test.ops, comparators=test.comparators), test)
    return test
