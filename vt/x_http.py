"""Shared helpers for the HTTP/1 checkers (C01, C03, C04, C08).

* edge-guard dominance: "node T is reachable only through the branch edge on
  which predicate P is known true/false" — decided by removing those edges from
  the CFG and asking whether T is still reachable (exception edges included).
  Unlike ``cfg.must_facts`` this does not forget a guard when the guarded name
  is later passed to a helper (``_normalize_header(name)``), and re-binding of
  the guarded names is checked separately (``rebinds_between``).
* regex call sites: resolve ``_ABNF.x`` / module-level ``NAME`` to pattern text
  (static evaluation of ``vt.rx``), call-site method (fullmatch/match/search),
  capture-group sub-languages.
* call-tree closure over statically resolvable callees.
* small forward path queries on the CFG.

Nothing here compares source text; all predicates work on AST nodes.
"""
from __future__ import annotations

import ast
from typing import Callable, Dict, Iterable, List, Optional, Sequence, Set, Tuple

from . import q
from .cfg import CFG, Node, _node_roots
from .model import AnalysisError, AnchorMissing, FuncInfo, Repo
from . import rx as _rx

Edge = Tuple[int, int, str]

# ---------------------------------------------------------------------------
# canonical atoms and guard edges


class _NoWalrus(ast.NodeTransformer):
    def visit_NamedExpr(self, n):
        return self.visit(n.value)


def strip_walrus(e: ast.AST) -> ast.AST:
    """``(m := f(x)) is None`` -> ``f(x) is None`` (for predicates about what is tested; the binding is seen by the
    reaching-definition / single-binding machinery separately)"""
    if not any(isinstance(x, ast.NamedExpr) for x in ast.walk(e)):
        return e
    import copy as _copy
    # keep the identity of the wrapped value nodes (rules compare call nodes by identity)
    class T(ast.NodeTransformer):
        def visit_NamedExpr(self, n):
            return self.visit(n.value)
    top = _copy.copy(e)
    for fld, val in ast.iter_fields(e):
        if isinstance(val, list):
            setattr(top, fld, [T().visit(_shallow(x)) if isinstance(x, ast.AST) else x for x in val])
        elif isinstance(val, ast.AST):
            setattr(top, fld, T().visit(_shallow(val)))
    return T().visit(top) if isinstance(top, ast.NamedExpr) else top


def _shallow(n: ast.AST) -> ast.AST:
    """copy of the spine down to (not including) NamedExpr values, so that NodeTransformer does not edit the tree"""
    import copy as _copy
    if isinstance(n, ast.NamedExpr):
        return _copy.copy(n)
    if not any(isinstance(x, ast.NamedExpr) for x in ast.walk(n)):
        return n
    c = _copy.copy(n)
    for fld, val in ast.iter_fields(n):
        if isinstance(val, list):
            setattr(c, fld, [_shallow(x) if isinstance(x, ast.AST) else x for x in val])
        elif isinstance(val, ast.AST):
            setattr(c, fld, _shallow(val))
    return c


def canon_atom(e: ast.AST) -> Tuple[ast.AST, bool]:
    a, flip = _canon_atom0(e)
    return strip_walrus(a), flip


def _canon_atom0(e: ast.AST) -> Tuple[ast.AST, bool]:
    """(positive form, flipped) of an atomic test: ``a != b`` -> (``a == b``, True),
    ``x not in y`` -> (``x in y``, True), ``x is not y`` -> (``x is y``, True)."""
    flip = False
    while isinstance(e, ast.UnaryOp) and isinstance(e.op, ast.Not):
        e = e.operand
        flip = not flip
    if isinstance(e, ast.Compare) and len(e.ops) == 1:
        swap = {ast.IsNot: ast.Is, ast.NotEq: ast.Eq, ast.NotIn: ast.In}
        t = type(e.ops[0])
        if t in swap:
            e2 = ast.Compare(left=e.left, ops=[swap[t]()], comparators=e.comparators)
            ast.copy_location(e2, e)
            return e2, not flip
    return e, flip


def single_bindings(fn: ast.AST) -> Dict[str, ast.AST]:
    """Local names bound exactly once in ``fn`` (by a plain/annotated assignment
    or a walrus) -> the bound value."""
    count: Dict[str, int] = {}
    val: Dict[str, ast.AST] = {}
    for n in q.walk_body(fn):
        tgts: List[ast.AST] = []
        v = None
        if isinstance(n, ast.Assign):
            tgts, v = n.targets, n.value
        elif isinstance(n, ast.AnnAssign) and n.value is not None:
            tgts, v = [n.target], n.value
        elif isinstance(n, ast.NamedExpr):
            tgts, v = [n.target], n.value
        elif isinstance(n, ast.AugAssign):
            tgts, v = [n.target], None
        elif isinstance(n, (ast.For, ast.AsyncFor)):
            tgts, v = [n.target], None
        elif isinstance(n, (ast.With, ast.AsyncWith)):
            tgts = [it.optional_vars for it in n.items if it.optional_vars is not None]
        for t in tgts:
            for x in ast.walk(t):
                if isinstance(x, ast.Name) and isinstance(x.ctx, ast.Store):
                    count[x.id] = count.get(x.id, 0) + 1
                    if v is not None and x is t:
                        val[x.id] = v
                    else:
                        val.pop(x.id, None)
    return {k: v for k, v in val.items() if count.get(k) == 1}


def _await_stripped(e: ast.AST) -> ast.AST:
    while isinstance(e, ast.Await):
        e = e.value
    return e


def truthy_edges(fi: FuncInfo, is_expr: Callable[[ast.AST], bool], cfg: Optional[CFG] = None) -> Tuple[Set[Edge], Set[Edge]]:
    """(edges on which an expression satisfying ``is_expr`` is known truthy,
    edges on which it is known falsy).  Recognised test shapes: the expression
    itself, a name bound exactly once to it, ``(m := E)``, ``E is None`` /
    ``E is not None`` (and the same through the single-binding alias)."""
    cfg = cfg or fi.cfg
    binds = single_bindings(fi.node)

    aliases = _stable_path_aliases(cfg)

    def denotes(e: ast.AST) -> bool:
        if is_expr(e):
            return True
        if isinstance(e, ast.Name) and e.id in aliases and is_expr(aliases[e.id]):
            return True
        if isinstance(e, ast.NamedExpr) and is_expr(e.value):
            return True
        if isinstance(e, ast.Name) and e.id in binds and is_expr(binds[e.id]):
            return True
        return False

    pos: Set[Edge] = set()
    neg: Set[Edge] = set()
    reach = cfg.reachable()
    named = _stable_named_tests(cfg)
    for n in cfg.nodes:
        if n.id not in reach or n.kind != "test":
            continue
        a, flip = canon_atom(n.ast)
        if isinstance(a, ast.Name) and a.id in named and not denotes(a):
            # `ok = E is not None` ... `if not ok:` — a named boolean about E
            a2, flip2 = canon_atom(named[a.id])
            a, flip = a2, (flip != flip2)
        want: Optional[bool] = None  # truth of the *atom a* on which E is truthy
        if denotes(a):
            want = True
        elif isinstance(a, ast.Compare) and len(a.ops) == 1 and isinstance(a.ops[0], ast.Is) and q.is_const(a.comparators[0], None) and denotes(a.left):
            want = False
        if want is None:
            continue
        for sid, kind in cfg.succ[n.id]:
            if kind not in ("true", "false"):
                continue
            atom_truth = (kind == "true") != flip
            (pos if atom_truth == want else neg).add((n.id, sid, kind))
    return pos, neg


def atom_edges(cfg: CFG, pred: Callable[[ast.AST], Optional[bool]]) -> Set[Edge]:
    """Branch edges on which the canonical positive atom ``a`` of a test node has
    the truth value ``pred(a)`` (``pred`` returns None for unrelated tests)."""
    out: Set[Edge] = set()
    reach = cfg.reachable()
    named = _stable_named_tests(cfg)
    aliases = _stable_path_aliases(cfg)
    for n in cfg.nodes:
        if n.id not in reach or n.kind != "test":
            continue
        a, flip = canon_atom(n.ast)
        want = pred(a)
        if want is None and aliases and (q.names_in(a) & set(aliases)):
            # `cb = self._cb` ... `if cb is not None:` — a value read into a local before it is tested
            a = _subst_aliases(a, aliases)
            want = pred(a)
        if want is None and isinstance(a, ast.Name) and a.id in named:
            # `ok = <comparison>` ... `if ok:`  — a named boolean whose operands are never rebound
            a2, flip2 = canon_atom(named[a.id])
            want = pred(a2)
            if want is not None:
                flip = flip != flip2
        if want is None:
            continue
        for sid, kind in cfg.succ[n.id]:
            if kind in ("true", "false") and ((kind == "true") != flip) == want:
                out.add((n.id, sid, kind))
    return out


def _subst_aliases(e: ast.AST, aliases: Dict[str, ast.AST]) -> ast.AST:
    import copy as _copy

    class T(ast.NodeTransformer):
        def visit_Name(self, n):
            if isinstance(n.ctx, ast.Load) and n.id in aliases:
                return ast.copy_location(_copy.deepcopy(aliases[n.id]), n)
            return n

    return T().visit(_copy.deepcopy(e))


def _stable_path_aliases(cfg: CFG) -> Dict[str, ast.AST]:
    """single-binding locals bound to a plain attribute path / name (``x = self.a.b``) that the function never stores"""
    cached = getattr(cfg, "_x_http_aliases", None)
    if cached is not None:
        return cached
    fn = cfg.fn
    binds = single_bindings(fn)
    stored: Set[str] = set()
    assigned: Dict[str, int] = {}
    for n in q.walk_body(fn):
        if isinstance(n, (ast.Assign, ast.AugAssign, ast.AnnAssign, ast.Delete)):
            for p in q.assigned_paths(n):
                stored.add(p.replace("[]", ""))
        if isinstance(n, ast.Name) and isinstance(n.ctx, (ast.Store, ast.Del)):
            assigned[n.id] = assigned.get(n.id, 0) + 1
    out: Dict[str, ast.AST] = {}
    for name, val in binds.items():
        d = q.dotted(val) if isinstance(val, (ast.Attribute, ast.Name)) else None
        if d is None or d == name:
            continue
        root = d.split(".")[0]
        if assigned.get(root, 0) > 1:
            continue
        if "." in d and any(d == sp or d.startswith(sp + ".") or sp.startswith(d + ".") for sp in stored if "." in sp):
            # the attribute is stored somewhere in the function: the alias stays valid only if no such store can
            # execute after the alias was taken
            defs = [n for n in cfg.nodes if n.kind == "stmt" and isinstance(n.ast, (ast.Assign, ast.AnnAssign)) and name in q.assigned_paths(n.ast)]
            if len(defs) != 1:
                continue
            after = reach_without(cfg, (), start=defs[0].id)
            clash = False
            for i_ in after:
                n_ = cfg.nodes[i_]
                if i_ != defs[0].id and n_.kind == "stmt" and isinstance(n_.ast, ast.stmt):
                    for sp in q.assigned_paths(n_.ast):
                        sp = sp.replace("[]", "")
                        if "." in sp and (d == sp or d.startswith(sp + ".") or sp.startswith(d + ".")):
                            clash = True
            if clash:
                continue
        out[name] = val
    try:
        cfg._x_http_aliases = out
    except Exception:
        pass
    return out


def _stable_named_tests(cfg: CFG) -> Dict[str, ast.AST]:
    """single-binding locals bound to an atomic boolean expression (comparison / call / not ...) all of whose operand
    names are themselves never re-bound in the function and which mentions no attribute that the function stores"""
    cached = getattr(cfg, "_x_http_named", None)
    if cached is not None:
        return cached
    fn = cfg.fn
    binds = single_bindings(fn)
    assigned: Dict[str, int] = {}
    stored_attrs: Set[str] = set()
    for n in q.walk_body(fn):
        if isinstance(n, ast.Name) and isinstance(n.ctx, (ast.Store, ast.Del)):
            assigned[n.id] = assigned.get(n.id, 0) + 1
        elif isinstance(n, (ast.Assign, ast.AugAssign, ast.AnnAssign, ast.Delete)):
            for p in q.assigned_paths(n):
                if "." in p:
                    stored_attrs.add(p.replace("[]", ""))
    out: Dict[str, ast.AST] = {}
    for name, val in binds.items():
        if not isinstance(val, (ast.Compare, ast.Call, ast.UnaryOp)) or isinstance(val, ast.Await) or q.has_suspension(val):
            continue
        if isinstance(val, ast.UnaryOp) and not isinstance(val.op, ast.Not):
            continue
        ok = True
        for x in ast.walk(val):
            if isinstance(x, ast.Name) and isinstance(x.ctx, ast.Load) and assigned.get(x.id, 0) > 1:
                ok = False
            if isinstance(x, ast.Attribute):
                d = q.dotted(x)
                if d and any(d == sp or d.startswith(sp + ".") or sp.startswith(d + ".") for sp in stored_attrs):
                    ok = False
        if ok:
            out[name] = val
    try:
        cfg._x_http_named = out
    except Exception:
        pass
    return out


def reach_without(cfg: CFG, removed: Iterable[Edge], start: Optional[int] = None, follow_exc: bool = True, stop: Optional[Callable[[Node], bool]] = None) -> Set[int]:
    rem = set(removed)
    s = cfg.entry.id if start is None else start
    seen = {s}
    st = [s]
    while st:
        x = st.pop()
        if stop is not None and x != s and stop(cfg.nodes[x]):
            continue
        for y, k in cfg.succ[x]:
            if (x, y, k) in rem:
                continue
            if k == "exc" and not follow_exc:
                continue
            if y not in seen:
                seen.add(y)
                st.append(y)
    return seen


def only_through(cfg: CFG, target: Node, edges: Iterable[Edge]) -> bool:
    """Every path from entry to ``target`` uses at least one of ``edges``."""
    return target.id not in reach_without(cfg, edges)


def rebinds_between(cfg: CFG, edges: Iterable[Edge], target: Node, paths: Iterable[str]) -> List[Node]:
    """Nodes that (re)bind one of ``paths`` on some path from a guard edge to
    ``target`` (the guard would then speak about a stale value)."""
    paths = set(paths)
    starts = {dst for _src, dst, _k in edges}
    fwd: Set[int] = set()
    for s in starts:
        fwd |= reach_without(cfg, (), start=s)
    # nodes from which target is reachable
    back = {target.id}
    st = [target.id]
    while st:
        x = st.pop()
        for p, _k in cfg.pred[x]:
            if p not in back:
                back.add(p)
                st.append(p)
    out = []
    for nid in fwd & back:
        n = cfg.nodes[nid]
        if nid == target.id:
            continue
        if n.kind == "stmt" and isinstance(n.ast, ast.stmt) and (q.assigned_paths(n.ast) & paths):
            out.append(n)
        elif n.kind == "for" and q.assigned_paths(ast.Assign(targets=[n.ast.target], value=ast.Constant(value=None))) & paths:
            out.append(n)
    return out


def forward_until(cfg: CFG, start: Node, good: Callable[[Node], bool], bad: Callable[[Node], bool], follow_exc: bool = False) -> Tuple[bool, Optional[Node]]:
    """Every path leaving ``start`` meets a ``good`` node before a ``bad`` node
    or a function exit.  Returns (ok, offending node)."""
    seen = set()
    st = [s for s, k in cfg.succ[start.id] if follow_exc or k != "exc"]
    while st:
        x = st.pop()
        if x in seen:
            continue
        seen.add(x)
        n = cfg.nodes[x]
        if good(n):
            continue
        if n.kind in ("exit",) or bad(n):
            return False, n
        if n.kind == "rexit":
            continue
        for y, k in cfg.succ[x]:
            if k == "exc" and not follow_exc:
                continue
            st.append(y)
    return True, None


def node_mentions(n: Node, pred: Callable[[ast.AST], bool]) -> bool:
    if n.ast is None or n.kind not in ("stmt", "test", "for", "with"):
        return False
    return any(pred(x) for root in _node_roots(n) for x in q.walk_local(root))


# ---------------------------------------------------------------------------
# regex sites


class RegexEnv:
    """Resolves pattern-valued expressions of the analysed tree to pattern text."""

    def __init__(self, repo: Repo):
        self.repo = repo
        self._abnf: Optional[Dict[str, object]] = None
        self._rx: Dict[Tuple[object, str], _rx.Rx] = {}

    @property
    def abnf(self) -> Dict[str, object]:
        if self._abnf is None:
            self._abnf = _rx.eval_abnf(self.repo)
        return self._abnf

    def pattern(self, fi: FuncInfo, e: ast.AST):
        """Pattern text of ``e`` (``_ABNF.x``, ``httputil._ABNF.x``, module-level
        ``NAME``, ``re.compile(<const>)``); None if ``e`` is not a known pattern."""
        d = q.dotted(e) if isinstance(e, (ast.Name, ast.Attribute)) else None
        if d is not None:
            parts = d.split(".")
            if "_ABNF" in parts[:-1]:
                name = parts[-1]
                if name not in self.abnf:
                    raise AnalysisError("unknown _ABNF rule %s at %s" % (d, fi.site(e)))
                return self.abnf[name]
            if len(parts) == 1:
                m = fi.module
                if parts[0] in m.assigns and isinstance(m.assigns[parts[0]], ast.Call) and q.call_attr(m.assigns[parts[0]]) == "compile":
                    return _rx.eval_pattern_expr(m.assigns[parts[0]], {})
            if len(parts) == 2:
                # mod.NAME for an imported tornado module
                rel = "tornado/%s.py" % parts[0]
                if rel in self.repo.modules:
                    m = self.repo.modules[rel]
                    if parts[1] in m.assigns and isinstance(m.assigns[parts[1]], ast.Call) and q.call_attr(m.assigns[parts[1]]) == "compile":
                        return _rx.eval_pattern_expr(m.assigns[parts[1]], {})
            return None
        if isinstance(e, ast.Call) and q.call_attr(e) == "compile" and q.dotted(e.func) in ("re.compile",):
            return _rx.eval_pattern_expr(e, {})
        return None

    def rx(self, pattern, mode: str = "fullmatch") -> _rx.Rx:
        k = (pattern, mode)
        if k not in self._rx:
            self._rx[k] = _rx.Rx.from_pattern(pattern, mode)
        return self._rx[k]

    def calls(self, fi: FuncInfo) -> List[Tuple[ast.Call, str, object, Optional[ast.AST]]]:
        """(call, method, pattern text, subject expr) for ``P.fullmatch/match/search(subject)``
        and ``re.fullmatch/match/search(<pattern>, subject)`` in fi's own scope."""
        out = []
        for c in q.calls(fi.node):
            if not isinstance(c.func, ast.Attribute) or c.func.attr not in ("fullmatch", "match", "search"):
                continue
            if q.dotted(c.func.value) == "re":
                if len(c.args) >= 2:
                    try:
                        pat = _rx.eval_pattern_expr(c.args[0], {})
                    except AnalysisError:
                        p2 = self.pattern(fi, c.args[0])
                        if p2 is None:
                            continue
                        pat = p2
                    if len(c.args) > 2 or c.keywords:
                        raise AnalysisError("regex flags not modelled at %s" % fi.site(c))
                    out.append((c, c.func.attr, pat, c.args[1]))
                continue
            pat = self.pattern(fi, c.func.value)
            if pat is None:
                continue
            out.append((c, c.func.attr, pat, c.args[0] if c.args else None))
        return out


def group_rx(pattern, index: int) -> _rx.Rx:
    """Language of the ``index``-th capturing group of ``pattern`` (as written;
    the context of the group is ignored)."""
    if index == 0:
        return _rx.Rx.from_pattern(pattern)  # group 0 is the whole match
    sre_parse = _rx.sre_parse
    tree = sre_parse.parse(pattern)
    found: List[object] = []

    def walk(items):
        for op, av in items:
            s = str(op)
            if s == "SUBPATTERN":
                if av[0] == index:
                    found.append(av[-1])
                walk(av[-1])
            elif s == "BRANCH":
                for alt in av[1]:
                    walk(alt)
            elif s in ("MAX_REPEAT", "MIN_REPEAT", "POSSESSIVE_REPEAT"):
                walk(av[2])

    walk(tree)
    if len(found) != 1:
        raise AnalysisError("capture group %d not found exactly once in %r" % (index, pattern))
    is_bytes = isinstance(pattern, bytes)
    nfa = _rx._NFA()
    b = _rx._Builder(nfa, is_bytes, False, "fullmatch")
    s = nfa.new()
    e = b.seq(list(found[0]), s)
    return _rx.Rx._determinise(nfa, s, e, "group %d of %r" % (index, pattern))


def group_count(pattern) -> int:
    tree = _rx.sre_parse.parse(pattern)
    st = tree.state if hasattr(tree, "state") else tree.pattern
    return st.groups - 1


def intersects(a: _rx.Rx, b: _rx.Rx) -> Optional[str]:
    """A shortest string in L(a) ∩ L(b), or None if the intersection is empty."""
    w = a._product(b, lambda x, y: x and y)
    return None if w is None else _rx._show(w)


# ---------------------------------------------------------------------------
# call tree


def _imported_tornado_modules(mod) -> Dict[str, str]:
    """local alias -> relpath for ``from tornado import x`` / ``import tornado.x``."""
    out: Dict[str, str] = {}
    for st in mod.tree.body:
        if isinstance(st, ast.ImportFrom) and st.module == "tornado":
            for a in st.names:
                out[a.asname or a.name] = "tornado/%s.py" % a.name
    return out


def _imported_names(mod) -> Dict[str, Tuple[str, str]]:
    """local name -> (relpath, original name) for ``from tornado.x import y``."""
    out: Dict[str, Tuple[str, str]] = {}
    for st in mod.tree.body:
        if isinstance(st, ast.ImportFrom) and st.module and st.module.startswith("tornado."):
            rel = st.module.replace(".", "/") + ".py"
            for a in st.names:
                out[a.asname or a.name] = (rel, a.name)
    return out


def resolve_call(repo: Repo, fi: FuncInfo, c: ast.Call) -> Optional[FuncInfo]:
    """Statically resolve a call in ``fi`` to a tornado function: ``self.m()`` ->
    method of the enclosing class, ``f()`` -> module-level function or class
    constructor, ``mod.f()`` / ``mod.Cls()`` / ``mod.Cls.m()`` for imported tornado
    modules, ``Cls.m()``.  None when not resolvable."""
    mod = fi.module
    d = q.dotted(c.func)
    if d is None:
        return None
    parts = d.split(".")

    def in_module(m, names: Sequence[str]) -> Optional[FuncInfo]:
        qn = ".".join(names)
        if qn in m.funcs:
            return m.funcs[qn]
        if qn in m.classes:
            return m.funcs.get(qn + ".__init__")
        return None

    if parts[0] in ("self", "cls") and len(parts) == 2:
        owner = fi
        while owner is not None and owner.cls is None:
            owner = owner.parent
        if owner is not None and owner.cls is not None:
            cname = owner.qualname.rsplit(".", 1)[0] if "." in owner.qualname else owner.cls.name
            return mod.funcs.get("%s.%s" % (cname.split(".<locals>.")[0], parts[1]))
        return None
    mods = _imported_tornado_modules(mod)
    if parts[0] in mods and mods[parts[0]] in repo.modules and len(parts) >= 2:
        return in_module(repo.modules[mods[parts[0]]], parts[1:])
    names = _imported_names(mod)
    if parts[0] in names:
        rel, orig = names[parts[0]]
        if rel in repo.modules:
            return in_module(repo.modules[rel], [orig] + parts[1:])
    return in_module(mod, parts)


def call_tree(repo: Repo, seeds: Iterable[FuncInfo], stop: Callable[[FuncInfo], bool] = lambda f: False, depth: int = 6) -> Dict[str, FuncInfo]:
    """Transitive closure of statically resolvable callees of ``seeds``
    (key = "relpath:qualname").  Nested functions of a member are not entered."""
    out: Dict[str, FuncInfo] = {}
    work = [(f, 0) for f in seeds]
    while work:
        f, d = work.pop()
        k = "%s:%s" % (f.file, f.qualname)
        if k in out:
            continue
        out[k] = f
        if d >= depth or stop(f):
            continue
        for c in q.calls(f.node):
            g = resolve_call(repo, f, c)
            if g is not None:
                work.append((g, d + 1))
    return out


def call_sites_in(tree: Dict[str, FuncInfo], repo: Repo, target: FuncInfo) -> List[Tuple[FuncInfo, ast.Call]]:
    out = []
    for f in tree.values():
        for c in q.calls(f.node):
            if resolve_call(repo, f, c) is target:
                out.append((f, c))
    return out


# ---------------------------------------------------------------------------
# exceptions


def raised_class(st: ast.Raise) -> Optional[str]:
    """Dotted class name raised by ``raise X(...)`` / ``raise X``; None for a bare
    re-raise or a non-name expression."""
    if st.exc is None:
        return None
    e = st.exc
    if isinstance(e, ast.Call):
        e = e.func
    return q.dotted(e)


def handler_reraises_as(h: ast.ExceptHandler) -> List[str]:
    return [raised_class(s) or "<reraise>" for s in q.walk_local(h) if isinstance(s, ast.Raise)]


def leads_to_raise(cfg: CFG, edges: Iterable[Edge], cls_ok: Callable[[Optional[str]], bool]) -> Tuple[bool, int]:
    """Every path that starts with one of ``edges`` reaches a ``raise`` of an
    accepted class before any normal exit / return / suspension.  Returns
    (ok, number of edges examined)."""
    n = 0
    ok = True
    for _src, dst, _k in edges:
        n += 1
        seen = set()
        st = [dst]
        while st:
            x = st.pop()
            if x in seen:
                continue
            seen.add(x)
            node = cfg.nodes[x]
            if node.kind == "stmt" and isinstance(node.ast, ast.Raise):
                if not cls_ok(raised_class(node.ast)):
                    ok = False
                continue
            if node.kind == "exit" or (node.kind == "stmt" and isinstance(node.ast, ast.Return)):
                ok = False
                continue
            for y, k in cfg.succ[x]:
                if k != "exc":
                    st.append(y)
    return ok, n


def same_expr(a: Optional[ast.AST], b: Optional[ast.AST]) -> bool:
    """Structural equality of two expressions (ignoring positions/contexts)."""
    if a is None or b is None:
        return False
    return ast.dump(a, annotate_fields=False, include_attributes=False).replace("Load()", "").replace("Store()", "") == ast.dump(b, annotate_fields=False, include_attributes=False).replace("Load()", "").replace("Store()", "")


def handler_for(fi: FuncInfo, node: ast.AST, exc: str) -> Optional[ast.ExceptHandler]:
    return q.protected_by(q.parent_map(fi.node), node, exc)


def contains(root: ast.AST, node: ast.AST) -> bool:
    return any(x is node for x in ast.walk(root))


def self_modsets(repo: Repo, relpath: str, clsname: str) -> Dict[str, Set[str]]:
    """method name -> attributes of ``self`` the method may assign, transitively
    through calls of other methods of the same class on ``self``."""
    direct: Dict[str, Set[str]] = {}
    calls: Dict[str, Set[str]] = {}
    for f in repo.direct_methods(relpath, clsname):
        st: Set[str] = set()
        cs: Set[str] = set()
        for n in ast.walk(f.node):
            if isinstance(n, (ast.Assign, ast.AugAssign, ast.AnnAssign, ast.Delete)):
                for p in q.assigned_paths(n):
                    parts = p.replace("[]", "").split(".")
                    if parts[0] == "self" and len(parts) >= 2:
                        st.add(parts[1])
            elif isinstance(n, ast.Call):
                d = q.dotted(n.func)
                if d and d.startswith("self.") and d.count(".") == 1:
                    cs.add(d.split(".")[1])
        direct[f.name] = st
        calls[f.name] = cs
    changed = True
    while changed:
        changed = False
        for m in direct:
            for c in calls[m]:
                if c in direct and not direct[c] <= direct[m]:
                    direct[m] |= direct[c]
                    changed = True
    return direct


# ---------------------------------------------------------------------------
# normalisation: inline single-purpose private helpers, so that a statement that a
# refactoring moved into `self._helper(...)` / `_helper(...)` is analysed in place


#: functions that are anchors of the HTTP properties themselves: never inlined into their callers
NO_INLINE = {
    "_read_message", "_parse_headers", "_read_body", "_read_fixed_body", "_read_chunked_body", "_read_body_until_close",
    "_can_keep_alive", "_finish_request", "_clear_callbacks", "_format_chunk", "_on_write_complete", "_on_connection_close",
    "_server_request_loop", "_check_max_bytes", "_find_read_pos", "_read_to_buffer", "_read_to_buffer_loop", "_try_inline_read",
    "_start_read", "_finish_read", "_read_from_buffer", "_handle_read", "_check_closed", "_should_follow_redirect", "_run_callback",
    "_release", "_remove_timeout", "_handle_exception", "_on_end_request", "_write_body", "_create_connection", "_apply_xheaders",
    "_unapply_xheaders", "_cleanup", "_normalize_header", "_parse_body", "_signal_closed", "_maybe_add_error_listener", "_consume",
    "_add_io_state", "_handle_events", "_handle_write", "_handle_connect", "__init__",
}


def _terminates(body: List[ast.stmt]) -> bool:
    if not body:
        return False
    last = body[-1]
    if isinstance(last, (ast.Return, ast.Raise, ast.Continue, ast.Break)):
        return True
    if isinstance(last, ast.If):
        return bool(last.orelse) and _terminates(last.body) and _terminates(last.orelse)
    return False


def _tailify(body: List[ast.stmt]) -> List[ast.stmt]:
    """``if c: ...return``  followed by more statements  ==>  ``if c: ...return  else: <rest>`` (recursively)"""
    out = []
    for i, st in enumerate(body):
        if isinstance(st, ast.If):
            st.body = _tailify(st.body)
            st.orelse = _tailify(st.orelse)
            if i < len(body) - 1 and not st.orelse and _terminates(st.body) and isinstance(st.body[-1], (ast.Return, ast.Raise)):
                st.orelse = _tailify(body[i + 1:])
                out.append(st)
                return out
        elif isinstance(st, ast.Try) and not st.finalbody:
            st.body = _tailify(st.body)
            st.orelse = _tailify(st.orelse)
            for h in st.handlers:
                h.body = _tailify(h.body)
            # try: A  except: <terminates>   followed by REST   ==   try: A  except: ...  else: REST
            if i < len(body) - 1 and st.handlers and all(_terminates(h.body) for h in st.handlers) and any(_has_return(x) for x in body[i + 1:] + st.handlers):
                st.orelse = st.orelse + _tailify(body[i + 1:])
                out.append(st)
                return out
        elif isinstance(st, (ast.With, ast.AsyncWith)):
            st.body = _tailify(st.body)
        out.append(st)
    return out


def _has_return(st: ast.AST) -> bool:
    return any(isinstance(x, ast.Return) for x in q.walk_local(st))


def _tail_ok(body: List[ast.stmt]) -> bool:
    """every ``return`` of the block is in tail position"""
    for st in body[:-1]:
        if _has_return(st):
            return False
    if not body:
        return True
    last = body[-1]
    if isinstance(last, ast.Return):
        return True
    if isinstance(last, ast.If):
        return _tail_ok(last.body) and _tail_ok(last.orelse)
    if isinstance(last, ast.Try):
        return not last.finalbody and _tail_ok(last.body if not last.orelse else last.orelse) and (not last.orelse or not any(_has_return(s) for s in last.body)) and all(_tail_ok(h.body) for h in last.handlers)
    if isinstance(last, (ast.With, ast.AsyncWith)):
        return _tail_ok(last.body)
    return not _has_return(last)


def _rewrite_returns(body: List[ast.stmt], make) -> List[ast.stmt]:
    out = []
    for st in body:
        if isinstance(st, ast.Return):
            out.extend(make(st))
            continue
        if isinstance(st, ast.If):
            st.body = _rewrite_returns(st.body, make)
            st.orelse = _rewrite_returns(st.orelse, make)
        elif isinstance(st, ast.Try):
            st.body = _rewrite_returns(st.body, make)
            st.orelse = _rewrite_returns(st.orelse, make)
            for h in st.handlers:
                h.body = _rewrite_returns(h.body, make)
        elif isinstance(st, (ast.With, ast.AsyncWith)):
            st.body = _rewrite_returns(st.body, make)
        out.append(st)
    return out or [ast.Pass()]


class _Rename(ast.NodeTransformer):
    def __init__(self, mapping):
        self.m = mapping

    def visit_Name(self, n):
        if n.id in self.m:
            return ast.copy_location(ast.Name(id=self.m[n.id], ctx=n.ctx), n)
        return n

    def visit_ExceptHandler(self, h):
        if h.name and h.name in self.m:
            h.name = self.m[h.name]
        self.generic_visit(h)
        return h


_INLINE_COUNTER = [0]


def _inline_call_stmt(repo: Repo, fi: FuncInfo, st: ast.stmt, no_inline: Set[str]) -> Optional[List[ast.stmt]]:
    import copy as _copy
    v = st.value if isinstance(st, (ast.Assign, ast.AnnAssign, ast.Expr, ast.Return)) else None
    awaited = False
    if isinstance(v, ast.Await):
        v = v.value
        awaited = True
    if not isinstance(v, ast.Call):
        return None
    if isinstance(st, ast.Assign) and not (len(st.targets) == 1 and (q.dotted(st.targets[0]) or (isinstance(st.targets[0], (ast.Tuple, ast.List)) and all(isinstance(x, ast.Name) for x in st.targets[0].elts)))):
        return None
    h = resolve_call(repo, fi, v)
    if h is None or h.file != fi.file or h.node is fi.node or h.qualname == fi.qualname:
        return None
    if h.name in no_inline or not h.name.startswith("_") or h.name.startswith("__"):
        return None
    hn = h.node
    if isinstance(hn, ast.AsyncFunctionDef) != awaited:
        return None
    deco = [q.dotted(d) for d in hn.decorator_list]
    if any(d not in ("staticmethod", "classmethod") for d in deco):
        return None
    if any(isinstance(x, (ast.Yield, ast.YieldFrom) + FuncNodeT + (ast.ClassDef, ast.Lambda, ast.Global, ast.Nonlocal)) for s in hn.body for x in q.walk_local(s)):
        return None
    a = hn.args
    if a.vararg or a.kwarg or a.posonlyargs or any(isinstance(x, ast.Starred) for x in v.args) or any(k.arg is None for k in v.keywords):
        return None
    if sum(1 for s in hn.body for _x in ast.walk(s) if isinstance(_x, ast.stmt)) > 40:
        return None
    names = [x.arg for x in a.args]
    is_method = h.cls is not None and "staticmethod" not in deco
    recv = None
    if is_method:
        if not names:
            return None
        if isinstance(v.func, ast.Attribute) and q.dotted(v.func.value) in ("self", "cls"):
            recv = v.func.value
        else:
            return None
        first = names[0]
        if "classmethod" in deco and any(isinstance(x, ast.Name) and x.id == first for s in hn.body for x in ast.walk(s)):
            return None
        names = names[1:]
    body = _tailify(_copy.deepcopy(hn.body))
    if body and isinstance(body[0], ast.Expr) and isinstance(body[0].value, ast.Constant) and isinstance(body[0].value.value, str):
        body = body[1:]
    if not isinstance(st, ast.Return) and not _tail_ok(body):
        return None
    _INLINE_COUNTER[0] += 1
    pre = "_inl%d_" % _INLINE_COUNTER[0]
    locs = set(q.local_names(hn)) | set(names)
    mapping = {n: pre + n for n in locs}
    if is_method and "classmethod" not in deco:
        mapping.pop(hn.args.args[0].arg, None)
        if hn.args.args[0].arg != "self":
            mapping[hn.args.args[0].arg] = "self"
    defaults = [None] * (len(a.args) - len(a.defaults)) + list(a.defaults)
    if is_method:
        defaults = defaults[1:]
    binds: List[ast.stmt] = []
    kw = {k.arg: k.value for k in v.keywords}
    assigned_in_helper = {n.id for s0 in hn.body for n in q.walk_local(s0) if isinstance(n, ast.Name) and isinstance(n.ctx, (ast.Store, ast.Del))}
    target_name = None
    if isinstance(st, ast.Assign) and isinstance(st.targets[0], ast.Name):
        target_name = st.targets[0].id
    elif isinstance(st, ast.AnnAssign) and isinstance(st.target, ast.Name):
        target_name = st.target.id
    expr_subst: Dict[str, ast.AST] = {}

    def reads_of(nm):
        return sum(1 for s0 in hn.body for n in q.walk_local(s0) if isinstance(n, ast.Name) and n.id == nm and isinstance(n.ctx, ast.Load))

    _rets0 = [x for s0 in body for x in q.walk_local(s0) if isinstance(x, ast.Return)]

    def bind_param(nm, val):
        # x = helper(x, ...) where the helper updates its parameter and returns it on every path: it works on x in place
        if isinstance(val, ast.Name) and val.id == target_name and _rets0 and all(isinstance(r.value, ast.Name) and r.value.id == nm for r in _rets0):
            mapping[nm] = val.id
            return
        # a plain local name handed to a parameter the helper never rebinds: the helper simply works on that name
        if isinstance(val, ast.Name) and nm not in assigned_in_helper and val.id != target_name:
            mapping[nm] = val.id
            return
        # a call-free expression over locals used exactly once by the helper: substitute it
        if nm not in assigned_in_helper and reads_of(nm) == 1 and not any(isinstance(x, (ast.Await, ast.Attribute, ast.Subscript, ast.Yield, ast.NamedExpr)) for x in ast.walk(val)) \
                and all((not isinstance(x, ast.Call)) or (isinstance(x.func, ast.Name) and x.func.id in ("len", "bool", "int", "str", "min", "max")) for x in ast.walk(val)) \
                and not (q.names_in(val) & (locs | ({target_name} if target_name else set()))) and not isinstance(val, ast.Constant):
            expr_subst[pre + nm] = val
        binds.append(ast.Assign(targets=[ast.Name(id=pre + nm, ctx=ast.Store())], value=val))

    for i, nm in enumerate(names):
        if i < len(v.args):
            val = v.args[i]
        elif nm in kw:
            val = kw[nm]
        elif defaults[i] is not None:
            val = _copy.deepcopy(defaults[i])
        else:
            return None
        bind_param(nm, val)
    for x, dv in zip(a.kwonlyargs, a.kw_defaults):
        if x.arg in kw:
            val = kw[x.arg]
        elif dv is not None:
            val = _copy.deepcopy(dv)
        else:
            return None
        mapping[x.arg] = pre + x.arg
        bind_param(x.arg, val)
    # the helper's result variable becomes the caller's target when every return hands back the same local (or a constant)
    if target_name is not None and target_name not in {n for av in list(v.args) + [k.value for k in v.keywords] for n in q.names_in(av)}:
        rets = [x for s0 in body for x in q.walk_local(s0) if isinstance(x, ast.Return)]
        rnames = {x.value.id for x in rets if isinstance(x.value, ast.Name)}
        if len(rnames) == 1 and all(x.value is None or isinstance(x.value, (ast.Name, ast.Constant)) for x in rets):
            rn = next(iter(rnames))
            if rn in locs and rn not in names and mapping.get(rn) == pre + rn and target_name not in locs - {rn}:
                mapping[rn] = target_name
    body = [_Rename(mapping).visit(s) for s in body]
    if expr_subst:
        class _ES(ast.NodeTransformer):
            def visit_Name(self, n):
                if isinstance(n.ctx, ast.Load) and n.id in expr_subst:
                    return ast.copy_location(_copy.deepcopy(expr_subst[n.id]), n)
                return n
        body = [_ES().visit(s) for s in body]
        binds = [b for b in binds if b.targets[0].id not in expr_subst]
    if isinstance(st, ast.Return):
        new = body
        if not _terminates(new):
            new = new + [ast.Return(value=ast.Constant(value=None))]
    else:
        if isinstance(st, ast.Expr):
            make = lambda r: ([ast.Expr(value=r.value)] if r.value is not None and not isinstance(r.value, (ast.Constant, ast.Name)) else [ast.Pass()])
            init: List[ast.stmt] = []
        else:
            tgt = st.targets[0] if isinstance(st, ast.Assign) else st.target
            make = lambda r, tgt=tgt: [ast.Assign(targets=[_copy.deepcopy(tgt)], value=r.value if r.value is not None else ast.Constant(value=None))]
            init = [] if _terminates_all_paths_with_return(body) else [ast.Assign(targets=[_copy.deepcopy(tgt)], value=ast.Constant(value=None))]
        new = init + _rewrite_returns(body, make)
    out = binds + new
    out = _drop_self_assign(out)
    for s in out:
        ast.copy_location(s, st)
        ast.fix_missing_locations(s)
    return out


FuncNodeT = (ast.FunctionDef, ast.AsyncFunctionDef)


def _drop_self_assign(body: List[ast.stmt]) -> List[ast.stmt]:
    out = []
    for st in body:
        if isinstance(st, ast.Assign) and len(st.targets) == 1 and isinstance(st.targets[0], ast.Name) and isinstance(st.value, ast.Name) and st.value.id == st.targets[0].id:
            continue
        for fld in ("body", "orelse"):
            sub = getattr(st, fld, None)
            if isinstance(sub, list) and sub and isinstance(sub[0], ast.stmt):
                setattr(st, fld, _drop_self_assign(sub) or [ast.Pass()])
        for h in getattr(st, "handlers", []) or []:
            h.body = _drop_self_assign(h.body) or [ast.Pass()]
        out.append(st)
    return out


def _terminates_all_paths_with_return(body: List[ast.stmt]) -> bool:
    """every path through the (tail-normalised) block ends in return/raise"""
    if not body:
        return False
    last = body[-1]
    if isinstance(last, (ast.Return, ast.Raise)):
        return True
    if isinstance(last, ast.If):
        return bool(last.orelse) and _terminates_all_paths_with_return(last.body) and _terminates_all_paths_with_return(last.orelse)
    if isinstance(last, ast.Try) and not last.finalbody:
        return _terminates_all_paths_with_return(last.orelse if last.orelse else last.body) and all(_terminates_all_paths_with_return(h.body) for h in last.handlers)
    if isinstance(last, (ast.With, ast.AsyncWith)):
        return _terminates_all_paths_with_return(last.body)
    return False


def norm_func(repo: Repo, fi: FuncInfo, depth: int = 3, no_inline: Optional[Set[str]] = None) -> FuncInfo:
    """``fi`` with statement-level calls of private same-file helpers (tail-returning, non-recursive, at most 40
    statements, not themselves anchors) replaced by the helper's body.  The result has the same qualified name, so
    findings are keyed by the anchored function."""
    import copy as _copy
    cache = repo.__dict__.setdefault("_x_http_norm", {})
    key = (fi.file, fi.qualname, id(fi.node))
    if key in cache:
        return cache[key]
    no_inline = NO_INLINE if no_inline is None else no_inline
    node = _copy.deepcopy(fi.node)
    cur = FuncInfo(fi.module, fi.qualname, node, fi.cls, fi.parent)
    changed_any = False

    # `x: T = v` is `x = v` for every rule (annotations carry no behaviour)
    class _DeAnn(ast.NodeTransformer):
        def visit_AnnAssign(self, n):
            nonlocal changed_any
            if n.value is None:
                return n
            changed_any = True
            return ast.copy_location(ast.Assign(targets=[n.target], value=n.value), n)

        def visit_FunctionDef(self, n):
            return n if n is not node else self.generic_visit(n)

        visit_AsyncFunctionDef = visit_FunctionDef

        def visit_Lambda(self, n):
            return n

        def visit_ClassDef(self, n):
            return n

    _DeAnn().visit(node)

    # `return A if C else B` / `x = A if C else B`  ==  if C: ... else: ...   (so that branch-edge rules see the test)
    def _lower_ifexp(body: List[ast.stmt]) -> List[ast.stmt]:
        nonlocal changed_any
        out: List[ast.stmt] = []
        for st in body:
            if isinstance(st, FuncNodeT + (ast.ClassDef,)):
                out.append(st)
                continue
            for fld in ("body", "orelse", "finalbody"):
                sub = getattr(st, fld, None)
                if isinstance(sub, list) and sub and isinstance(sub[0], ast.stmt):
                    setattr(st, fld, _lower_ifexp(sub))
            for h in getattr(st, "handlers", []) or []:
                h.body = _lower_ifexp(h.body)
            v = st.value if isinstance(st, (ast.Return, ast.Assign, ast.Expr)) else None
            if isinstance(v, ast.IfExp) and not (isinstance(st, ast.Assign) and len(st.targets) != 1):
                changed_any = True

                def mk(val):
                    if isinstance(st, ast.Return):
                        n_ = ast.Return(value=val)
                    elif isinstance(st, ast.Assign):
                        n_ = ast.Assign(targets=[_copy.deepcopy(st.targets[0])], value=val)
                    else:
                        n_ = ast.Expr(value=val)
                    return ast.copy_location(n_, st)

                new = ast.copy_location(ast.If(test=v.test, body=_lower_ifexp([mk(v.body)]), orelse=_lower_ifexp([mk(v.orelse)])), st)
                ast.fix_missing_locations(new)
                out.append(new)
                continue
            out.append(st)
        return out

    node.body = _lower_ifexp(node.body)
    for _round in range(depth):
        changed = False

        def inlinable(c) -> bool:
            if not isinstance(c, ast.Call):
                return False
            h = resolve_call(repo, cur, c)
            return h is not None and h.file == cur.file and h.name.startswith("_") and not h.name.startswith("__") and h.name not in no_inline and h.qualname != cur.qualname

        PURE_WRAP = ("bool", "int", "len", "str")

        def hoistable(e):
            """the single inlinable helper call of expression ``e`` (possibly awaited and wrapped in not/bool()/comparison
            with constants), if it is the only call of the expression; else None"""
            calls = [x for x in ast.walk(e) if isinstance(x, ast.Call) and not (isinstance(x.func, ast.Name) and x.func.id in PURE_WRAP)]
            cands = [c for c in calls if inlinable(c)]
            if len(cands) != 1:
                return None
            target = cands[0]
            if len(calls) > 1:
                # other calls are tolerated only if the helper call is evaluated before them: it is nested in their
                # argument lists, their callee expressions are call-free and no earlier sibling argument contains a call
                pm = q.parent_map(e)
                for oc in calls:
                    if oc is target:
                        continue
                    if not any(x is target for x in ast.walk(oc)):
                        return None
                    if any(isinstance(x, (ast.Call, ast.Await)) for x in ast.walk(oc.func)):
                        return None
                    for a_ in list(oc.args) + [k.value for k in oc.keywords]:
                        if any(x is target for x in ast.walk(a_)):
                            break
                        if any(isinstance(x, (ast.Call, ast.Await)) for x in ast.walk(a_)):
                            return None
                calls = [target]
            if any(isinstance(x, (ast.Lambda, ast.GeneratorExp, ast.ListComp, ast.SetComp, ast.DictComp, ast.IfExp, ast.BoolOp, ast.NamedExpr)) for x in ast.walk(e)):
                return None
            aw = [x for x in ast.walk(e) if isinstance(x, ast.Await) and x.value is calls[0]]
            other_aw = [x for x in ast.walk(e) if isinstance(x, ast.Await) and x.value is not calls[0] and not any(y is calls[0] for y in ast.walk(x))]
            if other_aw:
                return None
            return aw[0] if aw else calls[0]

        def hoist(e, st_like):
            """(pre-statements, new expression) with the helper call of ``e`` bound to a fresh temporary"""
            nonlocal changed
            tgt = hoistable(e)
            if tgt is None:
                return None
            if e is tgt:
                return None  # plain `x = helper()` / `return helper()` is handled by the statement inliner
            _INLINE_COUNTER[0] += 1
            tmp = "_inlr%d" % _INLINE_COUNTER[0]
            asg = ast.copy_location(ast.Assign(targets=[ast.Name(id=tmp, ctx=ast.Store())], value=tgt), st_like)
            ast.fix_missing_locations(asg)
            rep = _inline_call_stmt(repo, cur, asg, no_inline)
            if rep is None:
                return None
            changed = True
            return rep, _subst_node(e, tgt, ast.Name(id=tmp, ctx=ast.Load()))

        def visit(body: List[ast.stmt]) -> List[ast.stmt]:
            nonlocal changed
            out = []
            for st in body:
                if isinstance(st, FuncNodeT + (ast.ClassDef,)):
                    out.append(st)
                    continue
                rep = _inline_call_stmt(repo, cur, st, no_inline)
                if rep is not None:
                    changed = True
                    out.extend(rep)
                    continue
                # helper call inside a test / a returned or assigned expression: bind it to a temporary first
                if isinstance(st, ast.While) and not st.orelse:
                    h = None
                    tgt = hoistable(st.test)
                    if tgt is not None:
                        _INLINE_COUNTER[0] += 1
                        tmp = "_inlr%d" % _INLINE_COUNTER[0]
                        asg = ast.copy_location(ast.Assign(targets=[ast.Name(id=tmp, ctx=ast.Store())], value=tgt), st)
                        ast.fix_missing_locations(asg)
                        rep = _inline_call_stmt(repo, cur, asg, no_inline)
                        if rep is not None:
                            changed = True
                            newtest = _subst_node(st.test, tgt, ast.Name(id=tmp, ctx=ast.Load())) if st.test is not tgt else ast.Name(id=tmp, ctx=ast.Load())
                            brk = ast.If(test=ast.UnaryOp(op=ast.Not(), operand=newtest), body=[ast.Break()], orelse=[])
                            st.test = ast.Constant(value=True)
                            st.body = rep + [brk] + visit(st.body)
                            for x in [brk]:
                                ast.copy_location(x, st)
                                ast.fix_missing_locations(x)
                            out.append(st)
                            continue
                elif isinstance(st, ast.If):
                    tgt = hoistable(st.test)
                    if tgt is not None:
                        _INLINE_COUNTER[0] += 1
                        tmp = "_inlr%d" % _INLINE_COUNTER[0]
                        asg = ast.copy_location(ast.Assign(targets=[ast.Name(id=tmp, ctx=ast.Store())], value=tgt), st)
                        ast.fix_missing_locations(asg)
                        rep = _inline_call_stmt(repo, cur, asg, no_inline)
                        if rep is not None:
                            changed = True
                            st.test = _subst_node(st.test, tgt, ast.Name(id=tmp, ctx=ast.Load())) if st.test is not tgt else ast.Name(id=tmp, ctx=ast.Load())
                            out.extend(rep)
                elif isinstance(st, (ast.Return, ast.Assign, ast.Expr)) and st.value is not None:
                    r = hoist(st.value, st)
                    if r is not None:
                        pre_stmts, newval = r
                        st.value = newval
                        out.extend(pre_stmts)
                for fld in ("body", "orelse", "finalbody"):
                    sub = getattr(st, fld, None)
                    if isinstance(sub, list) and sub and isinstance(sub[0], ast.stmt):
                        setattr(st, fld, visit(sub))
                for h in getattr(st, "handlers", []) or []:
                    h.body = visit(h.body)
                out.append(st)
            return out

        node.body = visit(node.body)
        if not changed:
            break
        changed_any = True
    node.body = _lower_ifexp(node.body)  # conditional expressions brought in by inlined helpers

    # jump threading:  if C: x = E1 else: x = E2 ; if x: S [else: T]   ==>   if C: (if E1: S else: T) else: (if E2: S else: T)
    # when x is a local used nowhere else (a flag that only carries a branch outcome to the next statement)
    def _loads(name):
        return sum(1 for n_ in q.walk_body(node) if isinstance(n_, ast.Name) and n_.id == name and isinstance(n_.ctx, ast.Load))

    def _stores(name):
        return sum(1 for n_ in q.walk_body(node) if isinstance(n_, ast.Name) and n_.id == name and isinstance(n_.ctx, (ast.Store, ast.Del)))

    def _thread(body: List[ast.stmt]) -> List[ast.stmt]:
        nonlocal changed_any
        out: List[ast.stmt] = []
        i = 0
        while i < len(body):
            st = body[i]
            nxt = body[i + 1] if i + 1 < len(body) else None
            if (isinstance(st, ast.If) and len(st.body) == 1 and len(st.orelse) == 1 and isinstance(nxt, ast.If)
                    and all(isinstance(b, ast.Assign) and len(b.targets) == 1 and isinstance(b.targets[0], ast.Name) for b in (st.body[0], st.orelse[0]))
                    and st.body[0].targets[0].id == st.orelse[0].targets[0].id):
                x = st.body[0].targets[0].id
                t = nxt.test
                neg = isinstance(t, ast.UnaryOp) and isinstance(t.op, ast.Not)
                tn = t.operand if neg else t
                if isinstance(tn, ast.Name) and tn.id == x and _loads(x) == 1 and _stores(x) == 2 and not any(isinstance(y, (ast.Await, ast.NamedExpr)) for b in (st.body[0], st.orelse[0]) for y in ast.walk(b.value)):
                    def branch(val):
                        test = ast.UnaryOp(op=ast.Not(), operand=val) if neg else val
                        n2 = ast.If(test=test, body=_copy.deepcopy(nxt.body), orelse=_copy.deepcopy(nxt.orelse))
                        return ast.copy_location(n2, nxt)
                    new = ast.copy_location(ast.If(test=st.test, body=[branch(st.body[0].value)], orelse=[branch(st.orelse[0].value)]), st)
                    ast.fix_missing_locations(new)
                    changed_any = True
                    out.append(new)
                    i += 2
                    continue
            for fld in ("body", "orelse", "finalbody"):
                sub = getattr(st, fld, None)
                if isinstance(sub, list) and sub and isinstance(sub[0], ast.stmt) and not isinstance(st, FuncNodeT + (ast.ClassDef,)):
                    setattr(st, fld, _thread(sub))
            for h in getattr(st, "handlers", []) or []:
                h.body = _thread(h.body)
            out.append(st)
            i += 1
        return out

    node.body = _thread(node.body)

    # `except Exception as e: if not isinstance(e, X): raise` + rest   ==   `except X as e:` + rest   (last handler only)
    for t_ in [x for x in q.walk_body(node) if isinstance(x, ast.Try)]:
        if not t_.handlers:
            continue
        h_ = t_.handlers[-1]
        if h_.name and h_.type is not None and q.dotted(h_.type) in ("Exception", "BaseException") and len(h_.body) >= 2 and isinstance(h_.body[0], ast.If) and not h_.body[0].orelse:
            g_ = h_.body[0]
            tst = g_.test
            if (isinstance(tst, ast.UnaryOp) and isinstance(tst.op, ast.Not) and isinstance(tst.operand, ast.Call) and q.dotted(tst.operand.func) == "isinstance"
                    and len(tst.operand.args) == 2 and q.dotted(tst.operand.args[0]) == h_.name and q.dotted(tst.operand.args[1])
                    and len(g_.body) == 1 and isinstance(g_.body[0], ast.Raise) and (g_.body[0].exc is None or q.dotted(g_.body[0].exc) == h_.name)):
                h_.type = tst.operand.args[1]
                h_.body = h_.body[1:]
                changed_any = True
    # private same-file helpers that are still called but could not be inlined (early returns inside loops, recursion,
    # generators, ...): rules must not turn "statement not found here" into a violation for such a function
    opaque = []
    for c in q.calls(node):
        h = resolve_call(repo, cur, c)
        if h is not None and h.file == fi.file and h.name.startswith("_") and not h.name.startswith("__") and h.name not in no_inline and h.qualname != fi.qualname:
            opaque.append(h.name)
    if not changed_any:
        res = fi if not opaque else FuncInfo(fi.module, fi.qualname, fi.node, fi.cls, fi.parent)
    else:
        ast.fix_missing_locations(node)
        res = FuncInfo(fi.module, fi.qualname, node, fi.cls, fi.parent)
    if opaque:
        res._opaque = sorted(set(opaque))
    cache[key] = res
    return res


class GuardedCheck:
    """Proxy of vt.report.Check used by the HTTP property modules: a failed obligation on a function that still
    calls private helpers the normaliser could not inline is not positive evidence (the governed statement may live
    in the helper) — it ends in AnalysisError instead of a VIOLATION."""

    def __init__(self, ck):
        object.__setattr__(self, "_ck", ck)

    def __getattr__(self, name):
        return getattr(object.__getattribute__(self, "_ck"), name)

    def __setattr__(self, name, value):
        setattr(object.__getattribute__(self, "_ck"), name, value)

    def ob(self, rule, fi, node, ok, what, *a, **kw):
        if not ok and fi is not None and getattr(fi, "_opaque", None):
            raise AnalysisError("%s at %s: not decided — private helper(s) %s of %s could not be inlined" % (rule, fi.site(node) if isinstance(node, ast.AST) else fi.qualname, ", ".join(fi._opaque), fi.qualname))
        return object.__getattribute__(self, "_ck").ob(rule, fi, node, ok, what, *a, **kw)


# ---------------------------------------------------------------------------
# handlers whose class list is a module-level constant


def handler_class_names(fi: FuncInfo, h: ast.ExceptHandler) -> List[str]:
    """q.handler_names with module-level tuple constants (``except _GONE_ERRORS:``) resolved"""
    out = []
    for nm in q.handler_names(h):
        v = fi.module.assigns.get(nm)
        if isinstance(v, (ast.Tuple, ast.List)):
            out.extend(q.dotted(e) or q.unparse(e) for e in v.elts)
        elif v is not None and q.dotted(v):
            out.append(q.dotted(v))
        else:
            out.append(nm)
    return out


def handler_for(fi: FuncInfo, node: ast.AST, exc: str) -> Optional[ast.ExceptHandler]:  # noqa: F811 (supersedes the simple version above)
    pm = q.parent_map(fi.node)
    for _try, handlers in q.enclosing_try_handlers(pm, node):
        for h in handlers:
            if q.exc_is_caught(exc, handler_class_names(fi, h)):
                return h
    return None


# ---------------------------------------------------------------------------
# values through reaching definitions


class Flow:
    """Reaching-definition view of a function (x_secflow.Reach) with helpers to ask what an expression *is*."""

    def __init__(self, fi: FuncInfo):
        from .x_secflow import Reach
        self.fi = fi
        self.reach = Reach(fi)
        self.cfg = fi.cfg

    def node_of(self, astnode: ast.AST) -> Node:
        ns = self.reach.cfg_nodes_of(astnode)
        if not ns:
            raise AnalysisError("no reachable CFG node for %s" % self.fi.site(astnode))
        return ns[0]

    def expand(self, e: ast.AST, at: Optional[Node] = None) -> ast.AST:
        return self.reach.expand(e, at if at is not None else self.node_of(e))

    def alternatives(self, e: ast.AST, at: Optional[Node] = None, limit: int = 16) -> List[Tuple[ast.AST, List[Node]]]:
        """All expansions of ``e``: a name with several reaching definitions yields one alternative per definition.
        Each alternative comes with the CFG nodes of the definitions it went through."""
        at = at if at is not None else self.node_of(e)
        out: List[Tuple[ast.AST, List[Node]]] = []

        def go(expr: ast.AST, node: Node, via: List[Node], depth: int):
            if len(out) >= limit or depth > 8:
                out.append((expr, via))
                return
            # find the first name with != 1 reaching definitions or a plain single assignment
            for x in ast.walk(expr):
                if isinstance(x, (ast.Name, ast.Attribute)) and isinstance(getattr(x, "ctx", ast.Load()), ast.Load):
                    d = q.dotted(x)
                    if d is None:
                        continue
                    ds = [df for df in self.reach.defs_at(node, d) if df.kind in ("assign", "unpack") and df.value is not None and df.node is not None]
                    all_ds = self.reach.defs_at(node, d)
                    if not ds or len(ds) != len(all_ds):
                        continue
                    if any(df.node in via for df in ds):
                        continue
                    for df in ds:
                        val = df.value
                        if df.kind == "unpack":
                            val = ast.Call(func=ast.Name(id="__unpack__", ctx=ast.Load()), args=[df.value, ast.Constant(value=df.index), ast.Constant(value=df.arity)], keywords=[])
                        # the substituted value is relative to its defining node: expand it there first
                        val2 = self.reach.expand(val, df.node) if len(ds) == 1 else val
                        new = _subst_node(expr, x, val2)
                        if len(ds) == 1:
                            go(new, node, via + [df.node], depth + 1)
                        else:
                            # continue resolving the substituted part at its own definition point
                            for alt, v2 in self.alternatives(val, df.node, limit):
                                out.append((_subst_node(expr, x, alt), via + [df.node] + v2))
                    return
            out.append((expr, via))

        go(e, at, [], 0)
        return out


def _subst_node(root: ast.AST, target: ast.AST, repl: ast.AST) -> ast.AST:
    import copy as _copy

    class T(ast.NodeTransformer):
        def visit(self, n):
            if n is target:
                return _copy.deepcopy(repl)
            return super().visit(n)

    # copy everything except that identity of `target` must be preserved during the walk
    memo = {id(target): target}
    root2 = _copy.deepcopy(root, memo)
    return T().visit(root2)


def unpack_of(e: ast.AST) -> Optional[Tuple[ast.AST, int, int]]:
    if isinstance(e, ast.Call) and isinstance(e.func, ast.Name) and e.func.id == "__unpack__" and len(e.args) == 3:
        return e.args[0], e.args[1].value, e.args[2].value
    return None


def group_index(e: ast.AST) -> Optional[int]:
    """``M.group(k)`` -> k ; ``__unpack__(M.group(a, b, c), i, n)`` -> the i-th of a, b, c ; ``M[k]`` -> k ;
    ``__unpack__(M.groups(), i, n)`` -> i + 1"""
    u = unpack_of(e)
    if u is not None:
        v, i, n = u
        if isinstance(v, ast.Call) and q.call_attr(v) == "group" and len(v.args) == n and all(isinstance(a, ast.Constant) for a in v.args):
            return v.args[i].value
        if isinstance(v, ast.Call) and q.call_attr(v) == "groups" and not v.args:
            return i + 1
        return None
    if isinstance(e, ast.Call) and q.call_attr(e) == "group" and len(e.args) == 1 and isinstance(e.args[0], ast.Constant):
        return e.args[0].value
    if isinstance(e, ast.Call) and q.call_attr(e) == "group" and not e.args and not e.keywords:
        return 0
    if isinstance(e, ast.Subscript) and isinstance(e.slice, ast.Constant) and type(e.slice.value) is int:
        return e.slice.value
    return None


# ---------------------------------------------------------------------------
# module-level constants, bound arguments


def module_consts(mod) -> Dict[str, object]:
    """module-level NAME = <literal> (numbers, strings, bytes, tuples/lists/sets/frozensets of literals)"""
    out: Dict[str, object] = {}

    def lit(e):
        if isinstance(e, ast.Constant):
            return e.value
        if isinstance(e, (ast.Tuple, ast.List)):
            return tuple(lit(x) for x in e.elts)
        if isinstance(e, ast.Set):
            return frozenset(lit(x) for x in e.elts)
        if isinstance(e, ast.Call) and isinstance(e.func, ast.Name) and e.func.id in ("frozenset", "set", "tuple") and len(e.args) == 1:
            v = lit(e.args[0])
            return frozenset(v) if e.func.id != "tuple" else tuple(v)
        raise ValueError

    for k, v in mod.assigns.items():
        try:
            out[k] = lit(v)
        except (ValueError, TypeError):
            pass
    return out


def const_of(fi_or_mod, e: ast.AST) -> Optional[ast.AST]:
    """``e`` itself if it is a literal, or the literal a module-level name is bound to (a hoisted constant)"""
    if isinstance(e, ast.Constant):
        return e
    mod = getattr(fi_or_mod, "module", fi_or_mod)
    if isinstance(e, ast.Name) and isinstance(mod.assigns.get(e.id), ast.Constant):
        return mod.assigns[e.id]
    return None


def bound_args(repo: Repo, fi: FuncInfo, call: ast.Call) -> Optional[Dict[str, ast.AST]]:
    """parameter name -> argument expression for a call whose callee resolves statically (constructor calls bind
    ``__init__``); positional and keyword arguments alike; None when the callee is unknown or uses *args/**kwargs"""
    h = resolve_call(repo, fi, call)
    if h is None and not any(isinstance(a, ast.Starred) for a in call.args) and not any(k.arg is None for k in call.keywords):
        fields = class_fields(repo, fi, call.func)
        if fields:
            out0: Dict[str, ast.AST] = {}
            for i, v in enumerate(call.args):
                if i >= len(fields):
                    return None
                out0[fields[i]] = v
            for k in call.keywords:
                out0[k.arg] = k.value
            return out0
    if h is None or any(isinstance(a, ast.Starred) for a in call.args) or any(k.arg is None for k in call.keywords):
        return None
    a = h.node.args
    if a.vararg or a.kwarg:
        return None
    names = [x.arg for x in a.posonlyargs + a.args]
    deco = [q.dotted(d) for d in h.node.decorator_list]
    if h.cls is not None and "staticmethod" not in deco and names:
        names = names[1:]
    out: Dict[str, ast.AST] = {}
    for i, v in enumerate(call.args):
        if i >= len(names):
            return None
        out[names[i]] = v
    for k in call.keywords:
        out[k.arg] = k.value
    return out


def class_fields(repo: Repo, fi: FuncInfo, callee: ast.AST) -> Optional[List[str]]:
    """annotated fields, in order, of a class without ``__init__`` (typing.NamedTuple / dataclass style) named by ``callee``"""
    d = q.dotted(callee)
    if d is None:
        return None
    parts = d.split(".")
    mods = [fi.module]
    imp = _imported_tornado_modules(fi.module)
    if parts[0] in imp and imp[parts[0]] in repo.modules and len(parts) == 2:
        mods = [repo.modules[imp[parts[0]]]]
        parts = parts[1:]
    names = _imported_names(fi.module)
    if parts[0] in names and names[parts[0]][0] in repo.modules and len(parts) == 1:
        mods = [repo.modules[names[parts[0]][0]]]
        parts = [names[parts[0]][1]]
    if len(parts) != 1:
        return None
    for m in mods:
        c = m.classes.get(parts[0])
        if c is not None and (parts[0] + ".__init__") not in m.funcs:
            f = [st.target.id for st in c.body if isinstance(st, ast.AnnAssign) and isinstance(st.target, ast.Name)]
            return f or None
    return None


def argx(repo: Repo, fi: FuncInfo, call: ast.Call, index: int, name: Optional[str] = None) -> Optional[ast.AST]:
    """argument by position or by the callee's parameter name (resolved from the callee when ``name`` is not given)"""
    if index < len(call.args) and not any(isinstance(a, ast.Starred) for a in call.args[: index + 1]):
        return call.args[index]
    b = bound_args(repo, fi, call)
    if b is not None and resolve_call(repo, fi, call) is None:
        fields = class_fields(repo, fi, call.func) or []
        if index < len(fields):
            return b.get(fields[index])
    elif b is not None:
        h = resolve_call(repo, fi, call)
        a = h.node.args
        names = [x.arg for x in a.posonlyargs + a.args]
        deco = [q.dotted(d) for d in h.node.decorator_list]
        if h.cls is not None and "staticmethod" not in deco and names:
            names = names[1:]
        if index < len(names):
            return b.get(names[index])
    if name:
        return q.kwarg(call, name)
    return None


def mk_evaluator(fi: FuncInfo, **kw):
    """x_absint.Evaluator prepared for ``fi``: module-level constants visible, `except <CONSTANT TUPLE>` resolved"""
    from .x_absint import Evaluator
    ev = Evaluator(**kw)
    ev.globals = module_consts(fi.module)
    ev.handler_names = lambda h: handler_class_names(fi, h)
    ev.private_funcs = {k for k, f in fi.module.funcs.items() if "." not in k and k.startswith("_") and not k.startswith("__")}
    return ev
