"""Shared helpers for the HTTP/1 checkers (C01, C03, C04, C08).

* edge-guard dominance: "node T is reachable only through the branch edge on
  which predicate P is known true/false" — decided by removing those edges from
  the CFG and asking whether T is still reachable (exception edges included).
  Unlike ``cfg.must_facts`` this does not forget a guard when the guarded name
  is later passed to a helper (``_normalize_header(name)``), and re-binding of
  the guarded names is checked separately (``rebinds_between``).
* regex call sites: resolve ``_ABNF.x`` / module-level ``NAME`` to pattern text
  (static evaluation of ``vt.rx``), call-site method (fullmatch/match/search),
  capture-group sub-languages.
* call-tree closure over statically resolvable callees.
* small forward path queries on the CFG.

Nothing here compares source text; all predicates work on AST nodes.
"""
from __future__ import annotations

import ast
from typing import Callable, Dict, Iterable, List, Optional, Sequence, Set, Tuple

from . import q
from .cfg import CFG, Node, _node_roots
from .model import AnalysisError, AnchorMissing, FuncInfo, Repo
from . import rx as _rx

Edge = Tuple[int, int, str]

# ---------------------------------------------------------------------------
# canonical atoms and guard edges


def canon_atom(e: ast.AST) -> Tuple[ast.AST, bool]:
    """(positive form, flipped) of an atomic test: ``a != b`` -> (``a == b``, True),
    ``x not in y`` -> (``x in y``, True), ``x is not y`` -> (``x is y``, True)."""
    flip = False
    while isinstance(e, ast.UnaryOp) and isinstance(e.op, ast.Not):
        e = e.operand
        flip = not flip
    if isinstance(e, ast.Compare) and len(e.ops) == 1:
        swap = {ast.IsNot: ast.Is, ast.NotEq: ast.Eq, ast.NotIn: ast.In}
        t = type(e.ops[0])
        if t in swap:
            e2 = ast.Compare(left=e.left, ops=[swap[t]()], comparators=e.comparators)
            ast.copy_location(e2, e)
            return e2, not flip
    return e, flip


def single_bindings(fn: ast.AST) -> Dict[str, ast.AST]:
    """Local names bound exactly once in ``fn`` (by a plain/annotated assignment
    or a walrus) -> the bound value."""
    count: Dict[str, int] = {}
    val: Dict[str, ast.AST] = {}
    for n in q.walk_body(fn):
        tgts: List[ast.AST] = []
        v = None
        if isinstance(n, ast.Assign):
            tgts, v = n.targets, n.value
        elif isinstance(n, ast.AnnAssign) and n.value is not None:
            tgts, v = [n.target], n.value
        elif isinstance(n, ast.NamedExpr):
            tgts, v = [n.target], n.value
        elif isinstance(n, ast.AugAssign):
            tgts, v = [n.target], None
        elif isinstance(n, (ast.For, ast.AsyncFor)):
            tgts, v = [n.target], None
        elif isinstance(n, (ast.With, ast.AsyncWith)):
            tgts = [it.optional_vars for it in n.items if it.optional_vars is not None]
        for t in tgts:
            for x in ast.walk(t):
                if isinstance(x, ast.Name) and isinstance(x.ctx, ast.Store):
                    count[x.id] = count.get(x.id, 0) + 1
                    if v is not None and x is t:
                        val[x.id] = v
                    else:
                        val.pop(x.id, None)
    return {k: v for k, v in val.items() if count.get(k) == 1}


def _await_stripped(e: ast.AST) -> ast.AST:
    while isinstance(e, ast.Await):
        e = e.value
    return e


def truthy_edges(fi: FuncInfo, is_expr: Callable[[ast.AST], bool], cfg: Optional[CFG] = None) -> Tuple[Set[Edge], Set[Edge]]:
    """(edges on which an expression satisfying ``is_expr`` is known truthy,
    edges on which it is known falsy).  Recognised test shapes: the expression
    itself, a name bound exactly once to it, ``(m := E)``, ``E is None`` /
    ``E is not None`` (and the same through the single-binding alias)."""
    cfg = cfg or fi.cfg
    binds = single_bindings(fi.node)

    def denotes(e: ast.AST) -> bool:
        if is_expr(e):
            return True
        if isinstance(e, ast.NamedExpr) and is_expr(e.value):
            return True
        if isinstance(e, ast.Name) and e.id in binds and is_expr(binds[e.id]):
            return True
        return False

    pos: Set[Edge] = set()
    neg: Set[Edge] = set()
    reach = cfg.reachable()
    for n in cfg.nodes:
        if n.id not in reach or n.kind != "test":
            continue
        a, flip = canon_atom(n.ast)
        want: Optional[bool] = None  # truth of the *atom a* on which E is truthy
        if denotes(a):
            want = True
        elif isinstance(a, ast.Compare) and len(a.ops) == 1 and isinstance(a.ops[0], ast.Is) and q.is_const(a.comparators[0], None) and denotes(a.left):
            want = False
        if want is None:
            continue
        for sid, kind in cfg.succ[n.id]:
            if kind not in ("true", "false"):
                continue
            atom_truth = (kind == "true") != flip
            (pos if atom_truth == want else neg).add((n.id, sid, kind))
    return pos, neg


def atom_edges(cfg: CFG, pred: Callable[[ast.AST], Optional[bool]]) -> Set[Edge]:
    """Branch edges on which the canonical positive atom ``a`` of a test node has
    the truth value ``pred(a)`` (``pred`` returns None for unrelated tests)."""
    out: Set[Edge] = set()
    reach = cfg.reachable()
    for n in cfg.nodes:
        if n.id not in reach or n.kind != "test":
            continue
        a, flip = canon_atom(n.ast)
        want = pred(a)
        if want is None:
            continue
        for sid, kind in cfg.succ[n.id]:
            if kind in ("true", "false") and ((kind == "true") != flip) == want:
                out.add((n.id, sid, kind))
    return out


def reach_without(cfg: CFG, removed: Iterable[Edge], start: Optional[int] = None, follow_exc: bool = True, stop: Optional[Callable[[Node], bool]] = None) -> Set[int]:
    rem = set(removed)
    s = cfg.entry.id if start is None else start
    seen = {s}
    st = [s]
    while st:
        x = st.pop()
        if stop is not None and x != s and stop(cfg.nodes[x]):
            continue
        for y, k in cfg.succ[x]:
            if (x, y, k) in rem:
                continue
            if k == "exc" and not follow_exc:
                continue
            if y not in seen:
                seen.add(y)
                st.append(y)
    return seen


def only_through(cfg: CFG, target: Node, edges: Iterable[Edge]) -> bool:
    """Every path from entry to ``target`` uses at least one of ``edges``."""
    return target.id not in reach_without(cfg, edges)


def rebinds_between(cfg: CFG, edges: Iterable[Edge], target: Node, paths: Iterable[str]) -> List[Node]:
    """Nodes that (re)bind one of ``paths`` on some path from a guard edge to
    ``target`` (the guard would then speak about a stale value)."""
    paths = set(paths)
    starts = {dst for _src, dst, _k in edges}
    fwd: Set[int] = set()
    for s in starts:
        fwd |= reach_without(cfg, (), start=s)
    # nodes from which target is reachable
    back = {target.id}
    st = [target.id]
    while st:
        x = st.pop()
        for p, _k in cfg.pred[x]:
            if p not in back:
                back.add(p)
                st.append(p)
    out = []
    for nid in fwd & back:
        n = cfg.nodes[nid]
        if nid == target.id:
            continue
        if n.kind == "stmt" and isinstance(n.ast, ast.stmt) and (q.assigned_paths(n.ast) & paths):
            out.append(n)
        elif n.kind == "for" and q.assigned_paths(ast.Assign(targets=[n.ast.target], value=ast.Constant(value=None))) & paths:
            out.append(n)
    return out


def forward_until(cfg: CFG, start: Node, good: Callable[[Node], bool], bad: Callable[[Node], bool], follow_exc: bool = False) -> Tuple[bool, Optional[Node]]:
    """Every path leaving ``start`` meets a ``good`` node before a ``bad`` node
    or a function exit.  Returns (ok, offending node)."""
    seen = set()
    st = [s for s, k in cfg.succ[start.id] if follow_exc or k != "exc"]
    while st:
        x = st.pop()
        if x in seen:
            continue
        seen.add(x)
        n = cfg.nodes[x]
        if good(n):
            continue
        if n.kind in ("exit",) or bad(n):
            return False, n
        if n.kind == "rexit":
            continue
        for y, k in cfg.succ[x]:
            if k == "exc" and not follow_exc:
                continue
            st.append(y)
    return True, None


def node_mentions(n: Node, pred: Callable[[ast.AST], bool]) -> bool:
    if n.ast is None or n.kind not in ("stmt", "test", "for", "with"):
        return False
    return any(pred(x) for root in _node_roots(n) for x in q.walk_local(root))


# ---------------------------------------------------------------------------
# regex sites


class RegexEnv:
    """Resolves pattern-valued expressions of the analysed tree to pattern text."""

    def __init__(self, repo: Repo):
        self.repo = repo
        self._abnf: Optional[Dict[str, object]] = None
        self._rx: Dict[Tuple[object, str], _rx.Rx] = {}

    @property
    def abnf(self) -> Dict[str, object]:
        if self._abnf is None:
            self._abnf = _rx.eval_abnf(self.repo)
        return self._abnf

    def pattern(self, fi: FuncInfo, e: ast.AST):
        """Pattern text of ``e`` (``_ABNF.x``, ``httputil._ABNF.x``, module-level
        ``NAME``, ``re.compile(<const>)``); None if ``e`` is not a known pattern."""
        d = q.dotted(e) if isinstance(e, (ast.Name, ast.Attribute)) else None
        if d is not None:
            parts = d.split(".")
            if "_ABNF" in parts[:-1]:
                name = parts[-1]
                if name not in self.abnf:
                    raise AnalysisError("unknown _ABNF rule %s at %s" % (d, fi.site(e)))
                return self.abnf[name]
            if len(parts) == 1:
                m = fi.module
                if parts[0] in m.assigns and isinstance(m.assigns[parts[0]], ast.Call) and q.call_attr(m.assigns[parts[0]]) == "compile":
                    return _rx.eval_pattern_expr(m.assigns[parts[0]], {})
            if len(parts) == 2:
                # mod.NAME for an imported tornado module
                rel = "tornado/%s.py" % parts[0]
                if rel in self.repo.modules:
                    m = self.repo.modules[rel]
                    if parts[1] in m.assigns and isinstance(m.assigns[parts[1]], ast.Call) and q.call_attr(m.assigns[parts[1]]) == "compile":
                        return _rx.eval_pattern_expr(m.assigns[parts[1]], {})
            return None
        if isinstance(e, ast.Call) and q.call_attr(e) == "compile" and q.dotted(e.func) in ("re.compile",):
            return _rx.eval_pattern_expr(e, {})
        return None

    def rx(self, pattern, mode: str = "fullmatch") -> _rx.Rx:
        k = (pattern, mode)
        if k not in self._rx:
            self._rx[k] = _rx.Rx.from_pattern(pattern, mode)
        return self._rx[k]

    def calls(self, fi: FuncInfo) -> List[Tuple[ast.Call, str, object, Optional[ast.AST]]]:
        """(call, method, pattern text, subject expr) for ``P.fullmatch/match/search(subject)``
        and ``re.fullmatch/match/search(<pattern>, subject)`` in fi's own scope."""
        out = []
        for c in q.calls(fi.node):
            if not isinstance(c.func, ast.Attribute) or c.func.attr not in ("fullmatch", "match", "search"):
                continue
            if q.dotted(c.func.value) == "re":
                if len(c.args) >= 2:
                    try:
                        pat = _rx.eval_pattern_expr(c.args[0], {})
                    except AnalysisError:
                        p2 = self.pattern(fi, c.args[0])
                        if p2 is None:
                            continue
                        pat = p2
                    if len(c.args) > 2 or c.keywords:
                        raise AnalysisError("regex flags not modelled at %s" % fi.site(c))
                    out.append((c, c.func.attr, pat, c.args[1]))
                continue
            pat = self.pattern(fi, c.func.value)
            if pat is None:
                continue
            out.append((c, c.func.attr, pat, c.args[0] if c.args else None))
        return out


def group_rx(pattern, index: int) -> _rx.Rx:
    """Language of the ``index``-th capturing group of ``pattern`` (as written;
    the context of the group is ignored)."""
    sre_parse = _rx.sre_parse
    tree = sre_parse.parse(pattern)
    found: List[object] = []

    def walk(items):
        for op, av in items:
            s = str(op)
            if s == "SUBPATTERN":
                if av[0] == index:
                    found.append(av[-1])
                walk(av[-1])
            elif s == "BRANCH":
                for alt in av[1]:
                    walk(alt)
            elif s in ("MAX_REPEAT", "MIN_REPEAT", "POSSESSIVE_REPEAT"):
                walk(av[2])

    walk(tree)
    if len(found) != 1:
        raise AnalysisError("capture group %d not found exactly once in %r" % (index, pattern))
    is_bytes = isinstance(pattern, bytes)
    nfa = _rx._NFA()
    b = _rx._Builder(nfa, is_bytes, False, "fullmatch")
    s = nfa.new()
    e = b.seq(list(found[0]), s)
    return _rx.Rx._determinise(nfa, s, e, "group %d of %r" % (index, pattern))


def group_count(pattern) -> int:
    tree = _rx.sre_parse.parse(pattern)
    st = tree.state if hasattr(tree, "state") else tree.pattern
    return st.groups - 1


def intersects(a: _rx.Rx, b: _rx.Rx) -> Optional[str]:
    """A shortest string in L(a) ∩ L(b), or None if the intersection is empty."""
    w = a._product(b, lambda x, y: x and y)
    return None if w is None else _rx._show(w)


# ---------------------------------------------------------------------------
# call tree


def _imported_tornado_modules(mod) -> Dict[str, str]:
    """local alias -> relpath for ``from tornado import x`` / ``import tornado.x``."""
    out: Dict[str, str] = {}
    for st in mod.tree.body:
        if isinstance(st, ast.ImportFrom) and st.module == "tornado":
            for a in st.names:
                out[a.asname or a.name] = "tornado/%s.py" % a.name
    return out


def _imported_names(mod) -> Dict[str, Tuple[str, str]]:
    """local name -> (relpath, original name) for ``from tornado.x import y``."""
    out: Dict[str, Tuple[str, str]] = {}
    for st in mod.tree.body:
        if isinstance(st, ast.ImportFrom) and st.module and st.module.startswith("tornado."):
            rel = st.module.replace(".", "/") + ".py"
            for a in st.names:
                out[a.asname or a.name] = (rel, a.name)
    return out


def resolve_call(repo: Repo, fi: FuncInfo, c: ast.Call) -> Optional[FuncInfo]:
    """Statically resolve a call in ``fi`` to a tornado function: ``self.m()`` ->
    method of the enclosing class, ``f()`` -> module-level function or class
    constructor, ``mod.f()`` / ``mod.Cls()`` / ``mod.Cls.m()`` for imported tornado
    modules, ``Cls.m()``.  None when not resolvable."""
    mod = fi.module
    d = q.dotted(c.func)
    if d is None:
        return None
    parts = d.split(".")

    def in_module(m, names: Sequence[str]) -> Optional[FuncInfo]:
        qn = ".".join(names)
        if qn in m.funcs:
            return m.funcs[qn]
        if qn in m.classes:
            return m.funcs.get(qn + ".__init__")
        return None

    if parts[0] in ("self", "cls") and len(parts) == 2:
        owner = fi
        while owner is not None and owner.cls is None:
            owner = owner.parent
        if owner is not None and owner.cls is not None:
            cname = owner.qualname.rsplit(".", 1)[0] if "." in owner.qualname else owner.cls.name
            return mod.funcs.get("%s.%s" % (cname.split(".<locals>.")[0], parts[1]))
        return None
    mods = _imported_tornado_modules(mod)
    if parts[0] in mods and mods[parts[0]] in repo.modules and len(parts) >= 2:
        return in_module(repo.modules[mods[parts[0]]], parts[1:])
    names = _imported_names(mod)
    if parts[0] in names:
        rel, orig = names[parts[0]]
        if rel in repo.modules:
            return in_module(repo.modules[rel], [orig] + parts[1:])
    return in_module(mod, parts)


def call_tree(repo: Repo, seeds: Iterable[FuncInfo], stop: Callable[[FuncInfo], bool] = lambda f: False, depth: int = 6) -> Dict[str, FuncInfo]:
    """Transitive closure of statically resolvable callees of ``seeds``
    (key = "relpath:qualname").  Nested functions of a member are not entered."""
    out: Dict[str, FuncInfo] = {}
    work = [(f, 0) for f in seeds]
    while work:
        f, d = work.pop()
        k = "%s:%s" % (f.file, f.qualname)
        if k in out:
            continue
        out[k] = f
        if d >= depth or stop(f):
            continue
        for c in q.calls(f.node):
            g = resolve_call(repo, f, c)
            if g is not None:
                work.append((g, d + 1))
    return out


def call_sites_in(tree: Dict[str, FuncInfo], repo: Repo, target: FuncInfo) -> List[Tuple[FuncInfo, ast.Call]]:
    out = []
    for f in tree.values():
        for c in q.calls(f.node):
            if resolve_call(repo, f, c) is target:
                out.append((f, c))
    return out


# ---------------------------------------------------------------------------
# exceptions


def raised_class(st: ast.Raise) -> Optional[str]:
    """Dotted class name raised by ``raise X(...)`` / ``raise X``; None for a bare
    re-raise or a non-name expression."""
    if st.exc is None:
        return None
    e = st.exc
    if isinstance(e, ast.Call):
        e = e.func
    return q.dotted(e)


def handler_reraises_as(h: ast.ExceptHandler) -> List[str]:
    return [raised_class(s) or "<reraise>" for s in q.walk_local(h) if isinstance(s, ast.Raise)]


def leads_to_raise(cfg: CFG, edges: Iterable[Edge], cls_ok: Callable[[Optional[str]], bool]) -> Tuple[bool, int]:
    """Every path that starts with one of ``edges`` reaches a ``raise`` of an
    accepted class before any normal exit / return / suspension.  Returns
    (ok, number of edges examined)."""
    n = 0
    ok = True
    for _src, dst, _k in edges:
        n += 1
        seen = set()
        st = [dst]
        while st:
            x = st.pop()
            if x in seen:
                continue
            seen.add(x)
            node = cfg.nodes[x]
            if node.kind == "stmt" and isinstance(node.ast, ast.Raise):
                if not cls_ok(raised_class(node.ast)):
                    ok = False
                continue
            if node.kind == "exit" or (node.kind == "stmt" and isinstance(node.ast, ast.Return)):
                ok = False
                continue
            for y, k in cfg.succ[x]:
                if k != "exc":
                    st.append(y)
    return ok, n


def same_expr(a: Optional[ast.AST], b: Optional[ast.AST]) -> bool:
    """Structural equality of two expressions (ignoring positions/contexts)."""
    if a is None or b is None:
        return False
    return ast.dump(a, annotate_fields=False, include_attributes=False).replace("Load()", "").replace("Store()", "") == ast.dump(b, annotate_fields=False, include_attributes=False).replace("Load()", "").replace("Store()", "")


def handler_for(fi: FuncInfo, node: ast.AST, exc: str) -> Optional[ast.ExceptHandler]:
    return q.protected_by(q.parent_map(fi.node), node, exc)


def contains(root: ast.AST, node: ast.AST) -> bool:
    return any(x is node for x in ast.walk(root))


def self_modsets(repo: Repo, relpath: str, clsname: str) -> Dict[str, Set[str]]:
    """method name -> attributes of ``self`` the method may assign, transitively
    through calls of other methods of the same class on ``self``."""
    direct: Dict[str, Set[str]] = {}
    calls: Dict[str, Set[str]] = {}
    for f in repo.direct_methods(relpath, clsname):
        st: Set[str] = set()
        cs: Set[str] = set()
        for n in ast.walk(f.node):
            if isinstance(n, (ast.Assign, ast.AugAssign, ast.AnnAssign, ast.Delete)):
                for p in q.assigned_paths(n):
                    parts = p.replace("[]", "").split(".")
                    if parts[0] == "self" and len(parts) >= 2:
                        st.add(parts[1])
            elif isinstance(n, ast.Call):
                d = q.dotted(n.func)
                if d and d.startswith("self.") and d.count(".") == 1:
                    cs.add(d.split(".")[1])
        direct[f.name] = st
        calls[f.name] = cs
    changed = True
    while changed:
        changed = False
        for m in direct:
            for c in calls[m]:
                if c in direct and not direct[c] <= direct[m]:
                    direct[m] |= direct[c]
                    changed = True
    return direct
