"""x_ws — finite-domain constant propagation on top of :func:`vt.cfg.explore`.

Shared by the WebSocket properties (C14-C16).  The frame parser and the
message dispatcher branch on values derived from two header bytes / one 4-bit
opcode.  Instead of reasoning symbolically, the rules *enumerate* the concrete
header bytes (or opcodes), seed them at the statement that produces them and let
a small constant propagation (built on ``q.fold``) decide every branch whose
test folds; the remaining tests fork (both outcomes explored) unless the rule
gives an explicit *assumption* for them.  Nothing is executed: only expressions
made of constants, names, bit/arith/compare operators are folded.

State value handed to ``cfg.explore``: ``(env, assumptions, user)`` where

* ``env``  — tuple of ``(local name, constant)`` pairs (flow-sensitive),
* ``assumptions`` — tuple of ``(canonical test text, polarity)`` pairs the
  scenario stipulates (``self._fragmented_message_buffer is None`` is True …);
  an assumption is dropped once a path assigns a path it mentions,
* ``user`` — the rule's own abstract value, updated by ``utransfer(node, user,
  env_dict)`` (return ``STOP`` to end the path).
"""
from __future__ import annotations

import ast
from typing import Callable, Dict, Iterable, List, Optional, Set, Tuple

from . import q
from .cfg import CFG, Node, FactDB, canon_fact, explore, node_effects
from .model import AnalysisError, Repo

STOP = object()
NOTNONE = "__vt_notnone__"  # env marker: bound to a freshly built tuple/list (not None, truthy), content not tracked
UNKNOWN = "__vt_unknown__"  # env marker: a stipulated constant path was re-assigned on this path
_OKTYPES = (int, bool, str, bytes, type(None), tuple)


def xfold(e: ast.AST, env: Dict[str, object]):
    """``q.fold`` extended with the size idioms ``sum(len(c) for c in X)`` /
    ``sum(map(len, X))`` over a constant sequence X (replaced by their value first)."""
    has_sum = any(isinstance(x, ast.Call) and isinstance(x.func, ast.Name) and x.func.id == "sum" for x in ast.walk(e))
    has_sub = any(isinstance(x, ast.Subscript) for x in ast.walk(e))
    if not has_sum and not has_sub:
        return q.fold(e, env)
    import copy

    if has_sub:
        class S(ast.NodeTransformer):
            def visit_Subscript(self, node):
                self.generic_visit(node)
                if isinstance(node.slice, ast.Slice):
                    try:
                        base = q.fold(node.value, env)
                        lo = q.fold(node.slice.lower, env) if node.slice.lower is not None else None
                        hi = q.fold(node.slice.upper, env) if node.slice.upper is not None else None
                        st_ = q.fold(node.slice.step, env) if node.slice.step is not None else None
                        if isinstance(base, (str, bytes, tuple)):
                            return ast.copy_location(ast.Constant(value=base[lo:hi:st_]), node)
                    except (q.NotFoldable, TypeError, ValueError):
                        pass
                    return node
                d = q.dotted(node.value) if isinstance(node.value, (ast.Name, ast.Attribute)) else None
                try:
                    base = env[d] if (d is not None and d in env) else q.fold(node.value, env)
                    idx = q.fold(node.slice, env)
                    if isinstance(base, (dict, tuple)) and not isinstance(base, str):
                        val = base[idx]
                        if isinstance(val, (int, bool, str, bytes, type(None), tuple)):
                            return ast.copy_location(ast.Constant(value=val), node)
                except (q.NotFoldable, KeyError, IndexError, TypeError):
                    pass
                return node

        e = S().visit(copy.deepcopy(e))
        if isinstance(e, ast.Constant):
            return e.value
        if not has_sum:
            return q.fold(e, env)

    class T(ast.NodeTransformer):
        def visit_Call(self, node):
            self.generic_visit(node)
            if isinstance(node.func, ast.Name) and node.func.id == "sum" and len(node.args) == 1 and not node.keywords:
                a = node.args[0]
                try:
                    if isinstance(a, (ast.GeneratorExp, ast.ListComp)) and len(a.generators) == 1 and not a.generators[0].ifs and isinstance(a.generators[0].target, ast.Name):
                        seq = q.fold(a.generators[0].iter, env)
                        tot = 0
                        for item in seq:
                            env2 = dict(env)
                            env2[a.generators[0].target.id] = item
                            tot += q.fold(a.elt, env2)
                        return ast.copy_location(ast.Constant(value=tot), node)
                    if isinstance(a, ast.Call) and isinstance(a.func, ast.Name) and a.func.id == "map" and len(a.args) == 2 and isinstance(a.args[0], ast.Name) and a.args[0].id == "len":
                        seq = q.fold(a.args[1], env)
                        return ast.copy_location(ast.Constant(value=sum(len(x) for x in seq)), node)
                except (q.NotFoldable, TypeError):
                    pass
            return node

    return q.fold(T().visit(copy.deepcopy(e)), env)


def class_consts(repo: Repo, relpath: str, clsname: str) -> Dict[str, object]:
    """Class-level ``NAME = <foldable>`` of ``clsname`` as ``{"self.NAME": v, "NAME": v, "Cls.NAME": v}``."""
    cls = repo.cls(relpath, clsname)
    bare: Dict[str, object] = {}
    for st in cls.body:
        tgt = None
        if isinstance(st, ast.Assign) and len(st.targets) == 1 and isinstance(st.targets[0], ast.Name):
            tgt, val = st.targets[0].id, st.value
        elif isinstance(st, ast.AnnAssign) and isinstance(st.target, ast.Name) and st.value is not None:
            tgt, val = st.target.id, st.value
        if tgt is None:
            continue
        try:
            v = _fold_table(val, bare)
        except q.NotFoldable:
            continue
        if isinstance(v, _OKTYPES) or isinstance(v, dict):
            bare[tgt] = v
    out: Dict[str, object] = {}
    for k, v in bare.items():
        out["self." + k] = v
        out[clsname + "." + k] = v
    # callables of this module whose *every* definition is annotated with a plain non-None return type
    ann: Dict[str, List[bool]] = {}
    for fi in repo.module(relpath).funcs.values():
        r = fi.node.returns
        ok = isinstance(r, ast.Name) and r.id in ("bytes", "str", "int", "bool", "bytearray", "float") or (isinstance(r, ast.Constant) and isinstance(r.value, str) and r.value in ("bytes", "str", "int", "bool"))
        ann.setdefault(fi.node.name, []).append(bool(ok))
    out["__nonnull__"] = frozenset(k for k, v in ann.items() if all(v))
    return out


_ASSIGNED: Dict[Node, Set[str]] = {}
_CALLS: Dict[Node, List[ast.Call]] = {}
_CANON: Dict[Tuple[Node, bool], Tuple[str, bool]] = {}


def _fold_table(e: ast.AST, env: Dict[str, object]):
    """q.fold plus dict literals with constant keys/values (lookup tables)."""
    if isinstance(e, ast.Dict) and all(k is not None for k in e.keys):
        return {q.fold(k, env): _fold_table(v, env) for k, v in zip(e.keys, e.values)}
    return q.fold(e, env)


def _assigned(n: Node) -> Set[str]:
    r = _ASSIGNED.get(n)
    if r is None:
        a, _m, _s = node_effects(n)
        r = _ASSIGNED[n] = {p[:-2] if p.endswith("[]") else p for p in a}
    return r


def node_calls_all(n: Node) -> List[ast.Call]:
    """All Call nodes inside CFG node ``n`` (own scope), cached."""
    r = _CALLS.get(n)
    if r is None:
        from .cfg import _node_roots

        if n.ast is None or n.kind not in ("stmt", "test", "for", "with"):
            r = []
        else:
            r = [x for root in _node_roots(n) for x in q.walk_local(root) if isinstance(x, ast.Call)]
        _CALLS[n] = r
    return r


def _canon(n: Node, pol: bool) -> Tuple[str, bool]:
    k = (n, pol)
    r = _CANON.get(k)
    if r is None:
        r = _CANON[k] = canon_fact(n.ast, pol)
    return r


def explore_consts(
    cfg: CFG,
    consts: Dict[str, object],
    seeds: Optional[Callable[[Node], Optional[Dict[str, object]]]] = None,
    init_env: Optional[Dict[str, object]] = None,
    assume: Optional[Dict[str, bool]] = None,
    stipulate: Optional[Dict[str, bool]] = None,
    uinit=None,
    utransfer: Optional[Callable[[Node, object, Dict[str, object]], object]] = None,
    uedge: Optional[Callable[[Node, str, object, Dict[str, object]], object]] = None,
    track: Callable[[str], bool] = lambda t: False,
    follow_exc: bool = True,
):
    """See module docstring.  Returns explore()'s ``seen`` mapping."""
    db = FactDB()
    consts = dict(consts)
    sticky: Set[str] = set()  # outcomes of tests stipulated by the scenario (never dropped)

    def full(env):
        d = dict(consts)
        d.update(env)
        for k in [k for k, v in d.items() if isinstance(v, str) and v in (UNKNOWN, NOTNONE)]:
            del d[k]
        return d

    def transfer(n: Node, val):
        env_t, asm_t, u = val
        env = dict(env_t)
        if utransfer is not None and n.kind not in ("entry", "exit", "rexit"):
            u = utransfer(n, u, full(env))
            if u is STOP:
                return None
        if n.kind == "stmt" and isinstance(n.ast, ast.stmt):
            st = n.ast
            done = False
            if isinstance(st, ast.Assign) and len(st.targets) == 1 and isinstance(st.targets[0], ast.Name):
                name = st.targets[0].id
                try:
                    v = xfold(st.value, full(env))
                    if isinstance(v, _OKTYPES):
                        env[name] = v
                    else:
                        env.pop(name, None)
                except q.NotFoldable:
                    if isinstance(st.value, (ast.Tuple, ast.List)) and st.value.elts:
                        env[name] = NOTNONE
                    elif isinstance(st.value, ast.Call) and q.call_attr(st.value) in consts.get("__nonnull__", ()):
                        env[name] = NOTNONE  # result of a callable annotated with a non-None return type
                    elif isinstance(st.value, ast.Name) and env.get(st.value.id) == NOTNONE:
                        env[name] = NOTNONE
                    else:
                        env.pop(name, None)
                done = True
            elif isinstance(st, ast.AnnAssign) and isinstance(st.target, ast.Name) and st.value is not None:
                name = st.target.id
                try:
                    v = xfold(st.value, full(env))
                    if isinstance(v, _OKTYPES):
                        env[name] = v
                    else:
                        env.pop(name, None)
                except q.NotFoldable:
                    env.pop(name, None)
                done = True
            elif isinstance(st, ast.AugAssign) and isinstance(st.target, ast.Name):
                name = st.target.id
                try:
                    v = xfold(ast.BinOp(left=ast.Name(id=name, ctx=ast.Load()), op=st.op, right=st.value), full(env))
                    if isinstance(v, _OKTYPES):
                        env[name] = v
                    else:
                        env.pop(name, None)
                except q.NotFoldable:
                    env.pop(name, None)
                done = True
            if not done and isinstance(st, ast.Assign) and len(st.targets) == 1 and isinstance(st.targets[0], (ast.Tuple, ast.List)) and all(isinstance(t, ast.Name) for t in st.targets[0].elts):
                try:
                    v = xfold(st.value, full(env))
                except q.NotFoldable:
                    v = None
                names = [t.id for t in st.targets[0].elts]
                if isinstance(v, tuple) and len(v) == len(names) and all(isinstance(x, _OKTYPES) for x in v):
                    for nm_, x in zip(names, v):
                        env[nm_] = x
                    done = True
            if not done:
                for p in _assigned(n):
                    env.pop(p, None)
            # a stipulated constant attribute that this statement re-assigns is no longer that constant
            for p in _assigned(n):
                if p in consts and "." in p:
                    v = None
                    if isinstance(st, ast.Assign) and len(st.targets) == 1 and q.dotted(st.targets[0]) == p:
                        try:
                            v = xfold(st.value, full(env))
                        except q.NotFoldable:
                            v = UNKNOWN
                        if not isinstance(v, _OKTYPES):
                            v = UNKNOWN
                    else:
                        v = UNKNOWN
                    env[p] = v
        elif n.kind in ("for", "with"):
            for p in _assigned(n):
                env.pop(p, None)
        if seeds is not None:
            s = seeds(n)
            if s:
                env.update(s)
        asm = asm_t
        if asm_t:
            asg = _assigned(n)
            if asg:
                asm = tuple((t, p) for (t, p) in asm_t if t in sticky or not (db.paths(t) & asg))
        return (tuple(sorted(env.items(), key=lambda kv: kv[0])), asm, u)

    def edge(n: Node, kind: str, val):
        env_t, asm_t, u = val
        if n.kind == "test" and kind in ("true", "false"):
            env = full(dict(env_t))
            raw = dict(env_t)
            nn = None
            t_, p_ = _canon(n, True)
            if t_.endswith(" is None") and raw.get(t_[: -len(" is None")]) == NOTNONE:
                nn = not p_  # `x is None` is False / `x is not None` is True for a freshly built tuple
            elif raw.get(t_) == NOTNONE:
                nn = p_
            if nn is not None:
                if nn != (kind == "true"):
                    return None
                r = None
            try:
                if nn is None:
                    r = xfold(n.ast, env)
                    if bool(r) != (kind == "true"):
                        return None
            except q.NotFoldable:
                if asm_t:
                    t, pol = _canon(n, kind == "true")
                    for (at, ap) in asm_t:
                        if at == t and ap != pol:
                            return None
        if uedge is not None:
            u2 = uedge(n, kind, u, full(dict(env_t)))
            if u2 is STOP:
                return None
            return (env_t, asm_t, u2)
        return val

    asm0 = []
    written: Optional[Set[str]] = None
    for t, p in (stipulate or {}).items():
        ct, cp = canon_fact(ast.parse(t, mode="eval").body, p)
        asm0.append((ct, cp))
        sticky.add(ct)
    for t, p in (assume or {}).items():
        e = ast.parse(t, mode="eval").body
        ct, cp = canon_fact(e, p)
        asm0.append((ct, cp))
        # a stipulated truth value of a plain path the function never assigns is also a
        # constant for folding (`x = 0x80 if self.mask_outgoing else 0`)
        d = q.dotted(e) if isinstance(e, (ast.Name, ast.Attribute)) else None
        if d is not None and isinstance(p, bool):
            if written is None:
                written = set()
                for n in cfg.nodes:
                    written |= _assigned(n)
            if d not in written and d not in consts:
                consts[d] = p
    init = (tuple(sorted((init_env or {}).items())), tuple(sorted(asm0)), uinit)
    return explore(cfg, init, transfer, track, edge_transfer=edge, follow_exc=follow_exc, exc_effect=False)


def reached(seen, node: Node) -> bool:
    return bool(seen.get(node.id))


def states_at(seen, node: Node) -> List[Tuple[Dict[str, object], object]]:
    """(env dict, user value) of every state entering ``node``."""
    out = []
    for _facts, (env_t, _asm, u) in seen.get(node.id, ()):
        out.append((dict(env_t), u))
    return out


def fold_in(e: ast.AST, env: Dict[str, object], default=None):
    try:
        return xfold(e, env)
    except q.NotFoldable:
        return default


# ---------------------------------------------------------------------------
# anchors of the frame parser that several properties share


def header_seed(fi) -> Tuple[Node, str, str]:
    """The statement ``H, M = struct.unpack("BB", …)`` of the frame parser: returns
    (cfg node, name of first header byte, name of second header byte)."""
    for n in fi.cfg.stmt_nodes(lambda n: n.kind == "stmt" and isinstance(n.ast, ast.Assign)):
        st = n.ast
        if len(st.targets) == 1 and isinstance(st.targets[0], ast.Tuple) and len(st.targets[0].elts) == 2 and all(isinstance(e, ast.Name) for e in st.targets[0].elts):
            v = st.value
            if q.is_call(v, "struct.unpack") and v.args and q.is_const(v.args[0], "BB"):
                return n, st.targets[0].elts[0].id, st.targets[0].elts[1].id
    raise AnalysisError("%s: the two-byte frame header unpack (struct.unpack('BB', …) into two names) was not found" % fi.qualname)


def seed_header(fi, h: Optional[int] = None, m: Optional[int] = None):
    node, hn, mn = header_seed(fi)

    def seeds(n: Node):
        if n.id == node.id:
            d = {}
            if h is not None:
                d[hn] = h
            if m is not None:
                d[mn] = m
            return d
        return None

    return seeds


def calls_in_node(n: Node, *names: str) -> List[ast.Call]:
    return [x for x in node_calls_all(n) if q.is_call(x, *names)]


# ---------------------------------------------------------------------------
# abstract interpreters for the two anchored receive functions
#
# They add a *tag* (provenance) to local names / self attributes and a few
# per-message state machines on top of the constant propagation above.  The
# tags are derived from what an expression *is* (a read of N header bytes, the
# payload read, the unmasked payload, the reassembled buffer, …), never from the
# spelling of a local name.

from collections import namedtuple

BUF = "self._fragmented_message_buffer"
SOP = "self._fragmented_message_opcode"
FC = "self._frame_compressed"
MSG_STATE = (FC, BUF, SOP)

FrameState = namedtuple("FrameState", "tags buf sop fc aborted handled reads closed")
FRAME_INIT = FrameState((), "untouched", None, None, False, 0, (), ())
# ``reads``: the length view (constant, or tag such as ('extlen', fmt, src)) of every stream read in path order.
# No read is classified syntactically as "header" or "payload": the frame layout says how many fixed-size reads
# precede the payload read (2 header bytes, extended length for codes 126/127, 4-byte key when masked).


def hdr_count(m: Optional[int]) -> int:
    if m is None:
        return 1
    return 1 + (1 if (m & 0x7F) in (126, 127) else 0) + (1 if m & 0x80 else 0)


def plen(u):
    return u.reads[-1] if u.reads else None


def payload_read(u, m: Optional[int]) -> bool:
    """whether a read beyond the frame header happened on this path"""
    return len(u.reads) > hdr_count(m)


def read_tag(t) -> bool:
    return isinstance(t, tuple) and len(t) == 2 and t[0] == "read"


def _tag_get(tags, path):
    for p, t in tags:
        if p == path:
            return t
    return None


def _tag_set(tags, path, tag):
    out = [(p, t) for p, t in tags if p != path]
    if tag is not None:
        out.append((path, tag))
    return tuple(sorted(out, key=lambda x: x[0]))


def _targets(st) -> List[str]:
    ts = []
    if isinstance(st, ast.Assign):
        for t in st.targets:
            d = q.dotted(t)
            if d:
                ts.append(d)
    elif isinstance(st, (ast.AnnAssign, ast.AugAssign)):
        d = q.dotted(st.target)
        if d:
            ts.append(d)
    return ts


def is_payloadish(tag) -> bool:
    return tag == "unmasked" or read_tag(tag)


def _len_view(a, u, env):
    v = fold_in(a, env, None)
    if isinstance(v, int) and not isinstance(v, bool):
        return v
    t = _tag_get(u.tags, q.dotted(a) or "?") if isinstance(a, (ast.Name, ast.Attribute)) else None
    return t if t is not None else "?"


def frame_transfer(read_fn: str = "self._read_bytes", mask_fn: str = "_websocket_mask"):
    """utransfer for WebSocketProtocol13._receive_frame (see FrameState)."""

    def expr_tag(e, u: FrameState, env):
        if isinstance(e, ast.Await):
            e = e.value
            if q.is_call(e, read_fn) and len(e.args) == 1:
                return ("read", _len_view(e.args[0], u, env))
            return None
        if q.is_call(e, mask_fn) and len(e.args) == 2:
            k = _tag_get(u.tags, q.dotted(e.args[0]) or "?")
            x = _tag_get(u.tags, q.dotted(e.args[1]) or "?")
            if k == ("read", 4) and read_tag(x):
                return "unmasked"
            return "badmask"
        if isinstance(e, ast.Call) and q.call_name(e) in ("bytes", "bytearray") and len(e.args) == 1 and q.dotted(e.args[0]) == BUF:
            return "assembled" if u.buf == "extended" else "stale"
        # list-of-chunks representation: b"".join(buffer)
        if isinstance(e, ast.Call) and isinstance(e.func, ast.Attribute) and e.func.attr == "join" and isinstance(e.func.value, ast.Constant) and e.func.value.value == b"" and len(e.args) == 1 and q.dotted(e.args[0]) == BUF:
            return "assembled" if u.buf == "extended" else "stale"
        if isinstance(e, ast.Tuple):
            return ("tuple",) + tuple(arg_view(x, env, u) for x in e.elts)
        if isinstance(e, ast.BinOp) and isinstance(e.op, ast.Add):
            ta, tb = expr_tag(e.left, u, env), expr_tag(e.right, u, env)
            for t1, other in ((ta, e.right), (tb, e.left)):
                if isinstance(t1, tuple) and t1 and t1[0] == "extlen":
                    o = fold_in(other, env, None)
                    if isinstance(o, int) or q.is_call(other, "len"):
                        return t1
            return None
        d = q.dotted(e) if isinstance(e, (ast.Name, ast.Attribute)) else None
        if d == SOP:
            return "saved-opcode"
        if d is not None:
            return _tag_get(u.tags, d)
        if isinstance(e, ast.Subscript) and q.is_call(e.value, "struct.unpack") and len(e.value.args) == 2:
            idx = e.slice
            fmt = fold_in(e.value.args[0], env, None)  # a literal, or a name/table entry that folds on this path
            if isinstance(idx, ast.Constant) and idx.value == 0 and isinstance(fmt, str):
                return ("extlen", fmt, _tag_get(u.tags, q.dotted(e.value.args[1]) or "?"))
        return None

    def utransfer(n: Node, u: FrameState, env):
        if n.kind not in ("stmt", "test"):
            return u
        root = n.ast
        for c in calls_in_node(n, "self._abort"):
            u = u._replace(aborted=True)
        for c in calls_in_node(n, "self.close"):
            code = fold_in(c.args[0], env, "?") if c.args else None
            u = u._replace(closed=u.closed + (code,))
        for c in calls_in_node(n, "self._handle_message"):
            u = u._replace(handled=min(u.handled + 1, 2))
        for c in calls_in_node(n, read_fn):
            if len(c.args) == 1 and len(u.reads) < 8:
                u = u._replace(reads=u.reads + (_len_view(c.args[0], u, env),))
        # mutating calls on the reassembly buffer
        for c in [x for x in node_calls_all(n) if isinstance(x.func, ast.Attribute) and q.dotted(x.func.value) == BUF]:
            if c.func.attr in ("extend", "append") and len(c.args) == 1 and is_payloadish(_tag_get(u.tags, q.dotted(c.args[0]) or "?")) and u.buf == "untouched":
                u = u._replace(buf="extended")
            elif c.func.attr in ("extend", "append", "insert", "appendleft", "clear", "pop", "popleft", "remove", "reverse"):
                u = u._replace(buf="bad")
            elif c.func.attr in ("copy", "decode", "count", "index", "hex", "startswith", "endswith", "__len__"):
                pass
            else:
                u = u._replace(buf="unknown")
        if n.kind == "stmt" and isinstance(root, ast.Assign) and len(root.targets) == 1 and isinstance(root.targets[0], (ast.Tuple, ast.List)) and len(root.targets[0].elts) == 1 \
                and isinstance(root.targets[0].elts[0], ast.Name) and q.is_call(root.value, "struct.unpack") and len(root.value.args) == 2 and isinstance(root.value.args[0], ast.Constant):
            # `(x,) = struct.unpack(fmt, y)` is the same as `x = struct.unpack(fmt, y)[0]`
            t = ("extlen", root.value.args[0].value, _tag_get(u.tags, q.dotted(root.value.args[1]) or "?"))
            return u._replace(tags=_tag_set(u.tags, root.targets[0].elts[0].id, t))
        if n.kind == "stmt" and isinstance(root, (ast.Assign, ast.AnnAssign, ast.AugAssign)) and getattr(root, "value", None) is not None:
            tg = _targets(root)
            val = root.value
            if isinstance(root, ast.AugAssign):
                if BUF in tg:
                    ok = isinstance(root.op, ast.Add) and is_payloadish(_tag_get(u.tags, q.dotted(val) or "?")) and u.buf == "untouched"
                    u = u._replace(buf="extended" if ok else "bad")
                for t in tg:
                    if t not in MSG_STATE:
                        keep = _tag_get(u.tags, t)
                        if not (isinstance(root.op, ast.Add) and isinstance(keep, tuple) and keep and keep[0] == "extlen"):
                            u = u._replace(tags=_tag_set(u.tags, t, None))
                if SOP in tg:
                    u = u._replace(sop="?")
                if FC in tg:
                    u = u._replace(fc="?")
                return u
            tag = expr_tag(val, u, env)
            for t in tg:
                if t == BUF:
                    if isinstance(val, ast.Constant) and val.value is None:
                        u = u._replace(buf="cleared" if u.buf == "extended" else ("dropped" if u.buf == "untouched" else "bad"))
                    elif isinstance(val, ast.Call) and q.call_name(val) in ("bytearray", "bytes") and len(val.args) == 1 and is_payloadish(_tag_get(u.tags, q.dotted(val.args[0]) or "?")) and u.buf == "untouched":
                        u = u._replace(buf="new")
                    elif isinstance(val, (ast.List, ast.Tuple)) and len(val.elts) == 1 and is_payloadish(_tag_get(u.tags, q.dotted(val.elts[0]) or "?")) and u.buf == "untouched":
                        u = u._replace(buf="new")  # list-of-chunks representation
                    elif is_payloadish(tag) and u.buf == "untouched":
                        u = u._replace(buf="new")  # the payload object itself (bytes) as first chunk
                    else:
                        u = u._replace(buf="bad")
                elif t == SOP:
                    v = fold_in(val, env, "?")
                    u = u._replace(sop=v if isinstance(v, _OKTYPES) else "?")
                elif t == FC:
                    v = fold_in(val, env, "?")
                    u = u._replace(fc=v if isinstance(v, _OKTYPES) else "?")
                else:
                    u = u._replace(tags=_tag_set(u.tags, t, tag))
        elif n.kind == "stmt" and isinstance(root, ast.stmt):
            for p in q.assigned_paths(root):
                p = p[:-2] if p.endswith("[]") else p
                if p == BUF:
                    u = u._replace(buf="bad")
                elif p == SOP:
                    u = u._replace(sop="?")
                elif p == FC:
                    u = u._replace(fc="?")
                else:
                    u = u._replace(tags=_tag_set(u.tags, p, None))
        return u

    return utransfer


def run_frame(fi, consts, h=None, m=None, assume=None, stipulate=None):
    """Explore ``_receive_frame`` for concrete header bytes; returns ``seen``."""
    return explore_consts(fi.cfg, consts, seeds=seed_header(fi, h, m), assume=assume, stipulate=stipulate, uinit=FRAME_INIT, utransfer=frame_transfer(), track=lambda t: t.isidentifier())


def handle_calls(fi) -> List[Tuple[Node, ast.Call]]:
    return fi.cfg.find(lambda x: q.is_call(x, "self._handle_message"))


def frame_states(seen, node: Node) -> List[Tuple[Dict[str, object], FrameState]]:
    return states_at(seen, node)


def arg_view(e: ast.AST, env: Dict[str, object], u) -> object:
    """Constant value of ``e`` if it folds, else its tag, else '?'."""
    v = fold_in(e, env, None)
    if v is not None:
        return v
    d = q.dotted(e) if isinstance(e, (ast.Name, ast.Attribute)) else None
    if d:
        t = _tag_get(u.tags, d)
        if t is not None:
            return t
    return "?"


# -- _handle_message ---------------------------------------------------------

MsgState = namedtuple("MsgState", "tags inflated aborted delivered closed wrote")
MSG_INIT_TAGS = ()


def msg_transfer(data_param: str):
    def expr_tag(e, u: MsgState):
        if isinstance(e, ast.Call) and isinstance(e.func, ast.Attribute):
            recv = q.dotted(e.func.value) or ""
            if e.func.attr == "decompress" and recv.startswith("self._decompressor") and len(e.args) == 1:
                return _tag_get(u.tags, q.dotted(e.args[0]) or "?")
            if e.func.attr == "decode" and _tag_get(u.tags, recv) == "data":
                codec = e.args[0].value if e.args and isinstance(e.args[0], ast.Constant) else None
                errors = e.args[1] if len(e.args) > 1 else q.kwarg(e, "errors")
                strict = errors is None or (isinstance(errors, ast.Constant) and errors.value == "strict")
                if isinstance(codec, str) and codec.lower().replace("-", "").replace("_", "") == "utf8" and strict:
                    return "text"
                return "text-lenient"
        d = q.dotted(e) if isinstance(e, (ast.Name, ast.Attribute)) else None
        if d is not None:
            return _tag_get(u.tags, d)
        return None

    def utransfer(n: Node, u: MsgState, env):
        if n.kind not in ("stmt", "test"):
            return u
        root = n.ast
        for c in calls_in_node(n, "self._abort"):
            u = u._replace(aborted=True)
        for c in calls_in_node(n, "self.close"):
            u = u._replace(closed=u.closed + (arg_view(c.args[0], env, u) if c.args else None,))
        for c in calls_in_node(n, "self._write_frame"):
            u = u._replace(wrote=u.wrote + (tuple(arg_view(a, env, u) for a in c.args[:3]),))
        for c in [x for x in node_calls_all(n) if isinstance(x.func, ast.Attribute) and x.func.attr == "decompress" and (q.dotted(x.func.value) or "").startswith("self._decompressor")]:
            u = u._replace(inflated=True)
        for c in calls_in_node(n, "self._run_callback"):
            if c.args:
                cb = q.dotted(c.args[0]) or "?"
                u = u._replace(delivered=u.delivered + ((cb, tuple(arg_view(a, env, u) for a in c.args[1:])),))
        if n.kind == "stmt" and isinstance(root, (ast.Assign, ast.AnnAssign)) and getattr(root, "value", None) is not None:
            tag = expr_tag(root.value, u)
            for t in _targets(root):
                u = u._replace(tags=_tag_set(u.tags, t, tag))
        elif n.kind == "stmt" and isinstance(root, ast.stmt):
            for p in q.assigned_paths(root):
                u = u._replace(tags=_tag_set(u.tags, p[:-2] if p.endswith("[]") else p, None))
        return u

    return utransfer


def run_message(fi, consts, opcode: int, assume=None):
    """Explore ``_handle_message`` for a concrete opcode (first non-self parameter)."""
    ps = [p for p in fi.params() if p != "self"]
    if len(ps) < 2:
        raise AnalysisError("%s: expected (opcode, data) parameters" % fi.qualname)
    init = MsgState(((ps[1], "data"),), False, False, (), (), ())
    return explore_consts(fi.cfg, consts, init_env={ps[0]: opcode}, assume=assume, uinit=init, utransfer=msg_transfer(ps[1]))


# ---------------------------------------------------------------------------
# representation of a buffer field (units: does len() count bytes or chunks?)


def field_kind(repo: Repo, relpath: str, clsname: str, path: str) -> Tuple[str, List[str]]:
    """Resolve how ``path`` (e.g. ``self._fragmented_message_buffer``) is represented, through
    every assignment and mutating call on it in the methods of ``clsname``:
    'bytes' (bytes/bytearray: len() counts bytes), 'chunks' (list/tuple/deque of byte strings:
    len() counts elements) or 'unknown'.  Returns (kind, evidence strings)."""
    kinds = set()
    ev: List[str] = []
    for fi in repo.methods(relpath, clsname):
        for n in q.walk_body(fi.node):
            vals = []
            if isinstance(n, ast.Assign) and any(q.dotted(t) == path for t in n.targets):
                vals.append(n.value)
            elif isinstance(n, ast.AnnAssign) and q.dotted(n.target) == path and n.value is not None:
                vals.append(n.value)
            for v in vals:
                if isinstance(v, ast.Constant) and v.value is None:
                    continue
                if isinstance(v, ast.Constant) and isinstance(v.value, bytes):
                    kinds.add("bytes")
                elif isinstance(v, ast.Call) and q.call_name(v) in ("bytearray", "bytes", "memoryview"):
                    kinds.add("bytes")
                elif isinstance(v, (ast.List, ast.Tuple, ast.ListComp)) or (isinstance(v, ast.Call) and q.call_name(v) in ("list", "tuple", "deque", "collections.deque")):
                    kinds.add("chunks")
                elif isinstance(v, ast.Name):
                    kinds.add("bytes?")  # a bytes object received from the stream (decided by the caller's tags)
                else:
                    kinds.add("unknown")
                ev.append("%s: %s" % (fi.qualname, q.unparse(n)[:80]))
            if isinstance(n, ast.Call) and isinstance(n.func, ast.Attribute) and q.dotted(n.func.value) == path:
                if n.func.attr in ("append", "appendleft", "insert", "pop", "popleft"):
                    kinds.add("chunks")
                    ev.append("%s: .%s()" % (fi.qualname, n.func.attr))
                elif n.func.attr in ("extend",):
                    ev.append("%s: .extend()" % fi.qualname)
            if isinstance(n, ast.Call) and isinstance(n.func, ast.Attribute) and n.func.attr == "join" and n.args and q.dotted(n.args[0]) == path:
                kinds.add("chunks")
                ev.append("%s: join(%s)" % (fi.qualname, path))
    kinds.discard("bytes?") if (kinds - {"bytes?"}) else None
    if kinds == {"bytes"} or kinds == {"bytes?"}:
        return "bytes", ev
    if kinds == {"chunks"}:
        return "chunks", ev
    if not kinds:
        return "unknown", ev
    return "mixed" if kinds >= {"bytes", "chunks"} else "unknown", ev


def buffer_model(kind: str, nbytes: int, nchunks: int = 2):
    """A constant standing for a buffer holding ``nbytes`` bytes in the given representation."""
    if kind == "bytes":
        return bytes(nbytes)
    if kind == "chunks":
        if nbytes == 0:
            return (b"",)
        per = nbytes // nchunks
        return tuple([bytes(per)] * (nchunks - 1) + [bytes(nbytes - per * (nchunks - 1))])
    raise AnalysisError("no constant model for a buffer of kind %r" % kind)


def handle_args(c: ast.Call, env: Dict[str, object], u) -> Tuple[object, object]:
    """(opcode view, data view) of a ``self._handle_message(...)`` call, also for ``_handle_message(*pair)``."""
    if len(c.args) == 1 and isinstance(c.args[0], ast.Starred):
        t = _tag_get(u.tags, q.dotted(c.args[0].value) or "?")
        if isinstance(t, tuple) and t and t[0] == "tuple" and len(t) == 3:
            return t[1], t[2]
        raise AnalysisError("_handle_message(*%s): the unpacked value is not a tracked (opcode, data) pair" % q.unparse(c.args[0].value))
    if len(c.args) < 2 or any(isinstance(a, ast.Starred) for a in c.args[:2]):
        raise AnalysisError("_handle_message call without (opcode, data)")
    return arg_view(c.args[0], env, u), arg_view(c.args[1], env, u)
