"""x_peval — partial evaluation of one function's CFG under a concrete valuation.

A rule fixes the value of a few inputs (``self._status_code = 204``,
``self.request.method = "HEAD"``, ``headers = frozenset({"Content-Length"})``)
and asks what the function does for *that* valuation on *every* path: branch
tests that fold to a constant under the current bindings are decided, all other
tests fork.  Bindings are updated by assignments whose right-hand side folds
and are forgotten (``UNK``) when something the engine cannot follow may have
changed them.  A rule enumerates the (finite, partitioned) input space and so
obtains an exhaustive case analysis of the function without running it.

The engine sits on top of :func:`vt.cfg.explore`; nothing here knows about
HTTP.  Header containers are modelled as a ``frozenset`` of the names present
(``"X" in headers`` folds, ``headers["X"] = v`` adds, ``del headers["X"]``
removes).
"""
from __future__ import annotations

import ast
import copy
from typing import Callable, Dict, Iterable, List, Optional, Sequence, Set, Tuple

from . import q
from .cfg import CFG, Node, PURE_FUNCS, PURE_METHODS, explore, _node_roots
from .model import AnalysisError


class _Unknown:
    def __repr__(self):
        return "UNK"


UNK = _Unknown()

IDENTITY_CALLS = ("cast", "typing.cast")


def _utf8(v):
    if isinstance(v, bytes) or v is None:
        return v
    if isinstance(v, str):
        return v.encode("utf-8")
    raise q.NotFoldable("utf8 of %r" % (v,))


def _to_str(v):
    if isinstance(v, str) or v is None:
        return v
    if isinstance(v, bytes):
        try:
            return v.decode("utf-8")
        except UnicodeDecodeError:
            raise q.NotFoldable("undecodable")
    raise q.NotFoldable("to_unicode of %r" % (v,))


_BUILTINS = {"len": len, "bool": bool, "int": int, "str": str, "min": min, "max": max, "abs": abs, "bytes": bytes, "repr": repr,
             "tuple": lambda x=(): tuple(x), "list": lambda x=(): tuple(x), "sorted": lambda x: tuple(sorted(x)), "sum": sum, "any": any, "all": all,
             "range": range, "set": lambda x=(): frozenset(x), "frozenset": lambda x=(): frozenset(x),
             "zip": lambda *a: tuple(zip(*[_ordered(x) for x in a])), "enumerate": lambda x, start=0: tuple(enumerate(_ordered(x), start)),
             "reversed": lambda x: tuple(reversed(_ordered(x)))}


# type names the evaluator can decide isinstance() against for plain values (an empty tuple: never an instance)
_TYPE_NAMES = {"str": (str,), "unicode_type": (str,), "bytes": (bytes,), "bytes_type": (bytes,), "int": (int,), "numbers.Integral": (int,), "float": (float,),
               "bool": (bool,), "tuple": (tuple,), "datetime.datetime": (), "datetime.date": (), "dict": (), "list": ()}


def _ordered(x):
    """zip/enumerate/reversed need a sequence with a defined order; a set model has none"""
    if isinstance(x, (tuple, str, bytes, range)):
        return x
    raise q.NotFoldable("iteration order unknown")

PURE_TEXT_METHODS = {"join", "encode", "decode", "lower", "upper", "strip", "lstrip", "rstrip", "startswith", "endswith", "split", "rsplit", "partition",
                     "rpartition", "replace", "format", "title", "capitalize", "zfill", "hex", "isdigit", "find", "count"}

# tornado.escape conversions (documented behaviour: bytes/None pass through utf8, str/None pass through to_unicode)
TEXT_CONVERSIONS = {"utf8": _utf8, "native_str": _to_str, "to_unicode": _to_str, "_unicode": _to_str}


class _Prep(ast.NodeTransformer):
    """``cast(T, x)`` -> ``x``; ``p[<const>]`` -> a Name whose id is the text
    ``p[<const>]`` (so that bindings such as ``start_line[1]`` can be looked up)."""

    def visit_Call(self, node):
        node = self.generic_visit(node)
        if q.dotted(node.func) in IDENTITY_CALLS and len(node.args) == 2 and not node.keywords:
            return node.args[1]
        return node

    def visit_Subscript(self, node):
        node = self.generic_visit(node)
        d = q.dotted(node.value) if isinstance(node.value, (ast.Name, ast.Attribute)) else None
        if d and isinstance(node.slice, ast.Constant):
            return ast.copy_location(ast.Name(id="%s[%r]" % (d, node.slice.value), ctx=ast.Load()), node)
        return node


def prep(e: ast.AST, env: Optional[Dict[str, object]] = None) -> ast.AST:
    e = _Prep().visit(copy.deepcopy(e))
    if env:
        opaque = {k[5:]: v for k, v in env.items() if k.startswith("call:") and v is not UNK}
        resolver = env.get("@resolve")
        if opaque or resolver is not None:

            class _Op(ast.NodeTransformer):
                def visit_Call(self, node):
                    t = q.unparse(node)
                    if t in opaque:
                        return ast.copy_location(ast.Constant(value=opaque[t]), node)
                    node = self.generic_visit(node)
                    if resolver is not None:
                        v = resolver(node, env)
                        if v is not UNK:
                            return ast.copy_location(ast.Constant(value=v), node)
                    return node

            e = _Op().visit(e)
    return e


def make_resolver(repo, relpath: str, clsname: Optional[str], max_depth: int = 2):
    """A call resolver for :func:`pfold`: the value of ``self.<m>(args)`` (a method
    of ``clsname``) or ``<f>(args)`` (a function of module ``relpath``) when the
    callee stores nothing to ``self`` and every return reachable under the
    folded arguments (and the caller's ``self.*`` bindings) folds to one and the
    same constant.  Lets a predicate that was extracted into a helper still be
    decided.  Returns UNK when it cannot decide."""
    depth = [0]
    cache: Dict[object, object] = {}

    def resolve(call: ast.Call, env: Dict[str, object]):
        if call.keywords and any(k.arg is None for k in call.keywords):
            return UNK
        fi = None
        is_method = False
        if isinstance(call.func, ast.Attribute) and q.dotted(call.func.value) == "self" and clsname:
            if repo.has_func(relpath, "%s.%s" % (clsname, call.func.attr)):
                fi = repo.func(relpath, "%s.%s" % (clsname, call.func.attr))
                is_method = True
        elif isinstance(call.func, ast.Name) and repo.has_func(relpath, call.func.id):
            fi = repo.func(relpath, call.func.id)
        if fi is None or depth[0] >= max_depth or isinstance(fi.node, ast.AsyncFunctionDef):
            return UNK
        if fi.node.decorator_list and not all(q.dotted(d) in ("staticmethod",) for d in fi.node.decorator_list):
            return UNK
        for n in q.walk_body(fi.node):
            if isinstance(n, (ast.Assign, ast.AugAssign, ast.AnnAssign, ast.Delete)) and any(p.startswith("self.") for p in q.assigned_paths(n)):
                return UNK
            if isinstance(n, (ast.Yield, ast.YieldFrom, ast.Await)):
                return UNK
        a = fi.node.args
        params = [x.arg for x in a.posonlyargs + a.args]
        if is_method and params[:1] == ["self"]:
            params = params[1:]
        if a.vararg or a.kwarg or len(call.args) > len(params) or any(isinstance(x, ast.Starred) for x in call.args):
            return UNK
        init: Dict[str, object] = {k: v for k, v in env.items() if k.startswith("self.") or k == "@resolve"}
        bound = {}
        for p_, arg in zip(params, call.args):
            bound[p_] = arg
        for k in call.keywords:
            if k.arg in params and k.arg not in bound:
                bound[k.arg] = k.value
        defaults = dict(zip(params[len(params) - len(a.defaults):], a.defaults)) if a.defaults else {}
        for p_ in params:
            src = bound.get(p_, defaults.get(p_))
            if src is None:
                return UNK
            v = try_fold(src, env)
            if v is not UNK:
                init[p_] = v
            else:
                d = q.dotted(prep(src)) if isinstance(src, (ast.Name, ast.Attribute, ast.Subscript, ast.Call)) else None
                if d:
                    for kk, vv in env.items():
                        if kk.startswith(d + ".") or kk.startswith(d + "["):
                            init[p_ + kk[len(d):]] = vv
        ckey = (fi.qualname, frozenset((k, v) for k, v in init.items() if k != "@resolve"))
        if ckey in cache:
            return cache[ckey]
        cache[ckey] = UNK
        depth[0] += 1
        try:
            cache[ckey] = _decide(fi, init)
            return cache[ckey]
        except AnalysisError:
            return UNK
        finally:
            depth[0] -= 1

    def _decide(fi, init):
        if True:
            states = peval(fi.cfg, init, track=lambda t: False)
            vals = set()
            n_ret = 0
            for node in fi.cfg.stmt_nodes(lambda n: n.kind == "stmt" and isinstance(n.ast, ast.Return)):
                for _f, e2 in states.get(node.id, []):
                    n_ret += 1
                    if node.ast.value is None:
                        vals.add(None)
                        continue
                    v = try_fold(node.ast.value, e2)
                    if v is UNK:
                        return UNK
                    vals.add(v if not isinstance(v, bool) else bool(v))
            if states.get(fi.cfg.exit.id) and any(True for _ in states[fi.cfg.exit.id]):
                # falling off the end returns None unless every exit path went through a return
                fall = [1 for pid, k in fi.cfg.pred[fi.cfg.exit.id] if not isinstance(fi.cfg.nodes[pid].ast, ast.Return) and states.get(pid)]
                if fall:
                    vals.add(None)
            if n_ret and len(vals) == 1:
                v = next(iter(vals))
                if isinstance(v, (bool, int, str, bytes, type(None))):
                    return v
            return UNK

    return resolve


def _fold3(e: ast.AST, known: Dict[str, object]):
    """q.fold with three-valued ``and``/``or``/``not`` at the top of the expression:
    ``A and B`` is falsy as soon as one foldable operand is falsy even if another
    operand cannot be folded (only the truth value of such a result is meaningful)."""
    if isinstance(e, ast.BoolOp):
        is_and = isinstance(e.op, ast.And)
        unknown = False
        last = is_and
        for v in e.values:
            try:
                r = _fold3(v, known)
            except q.NotFoldable:
                unknown = True
                continue
            if is_and and not r:
                return r if not unknown else False
            if not is_and and r:
                return r if not unknown else True
            last = r
        if unknown:
            raise q.NotFoldable(q.unparse(e))
        return last
    if isinstance(e, ast.UnaryOp) and isinstance(e.op, ast.Not):
        return not _fold3(e.operand, known)
    if isinstance(e, ast.NamedExpr):  # (name := value) has the value of `value`
        return _fold3(e.value, known)
    if isinstance(e, (ast.Tuple, ast.List, ast.Set)):
        vals = []
        for x in e.elts:
            if isinstance(x, ast.Starred):
                inner = _fold3(x.value, known)
                if not isinstance(inner, (tuple, frozenset, str, bytes, range)):
                    raise q.NotFoldable("starred non-sequence")
                vals.extend(sorted(inner) if isinstance(inner, frozenset) else inner)
            else:
                vals.append(_fold3(x, known))
        return frozenset(vals) if isinstance(e, ast.Set) else tuple(vals)
    if isinstance(e, ast.Compare):
        # fold the operands with this evaluator (they may contain conversions, methods, model look-ups), then compare
        operands = [_fold3(x, known) for x in [e.left] + list(e.comparators)]
        for v in operands:
            try:
                hash(v)
            except TypeError:
                raise q.NotFoldable("unhashable operand")
        names = {"@cmp%d" % i: v for i, v in enumerate(operands)}
        cmp = ast.Compare(left=ast.Name(id="@cmp0", ctx=ast.Load()), ops=e.ops, comparators=[ast.Name(id="@cmp%d" % i, ctx=ast.Load()) for i in range(1, len(operands))])
        return q.fold(cmp, names)
    if isinstance(e, ast.IfExp):
        return _fold3(e.body, known) if _fold3(e.test, known) else _fold3(e.orelse, known)
    if isinstance(e, ast.Call) and isinstance(e.func, ast.Name) and e.func.id == "next" and 1 <= len(e.args) <= 2 and not e.keywords:
        seq = _fold3(e.args[0], known)
        if not isinstance(seq, tuple):
            raise q.NotFoldable("next() of a non-sequence")
        if seq:
            return seq[0]
        if len(e.args) == 2:
            return _fold3(e.args[1], known)
        raise q.NotFoldable("next() of an empty sequence")
    if isinstance(e, ast.Call) and isinstance(e.func, ast.Attribute) and e.func.attr in ("items", "keys", "values") and not e.args and not e.keywords:
        recv = _fold3(e.func.value, known)
        if recv == ():  # an empty mapping (e.g. **kwargs of a call without extra keywords)
            return ()
        raise q.NotFoldable("mapping view")
    if isinstance(e, ast.Call) and q.dotted(e.func) == "isinstance" and len(e.args) == 2 and not e.keywords:
        obj = _fold3(e.args[0], known)
        if not isinstance(obj, (str, bytes, int, float, bool, type(None), tuple)):
            raise q.NotFoldable("isinstance of a modelled value")
        types = e.args[1].elts if isinstance(e.args[1], ast.Tuple) else [e.args[1]]
        res = False
        for t in types:
            nm = q.dotted(t)
            if nm not in _TYPE_NAMES:
                raise q.NotFoldable("isinstance against %s" % nm)
            if _TYPE_NAMES[nm] and isinstance(obj, _TYPE_NAMES[nm]) and not (nm in ("int", "numbers.Integral", "float") and isinstance(obj, bool) and False):
                res = True
        return res
    if isinstance(e, ast.Call) and isinstance(e.func, ast.Name) and e.func.id in _BUILTINS and not e.keywords and not any(isinstance(a, (ast.Starred, ast.GeneratorExp, ast.ListComp)) for a in e.args):
        args = [_fold3(a, known) for a in e.args]
        try:
            return _BUILTINS[e.func.id](*args)
        except q.NotFoldable:
            raise
        except Exception as ex:
            raise q.NotFoldable(str(ex))
    if isinstance(e, ast.Name) and e.id not in known and e.id.endswith("]") and "[" in e.id:
        base, _, key = e.id.partition("[")
        if isinstance(known.get(base), (tuple, str, bytes)) and not known.get("@names-model:" + base):
            # an element of a sequence whose content is known
            try:
                return known[base][ast.literal_eval(key[:-1])]
            except Exception as ex:
                raise q.NotFoldable(str(ex))
        if isinstance(known.get(base), frozenset) or (isinstance(known.get(base), tuple) and known.get("@names-model:" + base)):
            try:
                k = ast.literal_eval(key[:-1])
            except Exception:
                raise q.NotFoldable(e.id)
            if k in known[base]:
                return "<%s>" % k
            raise q.NotFoldable("missing key %r" % (k,))
    if isinstance(e, (ast.GeneratorExp, ast.ListComp, ast.SetComp)) and len(e.generators) == 1 and not e.generators[0].is_async and (
            isinstance(e.generators[0].target, ast.Name) or (isinstance(e.generators[0].target, ast.Tuple) and all(isinstance(x, ast.Name) for x in e.generators[0].target.elts))):
        g = e.generators[0]
        seq = _fold3(g.iter, known)
        if not isinstance(seq, (tuple, frozenset, str, bytes, range)):
            raise q.NotFoldable("comprehension over a non-sequence")
        out_items = []
        for item in seq:
            k2 = dict(known)
            if isinstance(g.target, ast.Name):
                k2[g.target.id] = item
            else:
                if not isinstance(item, tuple) or len(item) != len(g.target.elts):
                    raise q.NotFoldable("unpacking in comprehension")
                for x_, v_ in zip(g.target.elts, item):
                    k2[x_.id] = v_
            if all(_fold3(c, k2) for c in g.ifs):
                out_items.append(_fold3(e.elt, k2))
        return tuple(out_items)
    if isinstance(e, ast.Call) and isinstance(e.func, ast.Name) and e.func.id in ("sum", "len", "any", "all", "tuple", "list", "sorted") and len(e.args) == 1 and not e.keywords and isinstance(e.args[0], (ast.GeneratorExp, ast.ListComp)):
        items = _fold3(e.args[0], known)
        return {"sum": sum, "len": len, "any": any, "all": all, "tuple": tuple, "list": tuple, "sorted": lambda x: tuple(sorted(x))}[e.func.id](items)
    if isinstance(e, ast.JoinedStr):
        out = ""
        for v in e.values:
            if isinstance(v, ast.Constant):
                out += v.value
            elif isinstance(v, ast.FormattedValue):
                x = _fold3(v.value, known)
                if v.conversion != -1:
                    x = {115: str, 114: repr, 97: ascii}[v.conversion](x)
                spec = ""
                if v.format_spec is not None:
                    spec = _fold3(v.format_spec, known)
                    if not isinstance(spec, str):
                        raise q.NotFoldable("format spec")
                try:
                    out += format(x, spec)
                except Exception as ex:
                    raise q.NotFoldable(str(ex))
            else:
                raise q.NotFoldable("f-string part")
        return out
    if isinstance(e, ast.Subscript):
        base = _fold3(e.value, known)
        if isinstance(base, frozenset):
            raise q.NotFoldable("subscript of a set model")
        if isinstance(e.slice, ast.Slice):
            lo = _fold3(e.slice.lower, known) if e.slice.lower is not None else None
            hi = _fold3(e.slice.upper, known) if e.slice.upper is not None else None
            st = _fold3(e.slice.step, known) if e.slice.step is not None else None
            try:
                return base[lo:hi:st]
            except Exception as ex:
                raise q.NotFoldable(str(ex))
        idx = _fold3(e.slice, known)
        try:
            return base[idx]
        except Exception as ex:
            raise q.NotFoldable(str(ex))
    if isinstance(e, ast.Call) and isinstance(e.func, ast.Attribute) and e.func.attr in ("search", "match", "fullmatch") and not e.keywords:
        # a regular expression whose pattern is statically known, applied to a known subject: decided by the stdlib's
        # own matcher (no code of the analysed tree runs).  Result: a truthy marker or None.
        import re as _re

        pattern = None
        subject_expr = None
        if q.dotted(e.func.value) == "re" and len(e.args) == 2 and isinstance(e.args[0], ast.Constant) and isinstance(e.args[0].value, (str, bytes)):
            pattern, subject_expr = e.args[0].value, e.args[1]
        elif len(e.args) == 1 and callable(known.get("@rx")):
            pattern = known["@rx"](e.func.value)
            subject_expr = e.args[0]
        if pattern is not None and subject_expr is not None:
            subject = _fold3(subject_expr, known)
            if isinstance(subject, (str, bytes)) and type(subject) is type(pattern):
                try:
                    m = getattr(_re, e.func.attr)(pattern, subject)
                except Exception as ex:
                    raise q.NotFoldable(str(ex))
                return "<match>" if m is not None else None
        raise q.NotFoldable("regex on unknown operands")
    if isinstance(e, ast.Call) and isinstance(e.func, ast.Attribute) and e.func.attr == "get" and not e.keywords and 1 <= len(e.args) <= 2:
        # the header-set model: presence is known, values are not (a present value is a non-empty marker string)
        d = q.dotted(e.func.value)
        if d is not None and isinstance(known.get(d), (frozenset, tuple)) and known.get("@names-model:" + d, isinstance(known.get(d), frozenset)):
            k = _fold3(e.args[0], known)
            if k in known[d]:
                return known.get("%s[%r]" % (d, k), "<%s>" % k)
            return _fold3(e.args[1], known) if len(e.args) == 2 else None
    if isinstance(e, ast.Call) and isinstance(e.func, ast.Attribute) and e.func.attr in PURE_TEXT_METHODS and not e.keywords:
        recv = _fold3(e.func.value, known)
        if isinstance(recv, (str, bytes)):
            args = [_fold3(a, known) for a in e.args]
            args = [list(a) if isinstance(a, tuple) and e.func.attr == "join" else a for a in args]
            try:
                r = getattr(recv, e.func.attr)(*args)
            except Exception as ex:
                raise q.NotFoldable(str(ex))
            return tuple(r) if isinstance(r, list) else r
        raise q.NotFoldable("method on non-text")
    if isinstance(e, ast.Call) and q.call_attr(e) in TEXT_CONVERSIONS and len(e.args) == 1 and not e.keywords:
        v = _fold3(e.args[0], known)
        return TEXT_CONVERSIONS[q.call_attr(e)](v)
    if isinstance(e, ast.BinOp):
        # operands may contain conversions / three-valued sub-expressions
        l, r = _fold3(e.left, known), _fold3(e.right, known)
        try:
            return q.fold(ast.BinOp(left=ast.Constant(value=l), op=e.op, right=ast.Constant(value=r)), {})
        except q.NotFoldable:
            raise
    return q.fold(e, known)


def pfold(e: ast.AST, env: Dict[str, object]):
    """Fold ``e`` under the known bindings of ``env``; raises q.NotFoldable.
    Bindings ``call:<source text of a call>`` give the value of an opaque call."""
    known = {k: v for k, v in env.items() if v is not UNK}
    return _fold3(prep(e, env), known)


def try_fold(e: ast.AST, env: Dict[str, object], default=UNK):
    try:
        return pfold(e, env)
    except q.NotFoldable:
        return default
    except Exception:
        return default


def freeze(env: Dict[str, object]):
    return frozenset(env.items())


def _hashable(v) -> bool:
    try:
        hash(v)
        return True
    except TypeError:
        return False


def _bind(env: Dict[str, object], path: str, val):
    if val is not UNK and not _hashable(val):
        val = UNK
    # a rebinding of P invalidates everything known below P
    for k in list(env):
        if k.startswith(path + ".") or k.startswith(path + "["):
            env[k] = UNK
    if val is UNK and path not in env:
        return
    env[path] = val


def _alias(env: Dict[str, object], name: str, src: str):
    """``name = src`` where src is an unbound dotted path: copy what is known below src."""
    for k in list(env):
        if k.startswith(src + ".") or k.startswith(src + "["):
            env[name + k[len(src):]] = env[k]


def _assign_target(env: Dict[str, object], t: ast.AST, val, value_expr: Optional[ast.AST]):
    if isinstance(t, (ast.Tuple, ast.List)):
        if isinstance(val, tuple) and len(val) == len(t.elts) and not any(isinstance(x, ast.Starred) for x in t.elts):
            for x, v in zip(t.elts, val):
                _assign_target(env, x, v, None)
        else:
            sub = value_expr.elts if isinstance(value_expr, (ast.Tuple, ast.List)) and len(value_expr.elts) == len(t.elts) else [None] * len(t.elts)
            for x, ve in zip(t.elts, sub):
                _assign_target(env, x.value if isinstance(x, ast.Starred) else x, UNK if ve is None else try_fold(ve, env), ve)
        return
    if isinstance(t, ast.Subscript):
        d = q.dotted(t.value)
        if d is None:
            return
        if isinstance(t.slice, ast.Constant):
            cur = env.get(d)
            if isinstance(cur, frozenset):
                env[d] = cur | {t.slice.value}
            elif isinstance(cur, tuple) and env.get("@names-model:" + d) and t.slice.value not in cur:
                env[d] = cur + (t.slice.value,)  # ordered model of the distinct names (insertion order)
            key = "%s[%r]" % (d, t.slice.value)
            if key in env or val is not UNK:
                env[key] = val if _hashable(val) else UNK
        else:
            cur = env.get(d)
            if isinstance(cur, frozenset):
                env[d] = UNK  # unknown key stored
        return
    d = q.dotted(t)
    if d is None:
        return
    _bind(env, d, val)
    if val is UNK and value_expr is not None:
        src = q.dotted(value_expr) if isinstance(value_expr, (ast.Name, ast.Attribute)) else None
        if src:
            _alias(env, d, src)


def _call_effects(env: Dict[str, object], root: ast.AST, known_self_methods: Dict[str, Optional[Callable]], pure_methods: Set[str]):
    for x in q.walk_local(root):
        if not isinstance(x, ast.Call):
            continue
        if isinstance(x.func, ast.Attribute):
            recv = q.dotted(x.func.value)
            m = x.func.attr
            if recv is None:
                continue
            if m in pure_methods or m in PURE_METHODS or m in PURE_TEXT_METHODS:
                continue
            if recv == "self":
                if m in known_self_methods:
                    eff = known_self_methods[m]
                    if eff is not None:
                        eff(env, x)
                    continue
                for k in list(env):
                    if k.startswith("self."):
                        env[k] = UNK
                continue
            # a mutating call on / below a tracked container forgets it
            for k in list(env):
                if k == recv or k.startswith(recv + ".") or k.startswith(recv + "["):
                    env[k] = UNK
        else:
            fname = q.dotted(x.func)
            if fname in PURE_FUNCS or fname in IDENTITY_CALLS:
                continue
        # mutable models passed to unknown code are forgotten
        if isinstance(x.func, ast.Attribute) and (x.func.attr in PURE_METHODS or x.func.attr in pure_methods or x.func.attr in PURE_TEXT_METHODS):
            continue
        for a in list(x.args) + [k.value for k in x.keywords]:
            d = q.dotted(a) if isinstance(a, (ast.Name, ast.Attribute)) else None
            if d and isinstance(env.get(d), frozenset):
                if not (isinstance(x.func, ast.Attribute) and q.dotted(x.func.value) == "self" and x.func.attr in known_self_methods):
                    env[d] = UNK


def default_transfer(n: Node, env: Dict[str, object], known_self_methods: Dict[str, Optional[Callable]], pure_methods: Set[str]):
    if n.ast is None or n.kind not in ("stmt", "test", "for", "with"):
        return
    grown = None
    if n.kind == "stmt" and isinstance(n.ast, ast.Expr) and isinstance(n.ast.value, ast.Call) and isinstance(n.ast.value.func, ast.Attribute) \
            and n.ast.value.func.attr in ("append", "extend") and len(n.ast.value.args) == 1 and not n.ast.value.keywords:
        # a list whose content is known (modelled as a tuple) grows by a known element / known elements
        d0 = q.dotted(n.ast.value.func.value)
        if d0 is not None and isinstance(env.get(d0), tuple):
            v0 = try_fold(n.ast.value.args[0], env)
            if v0 is not UNK:
                if n.ast.value.func.attr == "append":
                    grown = (d0, env[d0] + (v0,))
                elif isinstance(v0, (tuple, frozenset)):
                    grown = (d0, env[d0] + tuple(v0))
    for root in _node_roots(n):
        _call_effects(env, root, known_self_methods, pure_methods)
    if grown is not None:
        env[grown[0]] = grown[1]
        return
    if n.kind == "for":
        for p in q.assigned_paths(ast.Assign(targets=[n.ast.target], value=ast.Constant(value=None))):
            _bind(env, p.rstrip("[]"), UNK)
        return
    if n.kind == "with":
        for it in n.ast.items:
            if it.optional_vars is not None:
                for p in q.assigned_paths(ast.Assign(targets=[it.optional_vars], value=ast.Constant(value=None))):
                    _bind(env, p.rstrip("[]"), UNK)
        return
    st = n.ast
    if isinstance(st, ast.Assign):
        val = try_fold(st.value, env)
        for t in st.targets:
            _assign_target(env, t, val, st.value)
    elif isinstance(st, ast.AnnAssign) and st.value is not None:
        _assign_target(env, st.target, try_fold(st.value, env), st.value)
    elif isinstance(st, ast.AugAssign):
        if isinstance(st.target, ast.Subscript):
            d = q.dotted(st.target.value)
            if d and isinstance(st.target.slice, ast.Constant):
                key = "%s[%r]" % (d, st.target.slice.value)
                if key in env:
                    env[key] = UNK
            elif d and isinstance(env.get(d), frozenset):
                env[d] = UNK
        else:
            d = q.dotted(st.target)
            if d:
                cur = env.get(d, UNK)
                rhs = try_fold(st.value, env)
                val = UNK
                if cur is not UNK and rhs is not UNK and isinstance(cur, (int, str, bytes, tuple)) and not isinstance(cur, bool):
                    val = try_fold(ast.BinOp(left=ast.Constant(value=cur), op=st.op, right=ast.Constant(value=rhs)), {})
                _bind(env, d, val)
    elif isinstance(st, ast.Delete):
        for t in st.targets:
            if isinstance(t, ast.Subscript):
                d = q.dotted(t.value)
                if d is None:
                    continue
                cur = env.get(d)
                if isinstance(t.slice, ast.Constant):
                    if isinstance(cur, frozenset):
                        env[d] = cur - {t.slice.value}
                    env.pop("%s[%r]" % (d, t.slice.value), None)
                elif isinstance(cur, frozenset):
                    env[d] = UNK
            else:
                d = q.dotted(t)
                if d:
                    _bind(env, d, UNK)
    else:
        for x in q.walk_local(st):
            if isinstance(x, ast.NamedExpr):
                _assign_target(env, x.target, try_fold(x.value, env), x.value)


Hook = Callable[[Node, Dict[str, object]], object]
STOP = "stop"


def peval(
    cfg: CFG,
    init: Dict[str, object],
    hook: Optional[Hook] = None,
    known_self_methods: Optional[Dict[str, Optional[Callable]]] = None,
    pure_methods: Iterable[str] = (),
    track: Optional[Callable[[str], bool]] = None,
    follow_exc: bool = True,
    refine: bool = True,
    on_edge: Optional[Callable[[Node, str, Dict[str, object]], object]] = None,
) -> Dict[int, List[Tuple[frozenset, Dict[str, object]]]]:
    """Explore ``cfg`` from the bindings ``init``.  Returns, per node id, the list
    of (branch facts, bindings) states at the *entry* of that node.

    ``hook(node, env)`` runs before the default effect of a node and may mutate
    ``env`` in place; returning ``STOP`` abandons the path, returning ``True``
    suppresses the default effect.  ``known_self_methods`` maps names of
    methods called on ``self`` to an effect ``(env, call) -> None`` (or None for
    "does not touch the bindings"); any other non-pure ``self.m()`` call forgets
    every ``self.*`` binding.  Keys of ``env`` starting with ``@`` belong to the
    rule and are never touched by the engine.  ``on_edge(test_node, 'true'|'false',
    env)`` is consulted for branch edges the engine could not decide; it may
    mutate ``env`` (record the decision) or return ``STOP`` to declare the edge
    infeasible under the rule's stated precondition."""
    ksm = dict(known_self_methods or {})
    pm = set(pure_methods)
    fn_locals = q.local_names(cfg.fn) if hasattr(cfg.fn, "args") else set()

    def transfer(n: Node, val):
        env = dict(val)
        r = None
        if hook is not None:
            r = hook(n, env)
            if r == STOP:
                return None
        if r is not True:
            default_transfer(n, env, ksm, pm)
        return freeze(env)

    def edge(n: Node, kind: str, val):
        if n.kind == "for" and kind in ("true", "false") and not isinstance(n.ast, ast.AsyncFor):
            # a loop over a sequence whose content is known is iterated element by element
            env = dict(val)
            seq = try_fold(n.ast.iter, env)
            if isinstance(seq, (tuple, str, bytes, range)) and len(seq) <= 16:
                key = "@iter:%d" % n.id
                idx = env.get(key, 0)
                if kind == "true":
                    if idx >= len(seq):
                        return None
                    item = seq[idx]
                    item = bytes([item]) if isinstance(seq, bytes) and False else item
                    _assign_target(env, n.ast.target, item, None)
                    env[key] = idx + 1
                else:
                    if idx < len(seq):
                        return None
                    env.pop(key, None)
                return freeze(env)
            return val
        if n.kind == "test" and kind in ("true", "false"):
            env = dict(val)
            try:
                v = pfold(n.ast, env)
            except q.NotFoldable:
                # a test that mentions a value the valuation fixes but still cannot be decided (something else in it is
                # unknown): paths through it are only "possible as far as the engine can see" — a rule must not report
                # a violation from such a state (it should fail closed instead)
                if not _allowed_opaque(n.ast, env):
                    env["@undecided"] = True
                if "@partial" not in env:
                    try:
                        mentioned = q.paths_in(prep(n.ast))
                    except Exception:
                        mentioned = set()
                    if any((k in mentioned) and env[k] is not UNK and not k.startswith("@") and not k.startswith("call:") for k in env):
                        # ... and what could not be resolved is a bare global name (a constant this evaluation should
                        # have known), not an attribute of an object or the result of a call, which are opaque by nature
                        bases = {id(x.value) for x in ast.walk(n.ast) if isinstance(x, ast.Attribute)} | {id(x.func) for x in ast.walk(n.ast) if isinstance(x, ast.Call)}
                        free = [x.id for x in ast.walk(n.ast) if isinstance(x, ast.Name) and id(x) not in bases and x.id not in env and x.id not in fn_locals]
                        if free:
                            env["@partial"] = q.unparse(n.ast)[:80]
                if on_edge is not None and on_edge(n, kind, env) == STOP:
                    return None
                if refine:
                    _refine(env, n.ast, kind == "true")
                return freeze(env)
            except Exception:
                return val
            if bool(v) != (kind == "true"):
                return None
        return val

    seen = explore(cfg, freeze(init), transfer, track or (lambda t: False), edge_transfer=edge, follow_exc=follow_exc, exc_effect=False)
    out: Dict[int, List[Tuple[frozenset, Dict[str, object]]]] = {}
    for nid, states in seen.items():
        out[nid] = [(facts, dict(val)) for facts, val in states]
    return out


def _refine(env: Dict[str, object], test: ast.AST, pol: bool):
    """Learn a binding from an undecided test: ``p == <const>`` taken true binds p;
    a bare path taken as a branch binds nothing (truthiness is not a value)."""
    t = test
    while isinstance(t, ast.UnaryOp) and isinstance(t.op, ast.Not):
        t = t.operand
        pol = not pol
    if isinstance(t, ast.Compare) and len(t.ops) == 1:
        op = t.ops[0]
        l, r = t.left, t.comparators[0]
        if (isinstance(op, ast.Eq) and pol) or (isinstance(op, ast.NotEq) and not pol):
            for a, b in ((l, r), (r, l)):
                d = q.dotted(prep(a)) if isinstance(a, (ast.Name, ast.Attribute, ast.Subscript)) else None
                if d and isinstance(b, ast.Constant) and env.get(d, UNK) is UNK:
                    env[d] = b.value
                    return


def partition(domain: Iterable[int], exprs: Iterable[ast.AST], var_paths: Sequence[str]) -> List[List[int]]:
    """Partition ``domain`` by the truth vector of every expression in ``exprs``
    that folds when only ``var_paths`` are bound (all to the same value).  Values
    in one class are indistinguishable to those predicates."""
    exprs = list(exprs)
    usable = []
    for e in exprs:
        try:
            pfold(e, {p: 0 for p in var_paths})
            usable.append(prep(e))
        except q.NotFoldable:
            continue
        except Exception:
            continue
    classes: Dict[tuple, List[int]] = {}
    for v in domain:
        env = {p: v for p in var_paths}
        key = []
        for e in usable:
            try:
                key.append(bool(q.fold(e, env)))
            except Exception:
                key.append(None)
        classes.setdefault(tuple(key), []).append(v)
    return list(classes.values())


def predicates_on(fn: ast.AST, var_paths: Sequence[str]) -> List[ast.AST]:
    """Compare / BoolOp-free atomic expressions in ``fn`` mentioning one of ``var_paths``."""
    out = []
    vp = set(var_paths)
    for n in q.walk_body(fn):
        if isinstance(n, ast.Compare):
            ps = q.paths_in(prep(n))
            if ps & vp:
                out.append(n)
    return out


def pure_self_methods(repo, relpath: str, clsname: str) -> Set[str]:
    """Names of methods of ``clsname`` that provably do not change the object:
    no store to ``self.*`` and only calls of pure builtins/methods or of other
    such methods.  Calls to them keep the partial evaluator's ``self.*`` bindings."""
    meths = {f.name: f for f in repo.direct_methods(relpath, clsname)}
    pure: Set[str] = set()
    cand = set()
    for name, fi in meths.items():
        ok = not isinstance(fi.node, ast.AsyncFunctionDef)
        for n in q.walk_body(fi.node):
            if isinstance(n, (ast.Assign, ast.AugAssign, ast.AnnAssign, ast.Delete)) and any(p.startswith("self.") or p.startswith("self[") for p in q.assigned_paths(n)):
                ok = False
            if isinstance(n, (ast.Yield, ast.YieldFrom, ast.Await, ast.Global, ast.Nonlocal)):
                ok = False
        if ok:
            cand.add(name)
    changed = True
    pure = set(cand)
    while changed:
        changed = False
        for name in list(pure):
            for c in q.calls(meths[name].node):
                if isinstance(c.func, ast.Attribute):
                    if c.func.attr in PURE_METHODS:
                        continue
                    if q.dotted(c.func.value) == "self" and c.func.attr in pure:
                        continue
                    pure.discard(name)
                    changed = True
                    break
                else:
                    fn = q.dotted(c.func)
                    if fn in PURE_FUNCS or fn in IDENTITY_CALLS or fn in _BUILTINS or fn in ("any", "all", "sum", "map", "filter", "next", "iter", "ord", "chr", "round", "divmod", "format", "frozenset"):
                        continue
                    if fn is not None and _pure_module_function(meths[name].module, fn):
                        continue  # a side-effect-free function of the same module (a predicate moved out of the class)
                    pure.discard(name)
                    changed = True
                    break
    return pure



def _allowed_opaque(test: ast.AST, env) -> bool:
    return False


def module_constants(fi) -> Dict[str, object]:
    """Foldable module-level ``NAME = <constant expression>`` bindings of the function's module that the function does
    not shadow: a literal hoisted to a module constant must evaluate like the literal."""
    out: Dict[str, object] = {}
    locs = q.local_names(fi.node) if hasattr(fi.node, "args") else set()
    for name, value in fi.module.assigns.items():
        if name in locs:
            continue
        try:
            v = _fold3(prep(value), dict(out))
            hash(v)
        except Exception:
            continue
        out[name] = v
    return out


def class_constants(repo, relpath: str, clsname: str, prefix: str = "self.") -> Dict[str, object]:
    out: Dict[str, object] = {}
    for st in repo.cls(relpath, clsname).body:
        tgt = st.targets[0] if isinstance(st, ast.Assign) and len(st.targets) == 1 else (st.target if isinstance(st, ast.AnnAssign) and st.value is not None else None)
        if isinstance(tgt, ast.Name):
            try:
                v = _fold3(prep(st.value), {k[len(prefix):]: x for k, x in out.items()})
                hash(v)
            except Exception:
                continue
            out[prefix + tgt.id] = v
    return out


def partial_states(states) -> Optional[str]:
    """The text of an undecided test on fixed inputs that some of the given (facts, env) states passed through, or None."""
    for _f, env in states:
        if env.get("@partial"):
            return env["@partial"]
    return None



def _pure_module_function(mod, name: str, depth: int = 2) -> bool:
    """A module-level function that only computes: no store to an attribute / subscript / global, no await/yield, and
    only calls of pure builtins, text methods or other such functions."""
    fi = mod.funcs.get(name)
    if fi is None or "." in name or depth < 0 or isinstance(fi.node, ast.AsyncFunctionDef):
        return False
    for n in q.walk_body(fi.node):
        if isinstance(n, (ast.Yield, ast.YieldFrom, ast.Await, ast.Global, ast.Nonlocal, ast.Delete)):
            return False
        if isinstance(n, (ast.Assign, ast.AugAssign, ast.AnnAssign)) and any(("." in p_) or p_.endswith("[]") for p_ in q.assigned_paths(n)):
            return False
        if isinstance(n, ast.Call):
            if isinstance(n.func, ast.Attribute):
                if n.func.attr in PURE_METHODS or n.func.attr in PURE_TEXT_METHODS:
                    continue
                return False
            fn = q.dotted(n.func)
            if fn in PURE_FUNCS or fn in IDENTITY_CALLS or fn in _BUILTINS or fn in ("any", "all", "sum", "next", "ord", "chr", "frozenset"):
                continue
            if fn is None or fn == name or not _pure_module_function(mod, fn, depth - 1):
                return False
    return True
