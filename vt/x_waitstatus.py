"""Abstract evaluation of os.wait()-status expressions (shared by C41 and C42).

A wait status is abstracted to one of a few concrete representatives (signals 1/9/15, exit codes 0/1/2/255).  An
expression over the status is evaluated for a representative by replacing the ``os.W*`` macro calls by their value
and constant folding.  Calls of same-module helper functions / methods of the same class that receive the status
(``_log_child_exit(id, pid, status)``, ``self._decode_wait_status(status)``) are evaluated by exploring the helper's
CFG for that representative (branch conditions folded, ``sys.platform == 'win32'`` pruned) and folding its return
expressions: if every feasible path returns the same constant the call is replaced by it.  Nothing is executed.
"""
from __future__ import annotations

import ast
import copy
from typing import Optional

from . import q
from .cfg import explore, canon_fact
from .model import AnalysisError, FuncInfo, Repo

# name -> (signalled?, terminating signal, exit status)
STATUS = {"sig1": (True, 1, 0), "sig9": (True, 9, 0), "sig15": (True, 15, 0), "sig6core": (True, 6, 0), "sig11core": (True, 11, 0),
          "exit0": (False, 0, 0), "exit1": (False, 0, 1), "exit2": (False, 0, 2), "exit255": (False, 0, 255)}
# signal deaths that also dumped core (the 0x80 bit of the low byte)
CORE = frozenset(("sig6core", "sig11core"))


def status_int(cls: str) -> int:
    """The POSIX integer encoding of the representative (assumption A-wait): low 7 bits = terminating signal,
    0x80 = core dumped, next byte = exit status.  Used when the code does bit arithmetic on the raw status."""
    sg, term, ex = STATUS[cls]
    return (term | (0x80 if cls in CORE else 0)) if sg else (ex << 8)


def macro_table(cls: str):
    sg, term, ex = STATUS[cls]
    return {"WIFSIGNALED": sg, "WIFEXITED": not sg, "WEXITSTATUS": ex, "WTERMSIG": term, "WIFSTOPPED": False, "WCOREDUMP": cls in CORE, "WIFCONTINUED": False}


class Evaluator:
    def __init__(self, repo: Repo, relpath: str, clsname: Optional[str] = None, max_depth: int = 2, scopes=()):
        self.repo = repo
        self.relpath = relpath
        self.clsname = clsname
        self.max_depth = max_depth
        self.scopes = list(scopes)  # qualified names of enclosing functions whose nested defs may be called

    def _callee(self, call: ast.Call) -> Optional[FuncInfo]:
        f = call.func
        if isinstance(f, ast.Name):
            for sc in self.scopes:
                qn = "%s.<locals>.%s" % (sc, f.id)
                if self.repo.has_func(self.relpath, qn):
                    return self.repo.func(self.relpath, qn)
        if isinstance(f, ast.Name) and self.repo.has_func(self.relpath, f.id):
            return self.repo.func(self.relpath, f.id)
        if isinstance(f, ast.Attribute) and isinstance(f.value, ast.Name) and f.value.id in ("self", "cls", self.clsname or "") and self.clsname:
            qn = "%s.%s" % (self.clsname, f.attr)
            if self.repo.has_func(self.relpath, qn):
                return self.repo.func(self.relpath, qn)
        return None

    def subst(self, e: ast.AST, status: str, cls: str, depth: int = 0) -> ast.AST:
        table = macro_table(cls)
        ev = self

        class T(ast.NodeTransformer):
            def visit_Call(self, node):
                if isinstance(node.func, ast.Attribute) and node.func.attr in table and len(node.args) == 1 and q.dotted(node.args[0]) == status:
                    return ast.Constant(value=table[node.func.attr])
                if depth < ev.max_depth and any(q.dotted(a) == status for a in node.args) and not node.keywords:
                    h = ev._callee(node)
                    if h is not None:
                        params = [p for p in h.params() if p not in ("self", "cls")]
                        if len(params) == len(node.args):
                            hs = params[[q.dotted(a) for a in node.args].index(status)]
                            return ast.Constant(value=ev.eval_helper(h, hs, cls, depth + 1))
                return self.generic_visit(node)

            def visit_Name(self, node):
                # the raw status used in arithmetic / comparisons (`status & 0xFF`, `status >> 8`): its POSIX encoding
                if node.id == status and isinstance(node.ctx, ast.Load):
                    return ast.Constant(value=status_int(cls))
                return node

        return T().visit(copy.deepcopy(e))

    def fold(self, e: ast.AST, status: str, cls: str, depth: int = 0):
        return q.fold(self.subst(e, status, cls, depth), {})

    def eval_helper(self, h: FuncInfo, status: str, cls: str, depth: int):
        """The constant every feasible path of helper ``h`` returns for status class ``cls``."""
        cfg = h.cfg
        vals = set()
        unknown = []

        def tr(n, v):
            if n.kind == "stmt" and isinstance(n.ast, ast.Return):
                try:
                    vals.add(self.fold(n.ast.value, status, cls, depth) if n.ast.value is not None else None)
                except q.NotFoldable as e:
                    unknown.append(str(e))
            return v

        def edge(n, kind, v):
            if n.kind == "test" and kind in ("true", "false"):
                t, pol = canon_fact(n.ast, kind == "true")
                if t == "sys.platform == 'win32'":
                    return None if pol else v
                from .x_flow import expand_locals
                test_ = expand_locals(h, n.ast, keep={status})
                if status in q.names_in(test_):
                    truth = bool(self.fold(test_, status, cls, depth))
                    if truth != (kind == "true"):
                        return None
            return v

        explore(cfg, 0, tr, lambda t: False, edge_transfer=edge, follow_exc=False)
        if cfg.pred[cfg.exit.id] and any(not (cfg.nodes[p].kind == "stmt" and isinstance(cfg.nodes[p].ast, ast.Return)) for p, _k in cfg.pred[cfg.exit.id]):
            vals.add(None)  # may fall off the end
        if unknown or len(vals) != 1:
            raise q.NotFoldable("helper %s does not return one constant for status class %s (%s)" % (h.qualname, cls, unknown or sorted(map(repr, vals))))
        return next(iter(vals))
