"""Semantics-preserving AST normalisation applied before the C33..C39 rules run
(owner: builder g6; formerly vt/x_norm.py).

Routine refactorings introduce *names* for things the rules reason about: a local
alias of an attribute (``putters = self._putters``), a named boolean
(``completed = f.done() and not f.cancelled()``), a temporary for an argument
(``now = self.io_loop.time(); self._update_next(now)``), a value stored and then
re-read through the local (``remaining = self.n - 1; self.n = remaining; if
remaining == 0``), or a tiny setter helper (``self._mark_finished()``).  Instead
of teaching every rule every spelling, the module trees are rewritten into the
form without those names, under conditions that guarantee the rewritten program
computes the same values:

N4  after ``P = x`` (x a single-store local, P an attribute path) later reads of
    ``x`` in the same block are reads of ``P`` until ``P`` is stored again;
N1  a single-store local bound to a *path* (``self.a.b``, ``param``,
    ``cell["k"]``) is replaced by the path if the path is not re-bound between
    the definition and the last use (mutating method calls keep the alias valid);
N2  a single-store local bound to a *pure* expression (comparisons, boolean
    operators, ``done()``/``cancelled()``/``isinstance`` style calls over paths)
    is replaced likewise; when the expression contains calls all uses must be in
    the statement immediately after the definition;
N3  any other single-store local (a call result, a fresh list/dict display, a
    comprehension) used exactly once, in the statement immediately after its
    definition, is replaced (argument temporaries);
N5  a statement ``self.m()`` where ``m`` is a method of the same class whose body
    is only ``self.<attr> = <constant | global name>`` assignments is replaced by
    those assignments.

The definition is removed when no read remains (closures keep it).  Locations are
copied from the replaced node, so sites keep their line numbers.  Anything not
matching these conditions is left untouched.
"""
from __future__ import annotations

import ast
import copy
from typing import Dict, List, Optional, Set, Tuple

from . import q
from .cfg import PURE_METHODS
from .model import Repo

FuncNode = (ast.FunctionDef, ast.AsyncFunctionDef)
LOOPS = (ast.While, ast.For, ast.AsyncFor)
PURE_CALL_METHODS = (set(PURE_METHODS) - {"result", "exception", "time", "index", "find", "count", "decode", "encode", "split", "copy"}) | {"total_seconds"}
MUTATORS = {"pop", "popleft", "popitem", "append", "appendleft", "add", "remove", "discard", "clear", "update", "extend", "insert", "send", "throw",
            "set_result", "set_exception", "cancel", "heappop", "heappush"}
PURE_CALL_FUNCS = {"isinstance", "len", "bool", "callable", "hasattr", "is_future", "isawaitable", "issubclass"}


# ---------------------------------------------------------------------------
# scope helpers


def _own_nodes(fn):
    """Nodes of fn's own scope; nested defs/lambdas/classes are yielded but not entered."""
    stack = list(reversed(fn.body))
    while stack:
        n = stack.pop()
        yield n
        if isinstance(n, q.ScopeNode):
            continue
        stack.extend(reversed(list(ast.iter_child_nodes(n))))


def _own_nodes_of_stmt(st):
    stack = list(reversed(list(ast.iter_child_nodes(st))))
    while stack:
        n = stack.pop()
        yield n
        if isinstance(n, q.ScopeNode):
            continue
        stack.extend(reversed(list(ast.iter_child_nodes(n))))


def _nested_scopes(fn):
    return [n for n in _own_nodes(fn) if isinstance(n, q.ScopeNode)]


def _params(fn) -> Set[str]:
    a = fn.args
    out = {x.arg for x in a.posonlyargs + a.args + a.kwonlyargs}
    if a.vararg:
        out.add(a.vararg.arg)
    if a.kwarg:
        out.add(a.kwarg.arg)
    return out


def _path_text(e) -> Optional[str]:
    """Canonical text of a path expression: dotted names, optionally with constant subscripts."""
    if isinstance(e, ast.Name):
        return e.id
    if isinstance(e, ast.Attribute):
        b = _path_text(e.value)
        return None if b is None else b + "." + e.attr
    if isinstance(e, ast.Subscript) and isinstance(e.slice, ast.Constant) and isinstance(e.slice.value, (str, int)):
        b = _path_text(e.value)
        return None if b is None else "%s[%r]" % (b, e.slice.value)
    return None


def _free_paths(e) -> Set[str]:
    out = set()
    for n in ast.walk(e):
        t = _path_text(n) if isinstance(n, (ast.Name, ast.Attribute, ast.Subscript)) else None
        if t:
            out.add(t)
    return out


def _is_pure(e) -> Tuple[bool, bool]:
    """(pure, contains_calls)"""
    has_call = False
    for n in ast.walk(e):
        if isinstance(n, (ast.Await, ast.Yield, ast.YieldFrom, ast.NamedExpr, ast.Lambda, ast.Starred)):
            return False, has_call
        if isinstance(n, (ast.Dict, ast.List, ast.Set, ast.ListComp, ast.SetComp, ast.DictComp, ast.GeneratorExp)):
            return False, has_call  # a fresh mutable object: identity matters, only a single adjacent use may be inlined (N3)
        if isinstance(n, ast.Call):
            has_call = True
            if n.keywords and any(k.arg is None for k in n.keywords):
                return False, True
            if isinstance(n.func, ast.Attribute) and n.func.attr in PURE_CALL_METHODS:
                continue
            if isinstance(n.func, ast.Name) and n.func.id in PURE_CALL_FUNCS:
                continue
            return False, True
    return True, has_call


def _stored_paths(st) -> Set[str]:
    """Paths (text) bound by statement ``st`` itself."""
    out = set()

    def tgt(t):
        if isinstance(t, (ast.Tuple, ast.List)):
            for x in t.elts:
                tgt(x)
        elif isinstance(t, ast.Starred):
            tgt(t.value)
        else:
            p = _path_text(t)
            if p:
                out.add(p)
            elif isinstance(t, ast.Subscript):
                b = _path_text(t.value)
                if b:
                    out.add(b + "[?]")

    if isinstance(st, ast.Assign):
        for t in st.targets:
            tgt(t)
    elif isinstance(st, (ast.AugAssign, ast.AnnAssign)):
        if not (isinstance(st, ast.AnnAssign) and st.value is None):
            tgt(st.target)
    elif isinstance(st, ast.Delete):
        for t in st.targets:
            tgt(t)
    elif isinstance(st, (ast.For, ast.AsyncFor)):
        tgt(st.target)
    elif isinstance(st, (ast.With, ast.AsyncWith)):
        for it in st.items:
            if it.optional_vars is not None:
                tgt(it.optional_vars)
    elif isinstance(st, ast.ExceptHandler) and st.name:
        out.add(st.name)
    elif isinstance(st, (ast.Import, ast.ImportFrom)):
        for a in st.names:
            out.add((a.asname or a.name).split(".")[0])
    return out


def _conflicts(stored: Set[str], free: Set[str]) -> bool:
    """A store to ``p`` invalidates a value that mentions p, a prefix of p or an extension of p."""
    for s in stored:
        s0 = s[:-3] if s.endswith("[?]") else s
        for f in free:
            if f == s0 or f.startswith(s0 + ".") or f.startswith(s0 + "[") or s0.startswith(f + ".") or s0.startswith(f + "["):
                return True
    return False


class _Index:
    """Statement order, parents and loop nesting of one function's own scope."""

    def __init__(self, fn):
        self.fn = fn
        self.order: Dict[int, int] = {}
        self.parent: Dict[int, ast.AST] = {}
        self.stmts: List[ast.AST] = []
        k = 0
        for n in _own_nodes(fn):
            for c in ast.iter_child_nodes(n):
                self.parent[id(c)] = n
            if isinstance(n, (ast.stmt, ast.ExceptHandler)):
                self.order[id(n)] = k
                self.stmts.append(n)
                k += 1
        for c in fn.body:
            self.parent[id(c)] = fn

    def stmt_of(self, node):
        n = node
        while not isinstance(n, (ast.stmt, ast.ExceptHandler)):
            n = self.parent.get(id(n))
            if n is None or n is self.fn:
                return None
        return n

    def loops_of(self, node) -> List[ast.AST]:
        out = []
        n = self.parent.get(id(node))
        while n is not None and n is not self.fn:
            if isinstance(n, LOOPS):
                out.append(n)
            n = self.parent.get(id(n))
        return out

    def block_and_index(self, st):
        p = self.parent.get(id(st))
        if p is None:
            return None, -1
        for fld in ("body", "orelse", "finalbody"):
            b = getattr(p, fld, None)
            if isinstance(b, list):
                for i, x in enumerate(b):
                    if x is st:
                        return b, i
        return None, -1


def _loads(fn, name):
    return [n for n in _own_nodes(fn) if isinstance(n, ast.Name) and n.id == name and isinstance(n.ctx, ast.Load)]


def _replace(root_fn, targets: List[ast.AST], new_expr: ast.AST):
    ids = {id(t) for t in targets}

    class T(ast.NodeTransformer):
        def visit_Name(self, node):
            if id(node) in ids:
                e = copy.deepcopy(new_expr)
                for x in ast.walk(e):
                    ast.copy_location(x, node)
                return e
            return node

        def visit_FunctionDef(self, node):
            return node

        visit_AsyncFunctionDef = visit_FunctionDef

        def visit_Lambda(self, node):
            return node

        def visit_ClassDef(self, node):
            return node

    for fld, val in ast.iter_fields(root_fn):
        if fld in ("decorator_list", "args", "returns"):
            continue
        if isinstance(val, list):
            for i, x in enumerate(val):
                if isinstance(x, ast.AST):
                    val[i] = T().visit(x)


def _remove_stmt(idx: _Index, st):
    b, i = idx.block_and_index(st)
    if b is None:
        return False
    if len(b) == 1:
        b[i] = ast.copy_location(ast.Pass(), st)
    else:
        del b[i]
    return True


# ---------------------------------------------------------------------------
# the passes


def _single_store_locals(fn) -> Dict[str, ast.stmt]:
    params = _params(fn)
    count: Dict[str, int] = {}
    defs: Dict[str, ast.AST] = {}
    declared = set()
    for n in _own_nodes(fn):
        if isinstance(n, (ast.Global, ast.Nonlocal)):
            declared |= set(n.names)
        if isinstance(n, (ast.stmt, ast.ExceptHandler)):
            for p in _stored_paths(n):
                if p.isidentifier():
                    count[p] = count.get(p, 0) + 1
                    defs[p] = n
        elif isinstance(n, ast.NamedExpr) and isinstance(n.target, ast.Name):
            count[n.target.id] = count.get(n.target.id, 0) + 2
        elif isinstance(n, ast.comprehension):
            for t in ast.walk(n.target):
                if isinstance(t, ast.Name):
                    count[t.id] = count.get(t.id, 0) + 2
    for sc in _nested_scopes(fn):
        for n in ast.walk(sc):
            if isinstance(n, ast.Nonlocal):
                declared |= set(n.names)
    out = {}
    for nm, c in count.items():
        st = defs.get(nm)
        if st is not None and c == 1 and nm not in params and nm not in declared and nm not in ("self", "cls"):
            if isinstance(st, ast.Assign) and len(st.targets) == 1 and isinstance(st.targets[0], ast.Name):
                out[nm] = st
            elif isinstance(st, ast.AnnAssign) and isinstance(st.target, ast.Name) and st.value is not None:
                out[nm] = st
    return out


def _pass_store_then_read(fn) -> bool:
    """N4"""
    changed = False
    singles = _single_store_locals(fn)
    if not singles:
        return False
    idx = _Index(fn)
    for st in list(idx.stmts):
        if not (isinstance(st, ast.Assign) and len(st.targets) == 1 and isinstance(st.targets[0], ast.Attribute) and isinstance(st.value, ast.Name)):
            continue
        x = st.value.id
        P = _path_text(st.targets[0])
        if x not in singles or P is None or singles[x] is st:
            continue
        if idx.order[id(singles[x])] > idx.order[id(st)] or idx.loops_of(st) != idx.loops_of(singles[x]):
            continue
        b, i = idx.block_and_index(st)
        if b is None:
            continue
        targets = []
        for later in b[i + 1:]:
            nodes = [later] + list(_own_nodes_of_stmt(later))
            if any(isinstance(n, (ast.stmt, ast.ExceptHandler)) and _conflicts(_stored_paths(n), {P}) for n in nodes):
                break
            targets.extend(m for m in nodes if isinstance(m, ast.Name) and m.id == x and isinstance(m.ctx, ast.Load))
        if targets:
            _replace(fn, targets, ast.Attribute(value=copy.deepcopy(st.targets[0].value), attr=st.targets[0].attr, ctx=ast.Load()))
            changed = True
    return changed


def _pass_copy_prop(fn) -> bool:
    """N1 / N2 / N3 — one substitution per call (the caller iterates to a fixpoint)."""
    singles = _single_store_locals(fn)
    if not singles:
        return False
    idx = _Index(fn)
    for nm in sorted(singles, key=lambda k: idx.order.get(id(singles[k]), 0)):
        S = singles[nm]
        E = S.value
        own = _loads(fn, nm)
        nested = [n for sc in _nested_scopes(fn) for n in ast.walk(sc) if isinstance(n, ast.Name) and n.id == nm]
        if not own:
            continue
        if any(isinstance(n, ast.Name) and n.id == nm for n in ast.walk(E)):
            continue
        use_stmts = [idx.stmt_of(u) for u in own]
        if any(u is None for u in use_stmts):
            continue
        so = idx.order[id(S)]
        if any(idx.order[id(u)] <= so for u in use_stmts):
            continue
        # every use must come after the definition in the same block or inside a later sibling of it
        b, i = idx.block_and_index(S)
        if b is None:
            continue
        later_ids = set()
        for later in b[i + 1:]:
            later_ids.add(id(later))
            for m in _own_nodes_of_stmt(later):
                later_ids.add(id(m))
        if not all(id(u) in later_ids for u in own):
            continue
        free = _free_paths(E)
        is_path = _path_text(E) is not None
        pure, has_call = _is_pure(E)
        nxt = b[i + 1] if i + 1 < len(b) else None

        def in_next_stmt_head(u):
            """the use is evaluated as part of the statement right after the definition, before that statement's own body"""
            if nxt is None:
                return False
            if isinstance(nxt, (ast.If, ast.While)):
                return any(u is m for m in ast.walk(nxt.test))
            if isinstance(nxt, (ast.For, ast.AsyncFor)):
                return any(u is m for m in ast.walk(nxt.iter))
            if isinstance(nxt, (ast.Try, ast.With, ast.AsyncWith, ast.ClassDef) + FuncNode):
                return False
            return any(u is m for m in ast.walk(nxt))

        ok = False
        if is_path or (pure and not has_call):
            last = max(idx.order[id(u)] for u in use_stmts)
            bad = False
            for st in idx.stmts:
                o = idx.order[id(st)]
                if so < o <= last and _conflicts(_stored_paths(st), free):
                    # a store in the (last) using statement is fine when the uses are in its value (evaluated first)
                    if o == last and isinstance(st, (ast.Assign, ast.AugAssign, ast.AnnAssign)) and st.value is not None \
                            and all(any(u is m for m in ast.walk(st.value)) for u in own if idx.stmt_of(u) is st):
                        continue
                    bad = True
            # a use inside a loop (not containing the definition) that re-binds a free path on some iteration
            for u in own:
                for lp in idx.loops_of(u):
                    if lp in idx.loops_of(S):
                        continue
                    for m in _own_nodes_of_stmt(lp):
                        if isinstance(m, (ast.stmt, ast.ExceptHandler)) and _conflicts(_stored_paths(m), free):
                            bad = True
            ok = not bad
        elif pure and has_call:
            ok = all(in_next_stmt_head(u) for u in own)
        else:
            # N3: an argument temporary.  Results of state-changing container/future operations keep their name
            # (the rules identify "the element just popped" by that name)
            mut = any(isinstance(n, ast.Call) and isinstance(n.func, ast.Attribute) and n.func.attr in MUTATORS for n in ast.walk(E))
            ok = len(own) == 1 and not nested and not mut and in_next_stmt_head(own[0])
        if not ok:
            continue
        _replace(fn, own, E)
        if not nested:
            _remove_stmt(idx, S)
        return True
    return False


def _pass_inline_setters(fn, cls: Optional[ast.ClassDef]) -> bool:
    """N5"""
    if cls is None:
        return False
    methods = {m.name: m for m in cls.body if isinstance(m, FuncNode)}
    changed = False
    idx = _Index(fn)
    for st in list(idx.stmts):
        if not (isinstance(st, ast.Expr) and isinstance(st.value, ast.Call)):
            continue
        c = st.value
        if not (isinstance(c.func, ast.Attribute) and isinstance(c.func.value, ast.Name) and c.func.value.id == "self" and not c.args and not c.keywords):
            continue
        m = methods.get(c.func.attr)
        if m is None or m is fn or m.decorator_list or len(_params(m)) != 1:
            continue
        body = [s for s in m.body if not (isinstance(s, ast.Expr) and isinstance(s.value, ast.Constant))]
        if not body or len(body) > 4:
            continue
        if not all(isinstance(s, ast.Assign) and len(s.targets) == 1 and isinstance(s.targets[0], ast.Attribute) and isinstance(s.targets[0].value, ast.Name) and s.targets[0].value.id == "self"
                   and (isinstance(s.value, ast.Constant) or (isinstance(s.value, ast.Name) and s.value.id != "self")) for s in body):
            continue
        b, i = idx.block_and_index(st)
        if b is None:
            continue
        new = []
        for s in body:
            s2 = copy.deepcopy(s)
            for x in ast.walk(s2):
                ast.copy_location(x, st)
            new.append(s2)
        b[i:i + 1] = new
        changed = True
        idx = _Index(fn)
    return changed


def normalize_tree(tree: ast.Module) -> ast.Module:
    tree = copy.deepcopy(tree)

    def visit(body, cls):
        for st in body:
            if isinstance(st, FuncNode):
                for _ in range(12):
                    ch = _pass_inline_setters(st, cls)
                    ch |= _pass_store_then_read(st)
                    ch |= _pass_copy_prop(st)
                    if not ch:
                        break
                visit(st.body, None)
            elif isinstance(st, ast.ClassDef):
                visit(st.body, st)
            else:
                for fld in ("body", "orelse", "finalbody"):
                    sub = getattr(st, fld, None)
                    if isinstance(sub, list) and sub and isinstance(sub[0], ast.stmt):
                        visit(sub, cls)
                for h in getattr(st, "handlers", []) or []:
                    visit(h.body, cls)

    visit(tree.body, None)
    ast.fix_missing_locations(tree)
    return tree


_MOD_CACHE: Dict[tuple, ast.Module] = {}


def normalized(repo: Repo, relpaths) -> Repo:
    """A copy of ``repo`` whose listed modules are normalised.  Normalised trees are
    cached per module by content digest (a mutant re-normalises only the module it changed)."""
    r = repo
    for rel in sorted(relpaths):
        if rel not in repo.modules:
            continue
        m = repo.modules[rel]
        key = (repo.root, rel, m.digest)
        tree = _MOD_CACHE.get(key)
        if tree is None:
            tree = normalize_tree(m.tree)
            if len(_MOD_CACHE) > 256:
                _MOD_CACHE.clear()
            _MOD_CACHE[key] = tree
        r = r.with_module(rel, tree=tree)
    return r
