"""Semantics-preserving AST normalisation applied before the C33..C39 rules run
(owner: builder g6; formerly vt/x_norm.py).

Routine refactorings introduce *names* for things the rules reason about: a local
alias of an attribute (``putters = self._putters``), a named boolean
(``completed = f.done() and not f.cancelled()``), a temporary for an argument
(``now = self.io_loop.time(); self._update_next(now)``), a value stored and then
re-read through the local (``remaining = self.n - 1; self.n = remaining; if
remaining == 0``), or a tiny setter helper (``self._mark_finished()``).  Instead
of teaching every rule every spelling, the module trees are rewritten into the
form without those names, under conditions that guarantee the rewritten program
computes the same values:

N4  after ``P = x`` (x a single-store local, P an attribute path) later reads of
    ``x`` in the same block are reads of ``P`` until ``P`` is stored again;
N1  a single-store local bound to a *path* (``self.a.b``, ``param``,
    ``cell["k"]``) is replaced by the path if the path is not re-bound between
    the definition and the last use (mutating method calls keep the alias valid);
N2  a single-store local bound to a *pure* expression (comparisons, boolean
    operators, ``done()``/``cancelled()``/``isinstance`` style calls over paths)
    is replaced likewise; when the expression contains calls all uses must be in
    the statement immediately after the definition;
N3  any other single-store local (a call result, a fresh list/dict display, a
    comprehension) used exactly once, in the statement immediately after its
    definition, is replaced (argument temporaries);
N5  a statement ``self.m()`` where ``m`` is a method of the same class whose body
    is only ``self.<attr> = <constant | global name>`` assignments is replaced by
    those assignments.

The definition is removed when no read remains (closures keep it).  Locations are
copied from the replaced node, so sites keep their line numbers.  Anything not
matching these conditions is left untouched.
"""
from __future__ import annotations

import ast
import copy
from typing import Dict, List, Optional, Set, Tuple

from . import q
from .cfg import PURE_METHODS
from .model import Repo

FuncNode = (ast.FunctionDef, ast.AsyncFunctionDef)
LOOPS = (ast.While, ast.For, ast.AsyncFor)
PURE_CALL_METHODS = (set(PURE_METHODS) - {"result", "exception", "time", "index", "find", "count", "decode", "encode", "split", "copy"}) | {"total_seconds"}
MUTATORS = {"pop", "popleft", "popitem", "append", "appendleft", "add", "remove", "discard", "clear", "update", "extend", "insert", "send", "throw",
            "set_result", "set_exception", "cancel", "heappop", "heappush"}
PURE_CALL_FUNCS = {"isinstance", "len", "bool", "callable", "hasattr", "is_future", "isawaitable", "issubclass"}


# ---------------------------------------------------------------------------
# scope helpers


def _own_nodes(fn):
    """Nodes of fn's own scope; nested defs/lambdas/classes are yielded but not entered."""
    stack = list(reversed(fn.body))
    while stack:
        n = stack.pop()
        yield n
        if isinstance(n, q.ScopeNode):
            continue
        stack.extend(reversed(list(ast.iter_child_nodes(n))))


def _own_nodes_of_stmt(st):
    stack = list(reversed(list(ast.iter_child_nodes(st))))
    while stack:
        n = stack.pop()
        yield n
        if isinstance(n, q.ScopeNode):
            continue
        stack.extend(reversed(list(ast.iter_child_nodes(n))))


def _nested_scopes(fn):
    return [n for n in _own_nodes(fn) if isinstance(n, q.ScopeNode)]


def _params(fn) -> Set[str]:
    a = fn.args
    out = {x.arg for x in a.posonlyargs + a.args + a.kwonlyargs}
    if a.vararg:
        out.add(a.vararg.arg)
    if a.kwarg:
        out.add(a.kwarg.arg)
    return out


def _path_text(e) -> Optional[str]:
    """Canonical text of a path expression: dotted names, optionally with constant subscripts."""
    if isinstance(e, ast.Name):
        return e.id
    if isinstance(e, ast.Attribute):
        b = _path_text(e.value)
        return None if b is None else b + "." + e.attr
    if isinstance(e, ast.Subscript) and isinstance(e.slice, ast.Constant) and isinstance(e.slice.value, (str, int)):
        b = _path_text(e.value)
        return None if b is None else "%s[%r]" % (b, e.slice.value)
    return None


def _free_paths(e) -> Set[str]:
    out = set()
    for n in ast.walk(e):
        t = _path_text(n) if isinstance(n, (ast.Name, ast.Attribute, ast.Subscript)) else None
        if t:
            out.add(t)
    # keep the maximal paths only: `self._timeout is not None` depends on self._timeout (and on a re-binding of self),
    # not on stores to other attributes of self
    return {p for p in out if not any(o != p and (o.startswith(p + ".") or o.startswith(p + "[")) for o in out)}


def _is_pure(e) -> Tuple[bool, bool]:
    """(pure, contains_calls)"""
    has_call = False
    for n in ast.walk(e):
        if isinstance(n, (ast.Await, ast.Yield, ast.YieldFrom, ast.NamedExpr, ast.Lambda, ast.Starred)):
            return False, has_call
        if isinstance(n, (ast.Dict, ast.List, ast.Set, ast.ListComp, ast.SetComp, ast.DictComp, ast.GeneratorExp)):
            return False, has_call  # a fresh mutable object: identity matters, only a single adjacent use may be inlined (N3)
        if isinstance(n, ast.Call):
            has_call = True
            if n.keywords and any(k.arg is None for k in n.keywords):
                return False, True
            if isinstance(n.func, ast.Attribute) and n.func.attr in PURE_CALL_METHODS:
                continue
            if isinstance(n.func, ast.Name) and n.func.id in PURE_CALL_FUNCS:
                continue
            return False, True
    return True, has_call


def _stored_paths(st) -> Set[str]:
    """Paths (text) bound by statement ``st`` itself."""
    out = set()

    def tgt(t):
        if isinstance(t, (ast.Tuple, ast.List)):
            for x in t.elts:
                tgt(x)
        elif isinstance(t, ast.Starred):
            tgt(t.value)
        else:
            p = _path_text(t)
            if p:
                out.add(p)
            elif isinstance(t, ast.Subscript):
                b = _path_text(t.value)
                if b:
                    out.add(b + "[?]")

    if isinstance(st, ast.Assign):
        for t in st.targets:
            tgt(t)
    elif isinstance(st, (ast.AugAssign, ast.AnnAssign)):
        if not (isinstance(st, ast.AnnAssign) and st.value is None):
            tgt(st.target)
    elif isinstance(st, ast.Delete):
        for t in st.targets:
            tgt(t)
    elif isinstance(st, (ast.For, ast.AsyncFor)):
        tgt(st.target)
    elif isinstance(st, (ast.With, ast.AsyncWith)):
        for it in st.items:
            if it.optional_vars is not None:
                tgt(it.optional_vars)
    elif isinstance(st, ast.ExceptHandler) and st.name:
        out.add(st.name)
    elif isinstance(st, (ast.Import, ast.ImportFrom)):
        for a in st.names:
            out.add((a.asname or a.name).split(".")[0])
    return out


def _conflicts(stored: Set[str], free: Set[str]) -> bool:
    """A store to ``p`` invalidates a value that mentions p, a prefix of p or an extension of p."""
    for s in stored:
        s0 = s[:-3] if s.endswith("[?]") else s
        for f in free:
            if f == s0 or f.startswith(s0 + ".") or f.startswith(s0 + "[") or s0.startswith(f + ".") or s0.startswith(f + "["):
                return True
    return False


class _Index:
    """Statement order, parents and loop nesting of one function's own scope."""

    def __init__(self, fn):
        self.fn = fn
        self.order: Dict[int, int] = {}
        self.parent: Dict[int, ast.AST] = {}
        self.stmts: List[ast.AST] = []
        k = 0
        for n in _own_nodes(fn):
            for c in ast.iter_child_nodes(n):
                self.parent[id(c)] = n
            if isinstance(n, (ast.stmt, ast.ExceptHandler)):
                self.order[id(n)] = k
                self.stmts.append(n)
                k += 1
        for c in fn.body:
            self.parent[id(c)] = fn

    def stmt_of(self, node):
        n = node
        while not isinstance(n, (ast.stmt, ast.ExceptHandler)):
            n = self.parent.get(id(n))
            if n is None or n is self.fn:
                return None
        return n

    def loops_of(self, node) -> List[ast.AST]:
        out = []
        n = self.parent.get(id(node))
        while n is not None and n is not self.fn:
            if isinstance(n, LOOPS):
                out.append(n)
            n = self.parent.get(id(n))
        return out

    def block_and_index(self, st):
        p = self.parent.get(id(st))
        if p is None:
            return None, -1
        for fld in ("body", "orelse", "finalbody"):
            b = getattr(p, fld, None)
            if isinstance(b, list):
                for i, x in enumerate(b):
                    if x is st:
                        return b, i
        return None, -1


def _loads(fn, name):
    return [n for n in _own_nodes(fn) if isinstance(n, ast.Name) and n.id == name and isinstance(n.ctx, ast.Load)]


def _replace(root_fn, targets: List[ast.AST], new_expr: ast.AST):
    ids = {id(t) for t in targets}

    class T(ast.NodeTransformer):
        def visit_Name(self, node):
            if id(node) in ids:
                e = copy.deepcopy(new_expr)
                for x in ast.walk(e):
                    ast.copy_location(x, node)
                return e
            return node

        def visit_FunctionDef(self, node):
            return node

        visit_AsyncFunctionDef = visit_FunctionDef

        def visit_Lambda(self, node):
            return node

        def visit_ClassDef(self, node):
            return node

    for fld, val in ast.iter_fields(root_fn):
        if fld in ("decorator_list", "args", "returns"):
            continue
        if isinstance(val, list):
            for i, x in enumerate(val):
                if isinstance(x, ast.AST):
                    val[i] = T().visit(x)


def _remove_stmt(idx: _Index, st):
    b, i = idx.block_and_index(st)
    if b is None:
        return False
    if len(b) == 1:
        b[i] = ast.copy_location(ast.Pass(), st)
    else:
        del b[i]
    return True


# ---------------------------------------------------------------------------
# the passes


def _single_store_locals(fn) -> Dict[str, ast.stmt]:
    params = _params(fn)
    count: Dict[str, int] = {}
    defs: Dict[str, ast.AST] = {}
    declared = set()
    for n in _own_nodes(fn):
        if isinstance(n, (ast.Global, ast.Nonlocal)):
            declared |= set(n.names)
        if isinstance(n, (ast.stmt, ast.ExceptHandler)):
            for p in _stored_paths(n):
                if p.isidentifier():
                    count[p] = count.get(p, 0) + 1
                    defs[p] = n
        elif isinstance(n, ast.NamedExpr) and isinstance(n.target, ast.Name):
            count[n.target.id] = count.get(n.target.id, 0) + 2
        elif isinstance(n, ast.comprehension):
            for t in ast.walk(n.target):
                if isinstance(t, ast.Name):
                    count[t.id] = count.get(t.id, 0) + 2
    for sc in _nested_scopes(fn):
        for n in ast.walk(sc):
            if isinstance(n, ast.Nonlocal):
                declared |= set(n.names)
    out = {}
    for nm, c in count.items():
        st = defs.get(nm)
        if st is not None and c == 1 and nm not in params and nm not in declared and nm not in ("self", "cls"):
            if isinstance(st, ast.Assign) and len(st.targets) == 1 and isinstance(st.targets[0], ast.Name):
                out[nm] = st
            elif isinstance(st, ast.AnnAssign) and isinstance(st.target, ast.Name) and st.value is not None:
                out[nm] = st
    return out


def _pass_store_then_read(fn) -> bool:
    """N4: after ``P = x`` reads of the local ``x`` are reads of ``P`` until either is stored again (same block)."""
    changed = False
    idx = _Index(fn)
    params = _params(fn)
    for st in list(idx.stmts):
        if not (isinstance(st, ast.Assign) and len(st.targets) == 1 and isinstance(st.targets[0], (ast.Attribute, ast.Subscript)) and isinstance(st.value, ast.Name)):
            continue
        x = st.value.id
        P = _path_text(st.targets[0])
        if P is None or x in ("self", "cls", "None") or x in params:
            continue
        b, i = idx.block_and_index(st)
        if b is None:
            continue
        targets = []
        for later in b[i + 1:]:
            nodes = [later] + list(_own_nodes_of_stmt(later))
            if any(isinstance(n, (ast.stmt, ast.ExceptHandler)) and _conflicts(_stored_paths(n), {P, x}) for n in nodes):
                break
            targets.extend(m for m in nodes if isinstance(m, ast.Name) and m.id == x and isinstance(m.ctx, ast.Load))
        if targets:
            new = copy.deepcopy(st.targets[0])
            for n in ast.walk(new):
                if hasattr(n, "ctx"):
                    n.ctx = ast.Load()
            _replace(fn, targets, new)
            changed = True
    return changed


def _pass_copy_prop(fn) -> bool:
    """N1 / N2 / N3 — one substitution per call (the caller iterates to a fixpoint)."""
    singles = _single_store_locals(fn)
    if not singles:
        return False
    idx = _Index(fn)
    for nm in sorted(singles, key=lambda k: idx.order.get(id(singles[k]), 0)):
        S = singles[nm]
        E = S.value
        own = _loads(fn, nm)
        nested = [n for sc in _nested_scopes(fn) for n in ast.walk(sc) if isinstance(n, ast.Name) and n.id == nm]
        if not own:
            continue
        if any(isinstance(n, ast.Name) and n.id == nm for n in ast.walk(E)):
            continue
        use_stmts = [idx.stmt_of(u) for u in own]
        if any(u is None for u in use_stmts):
            continue
        so = idx.order[id(S)]
        if any(idx.order[id(u)] <= so for u in use_stmts):
            continue
        # every use must come after the definition in the same block or inside a later sibling of it
        b, i = idx.block_and_index(S)
        if b is None:
            continue
        later_ids = set()
        for later in b[i + 1:]:
            later_ids.add(id(later))
            for m in _own_nodes_of_stmt(later):
                later_ids.add(id(m))
        if not all(id(u) in later_ids for u in own):
            continue
        free = _free_paths(E)
        is_path = _path_text(E) is not None
        pure, has_call = _is_pure(E)
        nxt = b[i + 1] if i + 1 < len(b) else None

        def in_next_stmt_head(u):
            """the use is evaluated as part of the statement right after the definition, before that statement's own body"""
            if nxt is None:
                return False
            if isinstance(nxt, (ast.If, ast.While)):
                return any(u is m for m in ast.walk(nxt.test))
            if isinstance(nxt, (ast.For, ast.AsyncFor)):
                return any(u is m for m in ast.walk(nxt.iter))
            if isinstance(nxt, (ast.Try, ast.With, ast.AsyncWith, ast.ClassDef) + FuncNode):
                return False
            return any(u is m for m in ast.walk(nxt))

        ok = False
        if is_path or (pure and not has_call):
            last = max(idx.order[id(u)] for u in use_stmts)
            bad = False
            for st in idx.stmts:
                o = idx.order[id(st)]
                if so < o <= last and _conflicts(_stored_paths(st), free):
                    # a store in the (last) using statement is fine when the uses are in its value (evaluated first)
                    if o == last and isinstance(st, (ast.Assign, ast.AugAssign, ast.AnnAssign)) and st.value is not None \
                            and all(any(u is m for m in ast.walk(st.value)) for u in own if idx.stmt_of(u) is st):
                        continue
                    bad = True
            # a use inside a loop (not containing the definition) that re-binds a free path on some iteration
            for u in own:
                for lp in idx.loops_of(u):
                    if lp in idx.loops_of(S):
                        continue
                    for m in _own_nodes_of_stmt(lp):
                        if isinstance(m, (ast.stmt, ast.ExceptHandler)) and _conflicts(_stored_paths(m), free):
                            bad = True
            if is_path and "[" in (_path_text(E) or ""):
                # an indexed element of a mutable container: a mutating call on the container between the definition
                # and a use changes what the index denotes
                base = (_path_text(E) or "").split("[")[0]
                for st in idx.stmts:
                    o = idx.order[id(st)]
                    if so < o < last or (o == last and False):
                        for m in [st] + list(_own_nodes_of_stmt(st)):
                            if isinstance(m, ast.Call) and isinstance(m.func, ast.Attribute) and (_path_text(m.func.value) or "") .startswith(base) and m.func.attr in MUTATORS:
                                bad = True
                for lp in idx.loops_of(S):
                    pass
            ok = not bad
        elif pure and has_call:
            ok = all(in_next_stmt_head(u) for u in own)
        elif __import__("re").match(r"^(it|t)__h\d+$", nm):
            ok = False  # a temporary introduced by hoisting a helper call: it is consumed by the helper inliner, not re-inlined
        else:
            # N3: an argument temporary.  Results of state-changing container/future operations keep their name
            # (the rules identify "the element just popped" by that name)
            mut = any(isinstance(n, ast.Call) and isinstance(n.func, ast.Attribute) and n.func.attr in MUTATORS for n in ast.walk(E))
            ok = len(own) == 1 and not nested and not mut and in_next_stmt_head(own[0])
        if not ok:
            continue
        _replace(fn, own, E)
        if not nested:
            _remove_stmt(idx, S)
        return True
    return False


def _pass_inline_setters(fn, cls: Optional[ast.ClassDef]) -> bool:
    """N5"""
    if cls is None:
        return False
    methods = {m.name: m for m in cls.body if isinstance(m, FuncNode)}
    changed = False
    idx = _Index(fn)
    for st in list(idx.stmts):
        if not (isinstance(st, ast.Expr) and isinstance(st.value, ast.Call)):
            continue
        c = st.value
        if not (isinstance(c.func, ast.Attribute) and isinstance(c.func.value, ast.Name) and c.func.value.id == "self" and not c.args and not c.keywords):
            continue
        m = methods.get(c.func.attr)
        if m is None or m is fn or m.decorator_list or len(_params(m)) != 1:
            continue
        body = [s for s in m.body if not (isinstance(s, ast.Expr) and isinstance(s.value, ast.Constant))]
        if not body or len(body) > 4:
            continue
        if not all(isinstance(s, ast.Assign) and len(s.targets) == 1 and isinstance(s.targets[0], ast.Attribute) and isinstance(s.targets[0].value, ast.Name) and s.targets[0].value.id == "self"
                   and (isinstance(s.value, ast.Constant) or (isinstance(s.value, ast.Name) and s.value.id != "self")) for s in body):
            continue
        b, i = idx.block_and_index(st)
        if b is None:
            continue
        new = []
        for s in body:
            s2 = copy.deepcopy(s)
            for x in ast.walk(s2):
                ast.copy_location(x, st)
            new.append(s2)
        b[i:i + 1] = new
        changed = True
        idx = _Index(fn)
    return changed


def normalize_tree(tree: ast.Module, table: Optional[Dict[str, List[str]]] = None) -> ast.Module:
    tree = copy.deepcopy(tree)
    _pass_module_constants(tree)
    _pass_merge_isinstance(tree)
    _pass_keywords(tree, table if table is not None else _param_table([tree]))

    def visit(body, cls, outer):
        for st in body:
            if isinstance(st, FuncNode):
                ctx = _Ctx(tree, cls, outer)
                for _ in range(60):
                    ch = _pass_inline_setters(st, cls)
                    ch = ch or _pass_inline_helpers(st, ctx)
                    ch = ch or _pass_expr_control(st)
                    ch = ch or _pass_walrus(st)
                    ch = ch or _pass_tuple_assign(st)
                    ch = ch or _pass_hoist_for_iter(st, ctx)
                    ch = ch or _pass_filtered_for(st)
                    ch = ch or _pass_eta_expand(st)
                    ch = ch or _pass_len_truth(st)
                    ch = ch or (_pass_ifexp_assign(st) if _wants_ifexp_split(st) else False)
                    ch = ch or _pass_unpack_paths(st)
                    ch = ch or _pass_split_ranges(st)
                    ch |= _pass_store_then_read(st)
                    ch |= _pass_copy_prop(st)
                    if not ch:
                        break
                visit(st.body, cls, outer + [st])
            elif isinstance(st, ast.ClassDef):
                visit(st.body, st, [])
            else:
                for fld in ("body", "orelse", "finalbody"):
                    sub = getattr(st, fld, None)
                    if isinstance(sub, list) and sub and isinstance(sub[0], ast.stmt):
                        visit(sub, cls, outer)
                for h in getattr(st, "handlers", []) or []:
                    visit(h.body, cls, outer)

    visit(tree.body, None, [])
    ast.fix_missing_locations(tree)
    return tree


_MOD_CACHE: Dict[tuple, ast.Module] = {}
_TABLE_CACHE: Dict[tuple, Dict[str, List[str]]] = {}


def normalized(repo: Repo, relpaths, only=None) -> Repo:
    """A copy of ``repo`` whose listed modules are normalised.  Normalised trees are
    cached per module by content digest (a mutant re-normalises only the module it changed)."""
    r = repo
    rels = [rel for rel in sorted(relpaths) if rel in repo.modules]
    tkey = tuple((rel, repo.modules[rel].digest) for rel in rels)
    table = _TABLE_CACHE.get(tkey)
    if table is None:
        table = _param_table([repo.modules[rel].tree for rel in rels])
        if len(_TABLE_CACHE) > 64:
            _TABLE_CACHE.clear()
        _TABLE_CACHE[tkey] = table
    for rel in rels:
        if only is not None and rel not in only:
            continue  # the keyword table is still built from all of ``relpaths``; only the modules a check reads are rewritten
        m = repo.modules[rel]
        key = (repo.root, rel, m.digest, tkey)
        tree = _MOD_CACHE.get(key)
        if tree is None:
            tree = normalize_tree(m.tree, table)
            if len(_MOD_CACHE) > 256:
                _MOD_CACHE.clear()
            _MOD_CACHE[key] = tree
        r = r.with_module(rel, tree=tree)
    return r


# ---------------------------------------------------------------------------
# N6 / N7: private helper inlining (function splitting) and callbacks moved to methods
#
# N6  a call of a *private* helper of the same class / same enclosing function / same module — not one of the
#     functions the rules anchor on by name (PROTECTED) — is replaced by the helper's body:
#       statement call            self._h(a)            -> body            (all returns bare and in tail position)
#       T = self._h(a) / return   T = ... / return ...   -> body, `return e` -> `T = e` / `return e` (returns in tail position)
#       call inside an expression  f(self._h(a))         -> the helper's body as one expression (if/return chain ->
#                                                           conditional expression), else hoisted into a temporary
#     Parameters are substituted when the argument is a constant or a path and the parameter is never re-bound,
#     otherwise bound by an assignment; helper locals that clash with names of the caller are renamed.
# N7  `functools.partial(self._m, a..)` and a bare bound method `self._m` passed as an argument are replaced by a
#     nested function with the method's body (the closure the method was extracted from).

PROTECTED = {
    "_garbage_collect", "_consume_expired", "__put_internal", "_put", "_get", "_init", "_set_timeout", "_format", "_create_future",
    "_value_from_stopiteration", "_wrap_awaitable", "_done_callback", "_return_result", "_fake_ctx_run", "_run_callback",
    "_discard_future_result", "_schedule_next", "_update_next", "_run", "_register_task", "_unregister_task", "_make_current",
    "_clear_current", "_clear_current_hook", "_handle_events", "_null_future", "_convert_header_value",
}

_counter = [0]


def _fresh(prefix):
    _counter[0] += 1
    return "%s__h%d" % (prefix, _counter[0])


def _is_private(name):
    return name.startswith("_") and not (name.startswith("__") and name.endswith("__"))


def _callee_ok(fn) -> bool:
    if not isinstance(fn, FuncNode):
        return False
    decs = [q.dotted(d) for d in fn.decorator_list]
    if any(d not in ("staticmethod",) for d in decs):
        return False
    a = fn.args
    if a.vararg or a.kwarg or a.posonlyargs or a.kwonlyargs:
        return False
    for n in _own_nodes(fn):
        if isinstance(n, (ast.Yield, ast.YieldFrom, ast.Global, ast.Nonlocal)):
            return False
    # not recursive
    for n in ast.walk(fn):
        if isinstance(n, ast.Call) and (q.call_attr(n) == fn.name):
            return False
    return True


def _body_no_doc(fn):
    b = list(fn.body)
    if b and isinstance(b[0], ast.Expr) and isinstance(b[0].value, ast.Constant) and isinstance(b[0].value.value, str):
        b = b[1:]
    return b


def _returns(stmts):
    out = []
    for st in stmts:
        for n in [st] + list(_own_nodes_of_stmt(st)):
            if isinstance(n, ast.Return):
                out.append(n)
    return out


def _tail_returns_only(stmts) -> bool:
    """Every return is in tail position of the statement list (possibly inside if/else chains in tail position)."""
    rets = _returns(stmts)
    if not rets:
        return True
    ok_ids = set()

    def mark(block):
        if not block:
            return
        last = block[-1]
        if isinstance(last, ast.Return):
            ok_ids.add(id(last))
        elif isinstance(last, ast.If):
            mark(last.body)
            mark(last.orelse)

    mark(stmts)
    # an `if c: return a` followed by more statements is also structured: rewrite as if/else first
    return all(id(r) in ok_ids for r in rets)


def _structure_early_returns(stmts):
    """[if c: ...; return a] rest  ->  [if c: ...; return a  else: rest]   (when the if-body always returns)"""
    out = list(stmts)
    i = 0
    while i < len(out):
        st = out[i]
        if isinstance(st, ast.If):
            st.body = _structure_early_returns(st.body)
            st.orelse = _structure_early_returns(st.orelse)
            if _always_returns(st.body) and not st.orelse and i + 1 < len(out):
                st.orelse = _structure_early_returns(out[i + 1:])
                out = out[:i + 1]
                break
            if st.orelse and _always_returns(st.orelse) and not _always_returns(st.body) and i + 1 < len(out):
                st.body = st.body + _structure_early_returns(copy.deepcopy(out[i + 1:])) if False else st.body
        i += 1
    return out


def _always_returns(block) -> bool:
    if not block:
        return False
    last = block[-1]
    if isinstance(last, (ast.Return, ast.Raise)):
        return True
    if isinstance(last, ast.If):
        return _always_returns(last.body) and _always_returns(last.orelse)
    return False


def _as_expression(stmts) -> Optional[ast.AST]:
    """The statement list as a single expression, if it is an if/return chain."""
    if len(stmts) == 1 and isinstance(stmts[0], ast.Return) and stmts[0].value is not None:
        return stmts[0].value
    if len(stmts) == 1 and isinstance(stmts[0], ast.If):
        a = _as_expression(stmts[0].body)
        b = _as_expression(stmts[0].orelse)
        if a is not None and b is not None:
            return ast.IfExp(test=stmts[0].test, body=a, orelse=b)
    return None


class _Subst(ast.NodeTransformer):
    def __init__(self, names: Dict[str, ast.AST], rename: Dict[str, str]):
        self.names = names
        self.rename = rename

    def visit_Name(self, node):
        if node.id in self.names and isinstance(node.ctx, ast.Load):
            return copy.deepcopy(self.names[node.id])
        if node.id in self.rename:
            return ast.copy_location(ast.Name(id=self.rename[node.id], ctx=node.ctx), node)
        return node

    def visit_arg(self, node):
        return node


def _bind(callee, call: ast.Call, drop_self: bool, caller_names: Set[str], pre_bound: Optional[List[ast.AST]] = None, keep: Optional[Set[str]] = None):
    """-> (prefix statements, substituted body) or None"""
    params = [a.arg for a in callee.args.args]
    if drop_self:
        if not params:
            return None
        params = params[1:]
    defaults = callee.args.defaults
    dmap = {}
    all_params = [a.arg for a in callee.args.args]
    for p, d in zip(reversed(all_params), reversed(defaults)):
        dmap[p] = d
    args = list(pre_bound or []) + list(call.args)
    if any(isinstance(a, ast.Starred) for a in args) or any(k.arg is None for k in call.keywords):
        return None
    if len(args) > len(params):
        return None
    amap: Dict[str, ast.AST] = {}
    for p, a in zip(params, args):
        amap[p] = a
    for k in call.keywords:
        if k.arg not in params or k.arg in amap:
            return None
        amap[k.arg] = k.value
    for p in params:
        if p not in amap:
            if p in dmap:
                amap[p] = dmap[p]
            else:
                return None
    body = copy.deepcopy(_body_no_doc(callee))
    stored = set()
    for st in body:
        for n in [st] + list(_own_nodes_of_stmt(st)):
            if isinstance(n, (ast.stmt, ast.ExceptHandler)):
                stored |= {p for p in _stored_paths(n) if p.isidentifier()}
            if isinstance(n, ast.comprehension):
                stored |= {t.id for t in ast.walk(n.target) if isinstance(t, ast.Name)}
    subst: Dict[str, ast.AST] = {}
    rename: Dict[str, str] = {}
    prefix: List[ast.stmt] = []
    for p in params:
        a = amap[p]
        uses = sum(1 for st in body for n in ast.walk(st) if isinstance(n, ast.Name) and n.id == p and isinstance(n.ctx, ast.Load))
        simple = isinstance(a, ast.Constant) or (_path_text(a) is not None and _path_text(a).split(".")[0].split("[")[0] not in stored)
        if p not in stored and (simple or uses <= 1 and _is_pure(a)[0]):
            subst[p] = a
        else:
            new = _fresh(p)
            rename[p] = new
            prefix.append(ast.Assign(targets=[ast.Name(id=new, ctx=ast.Store())], value=copy.deepcopy(a)))
    for nm in stored:
        if nm in params:
            continue
        if nm in caller_names and nm not in (keep or ()):
            rename[nm] = _fresh(nm)
    tr = _Subst(subst, rename)
    body = [tr.visit(st) for st in body]
    return prefix, body


def _caller_names(fn) -> Set[str]:
    out = set(_params(fn))
    for n in _own_nodes(fn):
        if isinstance(n, ast.Name):
            out.add(n.id)
    return out


def _replace_returns(stmts, make):
    """Replace tail-position returns by make(value) statements (in place)."""
    if not stmts:
        return
    last = stmts[-1]
    if isinstance(last, ast.Return):
        stmts[-1:] = make(last.value)
    elif isinstance(last, ast.If):
        _replace_returns(last.body, make)
        if last.orelse:
            _replace_returns(last.orelse, make)
        else:
            last.orelse = make(None)


def _loc(stmts, at):
    for st in stmts:
        for x in ast.walk(st):
            ast.copy_location(x, at)
    return stmts


class _Ctx:
    def __init__(self, module: ast.Module, cls: Optional[ast.ClassDef], outer: List[ast.AST]):
        self.module = module
        self.cls = cls
        self.outer = outer  # enclosing functions, innermost last

    def resolve_generator(self, func_expr, in_fn):
        """A private generator function (module level or method): its `yield v` statements will be read as `return v`."""
        cands = []
        if isinstance(func_expr, ast.Name) and _is_private(func_expr.id) and func_expr.id not in PROTECTED:
            cands = [(n, False) for n in self.module.body if isinstance(n, FuncNode) and n.name == func_expr.id]
        elif isinstance(func_expr, ast.Attribute) and isinstance(func_expr.value, ast.Name) and func_expr.value.id == "self" and self.cls is not None and _is_private(func_expr.attr) and func_expr.attr not in PROTECTED:
            cands = [(m, True) for m in self.cls.body if isinstance(m, FuncNode) and m.name == func_expr.attr]
        for g, ds in cands:
            if isinstance(g, ast.AsyncFunctionDef) or g.decorator_list or g.args.vararg or g.args.kwarg or g.args.kwonlyargs:
                continue
            ys = [n for n in _own_nodes(g) if isinstance(n, (ast.Yield, ast.YieldFrom))]
            stmts = [n for n in _own_nodes(g) if isinstance(n, ast.Expr) and isinstance(n.value, ast.Yield)]
            if ys and len(ys) == len(stmts) and not _returns(g.body) and not any(isinstance(y, ast.YieldFrom) for y in ys):
                return g, ds
        return None, False

    def resolve(self, func_expr, in_fn) -> Tuple[Optional[ast.AST], bool]:
        """(callee def, drop_self)"""
        if isinstance(func_expr, ast.Attribute) and isinstance(func_expr.value, ast.Name) and func_expr.value.id == "self" and self.cls is not None:
            nm = func_expr.attr
            if not _is_private(nm) or nm in PROTECTED:
                return None, False
            for m in self.cls.body:
                if isinstance(m, FuncNode) and m.name == nm and m is not in_fn and _callee_ok(m):
                    static = any(q.dotted(d) == "staticmethod" for d in m.decorator_list)
                    return m, not static
            return None, False
        if isinstance(func_expr, ast.Name):
            nm = func_expr.id
            if nm in PROTECTED:
                return None, False
            # nested def of an enclosing function (any name), defined in its own scope
            for f in reversed(self.outer + [in_fn]):
                for n in _own_nodes(f):
                    if isinstance(n, FuncNode) and n.name == nm and n is not in_fn and _callee_ok(n):
                        return n, False
            if _is_private(nm):
                for n in self.module.body:
                    if isinstance(n, FuncNode) and n.name == nm and n is not in_fn and _callee_ok(n):
                        return n, False
        return None, False


def _pass_inline_helpers(fn, ctx: "_Ctx") -> bool:
    idx = _Index(fn)
    names = None
    for st in list(idx.stmts):
        if isinstance(st, ast.ExceptHandler) or isinstance(st, FuncNode + (ast.ClassDef,)):
            continue
        b, i = idx.block_and_index(st)
        if b is None:
            continue
        # ---- statement call / awaited statement call
        call = None
        mode = None
        if isinstance(st, ast.Expr):
            v = st.value.value if isinstance(st.value, ast.Await) else st.value
            if isinstance(v, ast.Call):
                call, mode = v, "S"
        elif isinstance(st, (ast.Assign, ast.AnnAssign)) and getattr(st, "value", None) is not None:
            v = st.value.value if isinstance(st.value, ast.Await) else st.value
            single = (isinstance(st, ast.Assign) and len(st.targets) == 1) or isinstance(st, ast.AnnAssign)
            if isinstance(v, ast.Call) and single:
                call, mode = v, "A"
        elif isinstance(st, ast.Return) and st.value is not None:
            v = st.value.value if isinstance(st.value, ast.Await) else st.value
            if isinstance(v, ast.Call):
                call, mode = v, "R"
        gen_default = None
        if call is not None and isinstance(call.func, ast.Name) and call.func.id == "next" and len(call.args) == 2 and isinstance(call.args[0], ast.Call) and not call.keywords:
            # next(G(args), default) on a fresh private generator: run G up to its first `yield v` (-> v), else default
            inner = call.args[0]
            g, ds = ctx.resolve_generator(inner.func, fn)
            if g is not None:
                gen_default = call.args[1]
                call = inner
                callee, drop_self = _degenerate(g, gen_default), ds
            else:
                callee, drop_self = None, False
        elif call is not None:
            callee, drop_self = ctx.resolve(call.func, fn)
        if call is not None:
            if callee is not None and (isinstance(callee, ast.AsyncFunctionDef) == isinstance(getattr(st, "value", None), ast.Await)):
                names = names or _caller_names(fn)
                keep = set()
                if mode == "A":
                    tg0 = st.targets[0] if isinstance(st, ast.Assign) else st.target
                    if isinstance(tg0, ast.Name) and not any(isinstance(x, ast.Name) and x.id == tg0.id for a_ in list(call.args) + [k.value for k in call.keywords] for x in ast.walk(a_)):
                        keep = {tg0.id}
                bound = _bind(callee, call, drop_self, names, keep=keep)
                if bound is not None:
                    prefix, body = bound
                    body = _structure_early_returns(body)
                    if mode == "A" and not _tail_returns_only(body) and _loop_return_inline(b, i, st, prefix, body):
                        return True
                    if _tail_returns_only(body):
                        rets = _returns(body)
                        if mode == "S" and all(r.value is None or q.is_const(r.value, None) for r in rets):
                            _replace_returns(body, lambda v: [ast.Pass()])
                            b[i:i + 1] = _loc(prefix + (body or [ast.Pass()]), st)
                            return True
                        if mode == "A":
                            tgt = st.targets[0] if isinstance(st, ast.Assign) else st.target
                            _replace_returns(body, lambda v, tgt=tgt: [ast.Assign(targets=[copy.deepcopy(tgt)], value=v if v is not None else ast.Constant(value=None))])
                            if not _always_assigns(body):
                                body.append(ast.Assign(targets=[copy.deepcopy(tgt)], value=ast.Constant(value=None))) if not body or not isinstance(body[-1], (ast.If, ast.Assign)) else None
                            b[i:i + 1] = _loc(prefix + body, st)
                            return True
                        if mode == "R":
                            if not _always_returns(body):
                                body.append(ast.Return(value=None))
                            b[i:i + 1] = _loc(prefix + body, st)
                            return True
        # ---- helper call nested inside a simple statement's expression: expression form, else hoist
        if isinstance(st, (ast.Expr, ast.Assign, ast.AnnAssign, ast.AugAssign, ast.Return)):
            root = st.value if not isinstance(st, ast.Expr) else st.value
            if root is None:
                continue
            found = None
            parents = {}
            for n in ast.walk(root):
                for c in ast.iter_child_nodes(n):
                    parents[id(c)] = n
            for n in ast.walk(root):
                if isinstance(n, ast.Call) and n is not root and not (isinstance(root, ast.Await) and n is root.value):
                    callee, drop_self = ctx.resolve(n.func, fn)
                    if callee is None or isinstance(callee, ast.AsyncFunctionDef):
                        continue
                    # not under conditional evaluation / another scope
                    p = parents.get(id(n))
                    cond = False
                    while p is not None:
                        if isinstance(p, (ast.Lambda, ast.IfExp, ast.BoolOp, ast.ListComp, ast.SetComp, ast.DictComp, ast.GeneratorExp)):
                            cond = True
                        p = parents.get(id(p))
                    if cond:
                        continue
                    found = (n, callee, drop_self)
                    break
            if found is not None:
                n, callee, drop_self = found
                names = names or _caller_names(fn)
                bound = _bind(callee, n, drop_self, names)
                if bound is not None:
                    prefix, body = bound
                    body = _structure_early_returns(body)
                    e = _as_expression(body) if not prefix else None
                    if e is not None:
                        _swap_node(st, n, e)
                        return True
                    tmp = _fresh("t")
                    new_assign = ast.Assign(targets=[ast.Name(id=tmp, ctx=ast.Store())], value=n)
                    _swap_node(st, n, ast.Name(id=tmp, ctx=ast.Load()))
                    b[i:i] = _loc([new_assign], st)
                    return True
        # ---- N7: callbacks moved to methods
        for n in list(_own_nodes_of_stmt(st)) if not isinstance(st, (ast.If, ast.While, ast.For, ast.Try, ast.With)) else []:
            target = None
            pre = []
            if isinstance(n, ast.Call) and q.dotted(n.func) in ("functools.partial", "partial") and n.args and not n.keywords:
                target, pre = n.args[0], list(n.args[1:])
                site = n
            elif isinstance(n, ast.Call):
                hit = None
                for a in n.args:
                    if isinstance(a, ast.Attribute) and isinstance(a.value, ast.Name) and a.value.id == "self" and q.dotted(n.func) not in ("functools.partial", "partial"):
                        hit = a
                if hit is None:
                    continue
                target, pre, site = hit, [], hit
            else:
                continue
            is_method = isinstance(target, ast.Attribute) and isinstance(target.value, ast.Name) and target.value.id == "self"
            is_func = isinstance(target, ast.Name) and isinstance(n, ast.Call) and q.dotted(n.func) in ("functools.partial", "partial")
            if not (is_method or is_func):
                continue
            callee, drop_self = ctx.resolve(target, fn)
            if callee is None or isinstance(callee, ast.AsyncFunctionDef) or (is_method and not drop_self):
                continue
            if is_func and any(callee is x for x in _own_nodes(fn)):
                continue  # partial of a local closure: leave
            params = [a.arg for a in callee.args.args][1 if drop_self else 0:]
            if len(pre) > len(params) or any(isinstance(a, ast.Starred) for a in pre):
                continue
            names = names or _caller_names(fn)
            fake = ast.Call(func=target, args=[ast.Name(id=p, ctx=ast.Load()) for p in params[len(pre):]], keywords=[])
            bound = _bind(callee, fake, drop_self, names - set(params[len(pre):]), pre_bound=pre)
            if bound is None:
                continue
            prefix, body = bound
            cbname = _fresh(callee.name.lstrip("_") or "cb")
            rest = copy.deepcopy(callee.args)
            rest.args = rest.args[(1 if drop_self else 0) + len(pre):]
            rest.defaults = rest.defaults[-len(rest.args):] if rest.args and rest.defaults else []
            newdef = ast.FunctionDef(name=cbname, args=rest, body=(prefix + body) or [ast.Pass()], decorator_list=[], returns=None, type_comment=None, type_params=[])
            _swap_node(st, site, ast.Name(id=cbname, ctx=ast.Load()))
            b[i:i] = _loc([newdef], st)
            return True
    return False


def _always_assigns(body) -> bool:
    if not body:
        return False
    last = body[-1]
    if isinstance(last, ast.Assign):
        return True
    if isinstance(last, ast.If):
        return _always_assigns(last.body) and _always_assigns(last.orelse)
    if isinstance(last, ast.Raise):
        return True
    return False


def _swap_node(root_stmt, old, new):
    class T(ast.NodeTransformer):
        def generic_visit(self, node):
            for fld, val in ast.iter_fields(node):
                if isinstance(val, list):
                    for k, x in enumerate(val):
                        if x is old:
                            val[k] = ast.copy_location(new, old)
                        elif isinstance(x, ast.AST):
                            self.generic_visit(x)
                elif val is old:
                    setattr(node, fld, ast.copy_location(new, old))
                elif isinstance(val, ast.AST):
                    self.generic_visit(val)
            return node
    T().generic_visit(root_stmt)
    for x in ast.walk(new):
        ast.copy_location(x, old)


def _has_loop_jump(stmts) -> bool:
    """break/continue that would bind to an enclosing loop (not inside a loop of their own)."""
    for st in stmts:
        if isinstance(st, (ast.Break, ast.Continue)):
            return True
        if isinstance(st, LOOPS + FuncNode + (ast.ClassDef,)):
            continue
        for fld in ("body", "orelse", "finalbody"):
            sub = getattr(st, fld, None)
            if isinstance(sub, list) and sub and isinstance(sub[0], ast.stmt) and _has_loop_jump(sub):
                return True
        for h in getattr(st, "handlers", []) or []:
            if _has_loop_jump(h.body):
                return True
    return False


def _loop_tail_returns(block, rets_ok):
    """Collect the returns that are the last statement executed of one loop iteration."""
    if not block:
        return
    last = block[-1]
    if isinstance(last, ast.Return):
        rets_ok.add(id(last))
    elif isinstance(last, ast.If):
        _loop_tail_returns(last.body, rets_ok)
        _loop_tail_returns(last.orelse, rets_ok)


def _loop_return_inline(b, i, st, prefix, body) -> bool:
    """F4:   T = h()            h:  PRE; while C: BODY (with `return v` ending an iteration); [return None]
             if <test on T>: A [else: B]
       ->    PRE
             while C:  BODY[`return v` -> T = v; if <test on T>: A else: B; break]
             else:     T = None; if <test on T>: A else: B
    (exactly the same executions: a `return v` leaves the helper with T = v, falling out of the loop leaves it with None)."""
    tg = st.targets[0] if isinstance(st, ast.Assign) else st.target
    if not isinstance(tg, ast.Name) or i + 1 >= len(b) or not isinstance(b[i + 1], ast.If):
        return False
    nxt = b[i + 1]
    if not any(isinstance(x, ast.Name) and x.id == tg.id for x in ast.walk(nxt.test)):
        return False
    if _has_loop_jump(nxt.body) or _has_loop_jump(nxt.orelse):
        return False
    stmts = list(body)
    if stmts and isinstance(stmts[-1], ast.Return) and (stmts[-1].value is None or q.is_const(stmts[-1].value, None)):
        stmts = stmts[:-1]
    elif stmts and isinstance(stmts[-1], ast.Return):
        return False
    if not stmts or not isinstance(stmts[-1], ast.While) or stmts[-1].orelse:
        return False
    loop = stmts[-1]
    pre = stmts[:-1]
    if _returns(pre):
        return False
    ok_ids = set()
    _loop_tail_returns(loop.body, ok_ids)
    rets = _returns(loop.body)
    if not rets or not all(id(r) in ok_ids for r in rets):
        return False
    # no inner loops containing returns (break would leave the wrong loop)
    for n in _own_nodes_of_stmt(loop):
        if isinstance(n, LOOPS) and _returns([n]):
            return False

    def cont(v):
        out = []
        if not (isinstance(v, ast.Name) and v.id == tg.id):
            out.append(ast.Assign(targets=[ast.Name(id=tg.id, ctx=ast.Store())], value=v if v is not None else ast.Constant(value=None)))
        out.append(copy.deepcopy(nxt))
        out.append(ast.Break())
        return out

    def rewrite(block):
        last = block[-1]
        if isinstance(last, ast.Return):
            block[-1:] = cont(last.value)
        elif isinstance(last, ast.If):
            rewrite(last.body)
            if last.orelse:
                rewrite(last.orelse)

    def walk(block):
        if block and (isinstance(block[-1], ast.Return) or (isinstance(block[-1], ast.If) and _returns([block[-1]]))):
            rewrite(block)

    walk(loop.body)
    # falling out of the loop: T is None, so a simple test on T is decided here
    dec = _decide_with_none(nxt.test, tg.id)
    tail = copy.deepcopy(nxt.body if dec else nxt.orelse) if dec is not None else [copy.deepcopy(nxt)]
    loop.orelse = [ast.Assign(targets=[ast.Name(id=tg.id, ctx=ast.Store())], value=ast.Constant(value=None))] + tail
    b[i:i + 2] = _loc(prefix + pre + [loop], st)
    return True


def _decide_with_none(test, name) -> Optional[bool]:
    """Truth of ``test`` when the local ``name`` is None, for the simple shapes `x is None`, `x is not None`, `x`, `not x`."""
    if isinstance(test, ast.UnaryOp) and isinstance(test.op, ast.Not):
        r = _decide_with_none(test.operand, name)
        return None if r is None else not r
    if isinstance(test, ast.Name) and test.id == name:
        return False
    if isinstance(test, ast.Compare) and len(test.ops) == 1 and isinstance(test.left, ast.Name) and test.left.id == name and isinstance(test.comparators[0], ast.Constant) and test.comparators[0].value is None:
        if isinstance(test.ops[0], ast.Is):
            return True
        if isinstance(test.ops[0], ast.IsNot):
            return False
    return None


def _degenerate(g, default):
    """Copy of generator function ``g`` with `yield v` statements turned into `return v` and a final `return default`:
    what `next(g(...), default)` computes on a fresh generator."""
    g2 = copy.deepcopy(g)

    class T(ast.NodeTransformer):
        def visit_Expr(self, node):
            if isinstance(node.value, ast.Yield):
                return ast.copy_location(ast.Return(value=node.value.value), node)
            return node

        def visit_FunctionDef(self, node):
            return node if node is not g2 else self.generic_visit(node)

        visit_AsyncFunctionDef = visit_FunctionDef

        def visit_Lambda(self, node):
            return node

    g2.body = [T().visit(st) for st in g2.body]
    g2.body.append(ast.Return(value=copy.deepcopy(default)))
    ast.fix_missing_locations(g2)
    return g2


CALLBACK_TAKERS = {"add_done_callback"}


def _pass_eta_expand(fn) -> bool:
    """`F.add_done_callback(P.m)` with a bound method of some object (not a private method of self, which N7 handles)
    ->  `F.add_done_callback(lambda _x: P.m(_x))`: a done-callback receives exactly the future."""
    changed = False
    for n in list(_own_nodes(fn)):
        if isinstance(n, ast.Call) and isinstance(n.func, ast.Attribute) and n.func.attr in CALLBACK_TAKERS and len(n.args) == 1 and not n.keywords:
            a = n.args[0]
            if isinstance(a, ast.Attribute) and _path_text(a.value) is not None and not (isinstance(a.value, ast.Name) and a.value.id == "self"):
                arg = _fresh("x")
                lam = ast.Lambda(args=ast.arguments(posonlyargs=[], args=[ast.arg(arg=arg)], kwonlyargs=[], kw_defaults=[], defaults=[]),
                                 body=ast.Call(func=a, args=[ast.Name(id=arg, ctx=ast.Load())], keywords=[]))
                for x in ast.walk(lam):
                    ast.copy_location(x, a)
                n.args[0] = lam
                changed = True
    return changed


def _pass_unpack_paths(fn) -> bool:
    """N10: `a, b = P[i]` (P[i] a side-effect-free path, all targets plain names or `_`)  ->  `a = P[i][0]; b = P[i][1]`."""
    changed = False
    idx = _Index(fn)
    for st in list(idx.stmts):
        if isinstance(st, ast.Assign) and len(st.targets) == 1 and isinstance(st.targets[0], ast.Tuple) and _path_text(st.value) is not None \
                and isinstance(st.value, ast.Subscript) and all(isinstance(e, ast.Name) for e in st.targets[0].elts):
            b, i = idx.block_and_index(st)
            if b is None:
                continue
            new = []
            for k, e in enumerate(st.targets[0].elts):
                if e.id == "_":
                    continue
                new.append(ast.Assign(targets=[ast.Name(id=e.id, ctx=ast.Store())], value=ast.Subscript(value=copy.deepcopy(st.value), slice=ast.Constant(value=k), ctx=ast.Load())))
            b[i:i + 1] = _loc(new or [ast.Pass()], st)
            changed = True
            idx = _Index(fn)
    return changed


def _pass_split_ranges(fn) -> bool:
    """N9: a local re-bound in straight-line code of one block (`x = P; ...; x -= 1; P = x`) is split into one name per
    definition, so that each is a single-store local the other passes can resolve."""
    idx = _Index(fn)
    params = _params(fn)
    stores: Dict[str, List[ast.AST]] = {}
    for st in idx.stmts:
        for p in _stored_paths(st):
            if p.isidentifier():
                stores.setdefault(p, []).append(st)
    nested_names = {n.id for sc in _nested_scopes(fn) for n in ast.walk(sc) if isinstance(n, ast.Name)}
    for x, sts in stores.items():
        if len(sts) < 2 or x in params or x in nested_names or x in ("self", "cls", "_"):
            continue
        if not all(isinstance(st, (ast.Assign, ast.AnnAssign, ast.AugAssign)) for st in sts):
            continue
        if not all((isinstance(st, ast.Assign) and len(st.targets) == 1 and isinstance(st.targets[0], ast.Name)) or (isinstance(st, (ast.AnnAssign, ast.AugAssign)) and isinstance(st.target, ast.Name)) for st in sts):
            continue
        b0, i0 = idx.block_and_index(sts[0])
        if b0 is None or any(idx.block_and_index(st)[0] is not b0 for st in sts):
            continue
        if idx.loops_of(sts[0]):
            continue  # a loop body re-enters: the ranges are not straight-line
        pos = sorted(idx.block_and_index(st)[1] for st in sts)
        # every read of x lies in the block from the first definition on
        inside = set()
        for later in b0[pos[0]:]:
            inside.add(id(later))
            for m in _own_nodes_of_stmt(later):
                inside.add(id(m))
        loads = _loads(fn, x)
        if not all(id(u) in inside for u in loads) or (isinstance(b0[pos[0]], ast.AugAssign)):
            continue
        # rename
        cur = None
        for j in range(pos[0], len(b0)):
            st = b0[j]
            is_def = j in pos
            reads = [m for m in ([st] + list(_own_nodes_of_stmt(st))) if isinstance(m, ast.Name) and m.id == x and isinstance(m.ctx, ast.Load)]
            if is_def:
                new = _fresh(x)
                if isinstance(st, ast.AugAssign):
                    val = ast.BinOp(left=ast.Name(id=cur, ctx=ast.Load()), op=st.op, right=st.value)
                    for r in [m for m in ast.walk(st.value) if isinstance(m, ast.Name) and m.id == x]:
                        r.id = cur
                    b0[j] = _loc([ast.Assign(targets=[ast.Name(id=new, ctx=ast.Store())], value=val)], st)[0]
                else:
                    for r in reads:
                        r.id = cur if cur is not None else r.id
                    tgt = st.targets[0] if isinstance(st, ast.Assign) else st.target
                    tgt.id = new
                cur = new
            else:
                for r in reads:
                    r.id = cur
        return True
    return False


# ---------------------------------------------------------------------------
# N11: `len(P) > 0` style emptiness tests in truth contexts -> truthiness of P
# N12: keyword arguments of calls to known callees -> positional order
# N13: names of module-level literal constants -> the literal


def _len_truth(e):
    """(path expr, polarity) if ``e`` is an emptiness comparison of len(path) with 0/1; else None."""
    if not (isinstance(e, ast.Compare) and len(e.ops) == 1):
        return None
    l, op, r = e.left, e.ops[0], e.comparators[0]

    def is_len(x):
        return isinstance(x, ast.Call) and isinstance(x.func, ast.Name) and x.func.id == "len" and len(x.args) == 1 and not x.keywords and _path_text(x.args[0]) is not None

    def num(x):
        return x.value if isinstance(x, ast.Constant) and type(x.value) is int else None

    if is_len(l) and num(r) is not None:
        k = num(r)
        table = {(ast.Gt, 0): True, (ast.NotEq, 0): True, (ast.GtE, 1): True, (ast.Eq, 0): False, (ast.LtE, 0): False, (ast.Lt, 1): False}
        pol = table.get((type(op), k))
        return None if pol is None else (l.args[0], pol)
    if is_len(r) and num(l) is not None:
        k = num(l)
        table = {(ast.Lt, 0): True, (ast.NotEq, 0): True, (ast.LtE, 1): True, (ast.Eq, 0): False, (ast.GtE, 0): False, (ast.Gt, 1): False}
        pol = table.get((type(op), k))
        return None if pol is None else (r.args[0], pol)
    return None


def _pass_len_truth(fn) -> bool:
    changed = False

    def fix(e):
        nonlocal changed
        if isinstance(e, ast.BoolOp):
            e.values = [fix(v) for v in e.values]
            return e
        if isinstance(e, ast.UnaryOp) and isinstance(e.op, ast.Not):
            e.operand = fix(e.operand)
            return e
        lt = _len_truth(e)
        if lt is not None:
            changed = True
            p, pol = lt
            new = copy.deepcopy(p)
            for x in ast.walk(new):
                ast.copy_location(x, e)
            return new if pol else ast.copy_location(ast.UnaryOp(op=ast.Not(), operand=new), e)
        if isinstance(e, ast.Call) and isinstance(e.func, ast.Name) and e.func.id == "len" and len(e.args) == 1 and _path_text(e.args[0]) is not None and not e.keywords:
            # bare len(P) used as a truth value
            changed = True
            new = copy.deepcopy(e.args[0])
            for x in ast.walk(new):
                ast.copy_location(x, e)
            return new
        return e

    for n in list(_own_nodes(fn)):
        if isinstance(n, (ast.If, ast.While, ast.IfExp, ast.Assert)):
            n.test = fix(n.test)
    return changed


_STD_PARAMS = {
    "set_result": ["result"], "set_exception": ["exception"], "add_done_callback": ["fn"], "remove_timeout": ["timeout"],
    "call_soon": ["callback"], "call_soon_threadsafe": ["callback"], "call_later": ["delay", "callback"],
}


def _param_table(trees) -> Dict[str, List[str]]:
    seen: Dict[str, List[List[str]]] = {}
    for t in trees:
        for n in ast.walk(t):
            if isinstance(n, FuncNode) and not n.args.posonlyargs:
                ps = [a.arg for a in n.args.args]
                if ps and ps[0] in ("self", "cls"):
                    ps = ps[1:]
                seen.setdefault(n.name, []).append(ps)
    out = dict(_STD_PARAMS)
    for nm, variants in seen.items():
        if all(v == variants[0] for v in variants):
            out[nm] = variants[0]
    return out


def _pass_keywords(tree, table) -> bool:
    changed = False
    for c in ast.walk(tree):
        if not (isinstance(c, ast.Call) and c.keywords) or any(k.arg is None for k in c.keywords) or any(isinstance(a, ast.Starred) for a in c.args):
            continue
        nm = q.call_attr(c)
        ps = table.get(nm)
        if not ps:
            continue
        # partial(f, ...) etc. are not in the table by construction; only fill a gap-free positional prefix
        kw = {k.arg: k.value for k in c.keywords}
        if not set(kw) <= set(ps):
            continue
        n0 = len(c.args)
        want = ps[n0:n0 + len(kw)]
        if set(want) != set(kw):
            continue
        c.args = list(c.args) + [kw[p_] for p_ in want]
        c.keywords = []
        changed = True
    return changed


def _pass_module_constants(tree) -> bool:
    """Private module-level names bound exactly once to a number literal and never re-bound are replaced by the literal."""
    consts = {}
    counts: Dict[str, int] = {}
    for st in tree.body:
        for p in _stored_paths(st):
            counts[p] = counts.get(p, 0) + 1
        if isinstance(st, (ast.Assign, ast.AnnAssign)) and getattr(st, "value", None) is not None:
            tg = st.targets[0] if isinstance(st, ast.Assign) and len(st.targets) == 1 else (st.target if isinstance(st, ast.AnnAssign) else None)
            if isinstance(tg, ast.Name) and tg.id.startswith("_") and isinstance(st.value, ast.Constant) and type(st.value.value) in (int, float) :
                consts[tg.id] = st.value
    for n in ast.walk(tree):
        if isinstance(n, (ast.Global,)):
            for nm in n.names:
                consts.pop(nm, None)
    consts = {k: v for k, v in consts.items() if counts.get(k) == 1}
    if not consts:
        return False
    changed = False

    class T(ast.NodeTransformer):
        def visit_Name(self, node):
            nonlocal changed
            if isinstance(node.ctx, ast.Load) and node.id in consts:
                changed = True
                return ast.copy_location(ast.Constant(value=consts[node.id].value), node)
            return node

    # do not touch functions that bind the same name locally
    for fn in [n for n in ast.walk(tree) if isinstance(n, FuncNode)]:
        local = set(_params(fn)) | {p for st in _own_nodes(fn) if isinstance(st, (ast.stmt, ast.ExceptHandler)) for p in _stored_paths(st) if p.isidentifier()}
        if local & set(consts):
            continue
        for i, st in enumerate(fn.body):
            fn.body[i] = T().visit(st)
        fn.args.defaults = [T().visit(d) for d in fn.args.defaults]
    return changed


def _pass_merge_isinstance(tree) -> bool:
    """N14: `isinstance(x, A) or isinstance(x, B)`  ->  `isinstance(x, (A, B))` (same first argument, adjacent operands)."""
    changed = False
    for n in ast.walk(tree):
        if isinstance(n, ast.BoolOp) and isinstance(n.op, ast.Or):
            vals = []
            for v in n.values:
                def isi(e):
                    return isinstance(e, ast.Call) and isinstance(e.func, ast.Name) and e.func.id == "isinstance" and len(e.args) == 2 and not e.keywords and _path_text(e.args[0]) is not None
                if vals and isi(v) and isi(vals[-1]) and _path_text(v.args[0]) == _path_text(vals[-1].args[0]):
                    prev = vals[-1]
                    a = list(prev.args[1].elts) if isinstance(prev.args[1], ast.Tuple) else [prev.args[1]]
                    b = list(v.args[1].elts) if isinstance(v.args[1], ast.Tuple) else [v.args[1]]
                    prev.args[1] = ast.copy_location(ast.Tuple(elts=a + b, ctx=ast.Load()), prev.args[1])
                    changed = True
                else:
                    vals.append(v)
            if len(vals) != len(n.values):
                n.values = vals if len(vals) > 1 else vals + [ast.copy_location(ast.Constant(value=False), n)]
    return changed


def _pass_ifexp_assign(fn) -> bool:
    """N15: `T = A if c else B` (statement level)  ->  `if c: T = A  else: T = B`."""
    idx = _Index(fn)
    for st in list(idx.stmts):
        if isinstance(st, ast.Assign) and isinstance(st.value, ast.IfExp) and len(st.targets) == 1 and isinstance(st.targets[0], (ast.Name, ast.Attribute)) \
                and isinstance(st.value.body, ast.Attribute) and isinstance(st.value.orelse, ast.Attribute):
            b, i = idx.block_and_index(st)
            if b is None:
                continue
            v = st.value
            new = ast.If(test=v.test, body=[ast.Assign(targets=[copy.deepcopy(st.targets[0])], value=v.body)], orelse=[ast.Assign(targets=[copy.deepcopy(st.targets[0])], value=v.orelse)])
            b[i:i + 1] = _loc([new], st)
            return True
    return False


def _wants_ifexp_split(fn) -> bool:
    """Only split conditional assignments that choose between callables/attributes of self (scheduler selection and the
    like); value-level conditionals (`x = a if c else b` feeding an argument) are better left as expressions."""
    for st in _own_nodes(fn):
        if isinstance(st, ast.Assign) and isinstance(st.value, ast.IfExp) and isinstance(st.value.body, ast.Attribute) and isinstance(st.value.orelse, ast.Attribute):
            return True
    return False


# ---------------------------------------------------------------------------
# N16: expression statements that are control flow (`A if c else B`, `c and f()`, `c or f()`) -> if statements
# N17: walrus in the leading position of an if-test -> assignment before the if; walrus of a path in a while-test ->
#      assignment before the loop (the path is not re-bound inside the loop)
# N18: `a, b = X, Y` -> `a = X; b = Y` when no later value mentions an earlier target
# N19: a helper call used as the iterable of a for loop is bound to a temporary first (evaluated once)


def _pass_expr_control(fn) -> bool:
    idx = _Index(fn)
    for st in list(idx.stmts):
        if isinstance(st, ast.Return) and isinstance(st.value, ast.IfExp):
            # N21: `return A if c else B` -> `if c: return A  else: return B`
            b, i = idx.block_and_index(st)
            if b is None:
                continue
            v = st.value
            b[i:i + 1] = _loc([ast.If(test=v.test, body=[ast.Return(value=v.body)], orelse=[ast.Return(value=v.orelse)])], st)
            return True
        if not isinstance(st, ast.Expr):
            continue
        v = st.value
        new = None
        if isinstance(v, ast.IfExp):
            def arm(e):
                return [ast.Pass()] if isinstance(e, ast.Constant) else [ast.Expr(value=e)]
            new = ast.If(test=v.test, body=arm(v.body), orelse=[] if isinstance(v.orelse, ast.Constant) else arm(v.orelse))
        elif isinstance(v, ast.BoolOp) and len(v.values) == 2:
            a, b_ = v.values
            if isinstance(v.op, ast.And):
                new = ast.If(test=a, body=[ast.Expr(value=b_)], orelse=[])
            else:
                new = ast.If(test=ast.UnaryOp(op=ast.Not(), operand=a), body=[ast.Expr(value=b_)], orelse=[])
        if new is None:
            continue
        b, i = idx.block_and_index(st)
        if b is None:
            continue
        b[i:i + 1] = _loc([new], st)
        return True
    return False


def _leading_atom(test):
    """The sub-expression of ``test`` that is evaluated first, unconditionally."""
    e = test
    while True:
        if isinstance(e, ast.BoolOp):
            e = e.values[0]
        elif isinstance(e, ast.UnaryOp) and isinstance(e.op, ast.Not):
            e = e.operand
        elif isinstance(e, ast.Compare):
            e = e.left
        else:
            return e


def _pass_walrus(fn) -> bool:
    idx = _Index(fn)
    for st in list(idx.stmts):
        if isinstance(st, ast.If):
            a = _leading_atom(st.test)
            if isinstance(a, ast.NamedExpr) and isinstance(a.target, ast.Name):
                b, i = idx.block_and_index(st)
                if b is None:
                    continue
                # an `elif` is the sole statement of an orelse list: hoisting there stays inside that branch
                assign = ast.Assign(targets=[ast.Name(id=a.target.id, ctx=ast.Store())], value=a.value)
                _swap_node(st, a, ast.Name(id=a.target.id, ctx=ast.Load()))
                b[i:i] = _loc([assign], st)
                return True
        elif isinstance(st, ast.While):
            a = _leading_atom(st.test)
            if isinstance(a, ast.NamedExpr) and isinstance(a.target, ast.Name) and _path_text(a.value) is not None:
                free = _free_paths(a.value) | {a.target.id}
                rebinds = any(isinstance(m, (ast.stmt, ast.ExceptHandler)) and _conflicts(_stored_paths(m), free) for m in _own_nodes_of_stmt(st))
                b, i = idx.block_and_index(st)
                if b is None or rebinds:
                    continue
                assign = ast.Assign(targets=[ast.Name(id=a.target.id, ctx=ast.Store())], value=a.value)
                _swap_node(st, a, ast.Name(id=a.target.id, ctx=ast.Load()))
                b[i:i] = _loc([assign], st)
                return True
    return False


def _pass_tuple_assign(fn) -> bool:
    idx = _Index(fn)
    for st in list(idx.stmts):
        if isinstance(st, ast.Assign) and len(st.targets) == 1 and isinstance(st.targets[0], ast.Tuple) and isinstance(st.value, ast.Tuple) \
                and len(st.targets[0].elts) == len(st.value.elts) and not any(isinstance(e, ast.Starred) for e in st.targets[0].elts + st.value.elts):
            tgs = [_path_text(t) for t in st.targets[0].elts]
            if any(t is None for t in tgs):
                continue
            ok = True
            for j in range(1, len(tgs)):
                fp = _free_paths(st.value.elts[j])
                if _conflicts(set(tgs[:j]), fp):
                    ok = False
            if not ok:
                continue
            b, i = idx.block_and_index(st)
            if b is None:
                continue
            new = [ast.Assign(targets=[t], value=v) for t, v in zip(st.targets[0].elts, st.value.elts)]
            b[i:i + 1] = _loc(new, st)
            return True
    return False


def _pass_hoist_for_iter(fn, ctx) -> bool:
    idx = _Index(fn)
    for st in list(idx.stmts):
        if isinstance(st, (ast.For,)) and isinstance(st.iter, ast.Call):
            callee, _ds = ctx.resolve(st.iter.func, fn)
            if callee is None or isinstance(callee, ast.AsyncFunctionDef):
                continue
            b, i = idx.block_and_index(st)
            if b is None:
                continue
            tmp = _fresh("it")
            assign = ast.Assign(targets=[ast.Name(id=tmp, ctx=ast.Store())], value=st.iter)
            st.iter = ast.copy_location(ast.Name(id=tmp, ctx=ast.Load()), st.iter)
            b[i:i] = _loc([assign], st)
            return True
    return False


def _pass_filtered_for(fn) -> bool:
    """N20: `for x in [y for y in P if c(y)]: BODY` -> `for x in P: if c(x): BODY` (single generator, the element is the
    comprehension variable itself, conditions are pure; BODY has no break/continue/else).  The filter is then a guard the
    facts engine sees.  Assumption: BODY does not change the truth of c() for later elements."""
    idx = _Index(fn)
    for st in list(idx.stmts):
        if not (isinstance(st, ast.For) and isinstance(st.iter, (ast.ListComp, ast.GeneratorExp)) and isinstance(st.target, ast.Name) and not st.orelse):
            continue
        comp = st.iter
        if len(comp.generators) != 1:
            continue
        g = comp.generators[0]
        if not (isinstance(g.target, ast.Name) and isinstance(comp.elt, ast.Name) and comp.elt.id == g.target.id and g.ifs and not g.is_async):
            continue
        if not all(_is_pure(c)[0] for c in g.ifs) or _has_loop_jump(st.body):
            continue
        ren = _Subst({g.target.id: ast.Name(id=st.target.id, ctx=ast.Load())}, {})
        test = ren.visit(copy.deepcopy(g.ifs[0])) if len(g.ifs) == 1 else ast.BoolOp(op=ast.And(), values=[ren.visit(copy.deepcopy(c)) for c in g.ifs])
        st.iter = g.iter
        st.body = _loc([ast.If(test=test, body=st.body, orelse=[])], st)
        return True
    return False
