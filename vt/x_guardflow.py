"""Shared helpers for the client/iostream properties (C09-C13).

* :class:`ClassEffects` - per-method write summaries (``self.X`` attributes a
  method may rebind or mutate, transitively through ``self.m()`` calls), used
  to decide whether a ``self.m(...)`` call between a guard and a governed site
  can invalidate the guard.
* :func:`guard_facts` - forward must-analysis of branch facts *and*
  constant-assignment facts with a kill relation that is more precise than the
  core engine's default (``self.m()`` is resolved through the write summaries,
  passing ``self.x`` as an argument does not invalidate ``self.x is None``).
* :func:`fold_cfg` - exhaustive evaluation of a small predicate function by
  constant folding of its CFG for one concrete environment (no code is run).
* :func:`prune_exceptions` - replace the coarse exception edges of a private
  CFG copy by the edges a frozen raise-model allows.
* :func:`unbound_uses` - definite-assignment (DEFUSE) on the exception-aware CFG.

Nothing here imports or executes tornado.
"""
from __future__ import annotations

import ast
from typing import Callable, Dict, FrozenSet, Iterable, List, Optional, Sequence, Set, Tuple

from . import q
from .cfg import CFG, Node, Fact, FactDB, PURE_METHODS, PURE_FUNCS, canon_fact, must_facts, _node_roots
from .model import AnalysisError, FuncInfo, Repo


# ---------------------------------------------------------------------------
# write summaries


def _attr2(path: str) -> Optional[str]:
    """``self.a.b`` -> ``self.a``; None unless rooted at self with an attribute."""
    parts = path.split(".")
    if parts[0] != "self" or len(parts) < 2:
        return None
    return "self." + parts[1].replace("[]", "")


class ClassEffects:
    """Write summaries for the methods of a family of classes (a base class and
    the subclasses that override its hooks).  ``writes(name)`` is the set of
    ``self.X`` attributes some definition of method ``name`` may assign, delete,
    subscript-store or call a non-pure method on - closed under ``self.m()`` /
    ``super().m()`` calls.  ``None`` means unknown (an unresolvable self call)."""

    def __init__(self, repo: Repo, classes: Sequence[Tuple[str, str]], pure_self_calls: Iterable[str] = ()):
        self.methods: Dict[str, List[FuncInfo]] = {}
        for rel, cls in classes:
            for fi in repo.direct_methods(rel, cls):
                self.methods.setdefault(fi.name, []).append(fi)
        self.pure_self_calls = set(pure_self_calls)
        self._direct: Dict[str, Tuple[Set[str], Set[str], bool]] = {}
        self._closed: Dict[str, Optional[FrozenSet[str]]] = {}

    def _scan(self, name: str) -> Tuple[Set[str], Set[str], bool]:
        if name in self._direct:
            return self._direct[name]
        w: Set[str] = set()
        callees: Set[str] = set()
        unknown = False
        for fi in self.methods.get(name, []):
            for n in q.walk_body(fi.node):
                if isinstance(n, (ast.Assign, ast.AugAssign, ast.AnnAssign, ast.Delete)):
                    for p in q.assigned_paths(n):
                        a = _attr2(p)
                        if a:
                            w.add(a)
                elif isinstance(n, ast.Call) and isinstance(n.func, ast.Attribute):
                    recv = n.func.value
                    d = q.dotted(recv)
                    is_super = isinstance(recv, ast.Call) and q.dotted(recv.func) == "super"
                    if d == "self" or is_super:
                        k = n.func.attr
                        if k in self.methods:
                            callees.add(k)
                        elif k in PURE_METHODS or k in self.pure_self_calls or is_super:
                            pass
                        else:
                            unknown = True
                    elif d and d.startswith("self.") and n.func.attr not in PURE_METHODS:
                        a = _attr2(d)
                        if a:
                            w.add(a)
        self._direct[name] = (w, callees, unknown)
        return self._direct[name]

    def writes(self, name: str) -> Optional[FrozenSet[str]]:
        if name in self._closed:
            return self._closed[name]
        if name not in self.methods:
            return None
        seen: Set[str] = set()
        out: Set[str] = set()
        work = [name]
        unknown = False
        while work:
            m = work.pop()
            if m in seen:
                continue
            seen.add(m)
            w, callees, unk = self._scan(m)
            out |= w
            unknown = unknown or unk
            work.extend(callees)
        res = None if unknown else frozenset(out)
        self._closed[name] = res
        return res


# ---------------------------------------------------------------------------
# precise guard facts


def _identity_only(text: str, path: str) -> bool:
    """The fact only tests whether ``path`` is (not) None - an object handed to
    a callee cannot change that."""
    try:
        e = ast.parse(text, mode="eval").body
    except SyntaxError:
        return False
    return (
        isinstance(e, ast.Compare)
        and len(e.ops) == 1
        and isinstance(e.ops[0], (ast.Is, ast.IsNot))
        and q.dotted(e.left) == path
        and isinstance(e.comparators[0], ast.Constant)
        and e.comparators[0].value is None
    )


def const_assign_facts(n: Node) -> List[Fact]:
    """``P = None`` -> (P is None, True); ``P = True/False`` -> (P, bool);
    chained targets all get the fact."""
    out: List[Fact] = []
    if n.kind == "stmt" and isinstance(n.ast, (ast.Assign, ast.AnnAssign)) and isinstance(n.ast.value, ast.Constant):
        v = n.ast.value.value
        tgts = n.ast.targets if isinstance(n.ast, ast.Assign) else [n.ast.target]
        for t in tgts:
            d = q.dotted(t)
            if not d:
                continue
            if v is None:
                out.append(("%s is None" % d, True))
                out.append((d, False))
            elif v is True or v is False:
                out.append((d, v))
                if v is True:
                    out.append(("%s is None" % d, False))
    return out


def guard_facts(
    fi: FuncInfo,
    effects: Optional[ClassEffects] = None,
    extra_gen: Optional[Callable[[Node], Iterable[Fact]]] = None,
    extra_kill: Optional[Callable[[Node, Fact], bool]] = None,
    cfg: Optional[CFG] = None,
    exc_gen: bool = False,
    pure_calls: Iterable[str] = (),
) -> Dict[int, FrozenSet[Fact]]:
    """IN[node.id] = facts that hold on every path to the node.  Facts are
    canonical branch conditions, constant-assignment facts and the rule's own
    event facts (text starting with ``@``; killed only by ``extra_kill``)."""
    cfg = cfg or fi.cfg
    db = FactDB()
    eff_cache: Dict[int, Tuple[Set[str], List[Tuple[str, str]], List[Tuple[str, Optional[FrozenSet[str]]]], Set[str], bool]] = {}

    def effects_of(n: Node):
        if n.id in eff_cache:
            return eff_cache[n.id]
        assigned: Set[str] = set()
        recv_calls: List[Tuple[str, str]] = []  # (receiver path, method)
        self_calls: List[Tuple[str, Optional[FrozenSet[str]]]] = []
        passed: Set[str] = set()
        if n.ast is not None and n.kind in ("stmt", "test", "for", "with"):
            if n.kind == "for":
                assigned |= q.assigned_paths(ast.Assign(targets=[n.ast.target], value=ast.Constant(value=None)))
            elif n.kind == "with":
                for it in n.ast.items:
                    if it.optional_vars is not None:
                        assigned |= q.assigned_paths(ast.Assign(targets=[it.optional_vars], value=ast.Constant(value=None)))
            elif isinstance(n.ast, ast.stmt):
                assigned |= q.assigned_paths(n.ast)
            for root in _node_roots(n):
                for x in q.walk_local(root):
                    if not isinstance(x, ast.Call):
                        continue
                    pure = False
                    if isinstance(x.func, ast.Attribute):
                        recv = q.dotted(x.func.value)
                        is_super = isinstance(x.func.value, ast.Call) and q.dotted(x.func.value.func) == "super"
                        if recv == "self" or is_super:
                            w = effects.writes(x.func.attr) if effects is not None else None
                            if w is None and x.func.attr in PURE_METHODS and (effects is None or x.func.attr not in effects.methods):
                                w = frozenset()
                            self_calls.append((x.func.attr, w))
                            pure = w is not None and not w
                        elif recv:
                            if x.func.attr in PURE_METHODS:
                                pure = True
                            else:
                                recv_calls.append((recv, x.func.attr))
                    elif q.dotted(x.func) in PURE_FUNCS:
                        pure = True
                    if not pure:
                        for a in list(x.args) + [k.value for k in x.keywords]:
                            d = q.dotted(a)
                            if d:
                                passed.add(d)
        eff_cache[n.id] = (assigned, recv_calls, self_calls, passed, n.suspends)
        return eff_cache[n.id]

    def kill(n: Node, f: Fact) -> bool:
        text = f[0]
        if text.startswith("@alias:"):
            return alias_kill(n, f)
        if text.startswith("@"):
            return bool(extra_kill and extra_kill(n, f))
        if extra_kill and extra_kill(n, f):
            return True
        assigned, recv_calls, self_calls, passed, susp = effects_of(n)
        if not (assigned or recv_calls or self_calls or passed or susp):
            return False
        ps = db.paths(text)
        for a in assigned:
            base = a[:-2] if a.endswith("[]") else a
            if base in ps:
                return True
        for recv, _m in recv_calls:
            if recv in ps and recv != "self":
                return True
        for _m, w in self_calls:
            if w is None:
                if any(p.startswith("self.") for p in ps):
                    return True
            else:
                for p in ps:
                    a = _attr2(p)
                    if a and a in w:
                        return True
        for d in passed:
            if d in ps and d != "self" and not _identity_only(text, d):
                return True
        if susp and (db.hascall(text) or any("." in p for p in ps)):
            return True
        return False

    def gen(n: Node) -> List[Fact]:
        out = list(const_assign_facts(n))
        # named boolean: `flag = <pure test expression>` is remembered as an alias fact; a later
        # branch on `flag` then yields the facts of the expression (if nothing invalidated it)
        if n.kind == "stmt" and isinstance(n.ast, (ast.Assign, ast.AnnAssign)) and n.ast.value is not None and not n.suspends:
            tg = n.ast.targets if isinstance(n.ast, ast.Assign) else [n.ast.target]
            v = n.ast.value
            if len(tg) == 1 and isinstance(tg[0], ast.Name) and isinstance(v, (ast.Compare, ast.BoolOp, ast.UnaryOp, ast.Call, ast.Attribute)) and not isinstance(v, ast.Constant):
                if _pure_test(v, pure_calls) and tg[0].id not in q.names_in(v):
                    out.append(("@alias:%s=%s" % (tg[0].id, q.unparse(v)), True))
        if extra_gen is not None:
            out.extend(extra_gen(n) or ())
        return out

    def alias_kill(n: Node, f: Fact) -> bool:
        name, _, text = f[0][len("@alias:"):].partition("=")
        assigned, _r, _s, _p, _su = effects_of(n)
        if name in assigned:
            return True
        # invalidated exactly when a fact about the expression would be
        return kill(n, (text, True))

    def alias_facts(kept: FrozenSet[Fact], test: ast.AST, pol: bool) -> List[Fact]:
        t, p = canon_fact(test, pol)
        out: List[Fact] = []
        if t.isidentifier():
            for f in kept:
                if f[0].startswith("@alias:%s=" % t):
                    try:
                        e = ast.parse(f[0].split("=", 1)[1], mode="eval").body
                    except SyntaxError:
                        continue
                    out.extend(_facts_of(e, p))
            return out
        # a test that mentions an aliased local (`f = self.x; if f is None`) also holds of the aliased path
        names = {x.id for x in ast.walk(test) if isinstance(x, ast.Name)}
        for f in kept:
            if not f[0].startswith("@alias:"):
                continue
            name, _, text = f[0][len("@alias:"):].partition("=")
            if name not in names:
                continue
            try:
                e = ast.parse(text, mode="eval").body
            except SyntaxError:
                continue
            if not isinstance(e, (ast.Attribute, ast.Name)):
                continue
            import copy as _copy

            class _S(ast.NodeTransformer):
                def visit_Name(self, node):
                    return _copy.deepcopy(e) if node.id == name and isinstance(node.ctx, ast.Load) else node

            out.extend(_facts_of(_S().visit(_copy.deepcopy(test)), pol))
        return out

    reach = cfg.reachable()
    IN: Dict[int, Optional[FrozenSet[Fact]]] = {n: None for n in reach}
    IN[cfg.entry.id] = frozenset()
    work = [cfg.entry.id]
    gen_cache: Dict[int, FrozenSet[Fact]] = {}
    while work:
        nid = work.pop()
        n = cfg.nodes[nid]
        cur = IN[nid]
        assert cur is not None
        kept = frozenset(f for f in cur if not kill(n, f))
        if nid not in gen_cache:
            gen_cache[nid] = frozenset(gen(n))
        g = gen_cache[nid]
        # a generated constant-assignment fact supersedes the opposite polarity
        if g:
            kept_n = frozenset(f for f in kept if (f[0], not f[1]) not in g)
        else:
            kept_n = kept
        for sid, kind in cfg.succ[nid]:
            if kind == "exc":
                out = (kept_n | g) if exc_gen else kept
            else:
                out = kept_n | g
                if n.kind == "test" and kind in ("true", "false"):
                    out = out | {canon_fact(n.ast, kind == "true")} | frozenset(alias_facts(kept_n, n.ast, kind == "true"))
            old = IN[sid]
            new = out if old is None else (old & out)
            if old is None or new != old:
                IN[sid] = new
                work.append(sid)
    return {k: (v if v is not None else frozenset()) for k, v in IN.items()}


def _pure_test(e: ast.AST, pure_calls: Iterable[str] = ()) -> bool:
    pure_calls = set(pure_calls)
    for x in ast.walk(e):
        if isinstance(x, ast.Call):
            if isinstance(x.func, ast.Attribute) and (x.func.attr in PURE_METHODS or q.dotted(x.func) in pure_calls):
                continue
            if q.dotted(x.func) in PURE_FUNCS:
                continue
            return False
        if isinstance(x, (ast.Await, ast.Yield, ast.YieldFrom, ast.NamedExpr, ast.Lambda)):
            return False
    return True


def _facts_of(e: ast.AST, pol: bool) -> List[Fact]:
    """facts implied by expression ``e`` having truth value ``pol``"""
    while isinstance(e, ast.UnaryOp) and isinstance(e.op, ast.Not):
        e = e.operand
        pol = not pol
    if isinstance(e, ast.BoolOp):
        if isinstance(e.op, ast.And) and pol:
            return [f for v in e.values for f in _facts_of(v, True)]
        if isinstance(e.op, ast.Or) and not pol:
            return [f for v in e.values for f in _facts_of(v, False)]
        return [canon_fact(e, pol)]
    return [canon_fact(e, pol)]


def edge_facts(n: Node, kind: str, gf: Optional[Dict[int, FrozenSet[Fact]]] = None) -> List[Fact]:
    """Canonical facts that hold when test node ``n`` is left along edge ``kind``.
    When the test is a local name that :func:`guard_facts` (``gf``) still knows as an
    alias of a pure test expression (named boolean), the facts of that expression
    are included."""
    if n.kind != "test" or kind not in ("true", "false"):
        return []
    pol = kind == "true"
    out = list(_facts_of(n.ast, pol))
    t, p = canon_fact(n.ast, pol)
    if gf is not None and t.isidentifier():
        for f in gf.get(n.id, ()):
            if f[0].startswith("@alias:%s=" % t):
                try:
                    e = ast.parse(f[0].split("=", 1)[1], mode="eval").body
                except SyntaxError:
                    continue
                out.extend(_facts_of(e, p))
    return out


def has(facts: FrozenSet[Fact], text: str, pol: bool) -> bool:
    e = ast.parse(text, mode="eval").body
    return canon_fact(e, pol) in facts


# ---------------------------------------------------------------------------
# exhaustive evaluation of a predicate function by folding its CFG


class Outcome:
    def __init__(self, kind: str, value=None):
        self.kind = kind  # 'return' | 'raise'
        self.value = value

    def __repr__(self):
        return "%s(%r)" % (self.kind, self.value)


UNKNOWN = object()


def fold_cfg(cfg: CFG, env: Dict[str, object], max_steps: int = 500) -> Outcome:
    """Evaluate a small branch-only function for one concrete environment:
    tests and assigned values are constant-folded, ``return``/``raise`` end the
    walk.  Statements that are not assignments of foldable values, docstrings,
    ``pass``, ``assert``, ``return`` or ``raise`` make the function unfoldable
    (AnalysisError: unknown idiom)."""
    env = dict(env)
    node = cfg.entry
    for _ in range(max_steps):
        if node.kind in ("exit",):
            return Outcome("return", None)
        if node.kind == "rexit":
            return Outcome("raise", "?")
        nxt: Optional[str] = "next"
        if node.kind == "test":
            try:
                v = q.fold(node.ast, env)
            except q.NotFoldable as e:
                raise AnalysisError("cannot fold test %s (%s)" % (q.unparse(node.ast), e))
            nxt = "true" if v else "false"
        elif node.kind == "stmt":
            st = node.ast
            if isinstance(st, ast.Return):
                if st.value is None:
                    return Outcome("return", None)
                try:
                    return Outcome("return", q.fold(st.value, env))
                except q.NotFoldable:
                    return Outcome("return", UNKNOWN)
            if isinstance(st, ast.Raise):
                exc = st.exc
                if isinstance(exc, ast.Call):
                    exc = exc.func
                return Outcome("raise", (q.dotted(exc) if exc is not None else None))
            if isinstance(st, ast.Assert):
                try:
                    if not q.fold(st.test, env):
                        return Outcome("raise", "AssertionError")
                except q.NotFoldable as e:
                    raise AnalysisError("cannot fold assert %s (%s)" % (q.unparse(st.test), e))
            elif isinstance(st, (ast.Assign, ast.AnnAssign)) and st.value is not None:
                try:
                    v = q.fold(st.value, env)
                except q.NotFoldable:
                    v = UNKNOWN
                for p in q.assigned_paths(st):
                    if v is UNKNOWN:
                        env.pop(p, None)
                    else:
                        env[p] = v
            elif isinstance(st, ast.Pass) or (isinstance(st, ast.Expr) and isinstance(st.value, ast.Constant)):
                pass
            else:
                raise AnalysisError("statement not foldable: %s" % q.unparse(st).split("\n")[0])
        elif node.kind in ("entry", "join"):
            pass
        else:
            raise AnalysisError("CFG node kind %s not foldable" % node.kind)
        succ = [s for s, k in cfg.successors(node) if k == nxt]
        if not succ:
            raise AnalysisError("no %s successor while folding at %r" % (nxt, node))
        node = succ[0]
    raise AnalysisError("fold_cfg: step limit")


def fold_conj_partial(e: ast.AST, env: Dict[str, object]) -> Tuple[bool, int]:
    """Fold the conjuncts of ``e`` that are foldable under ``env``; unfoldable
    conjuncts are assumed true.  Returns (value, number of conjuncts folded)."""
    n = 0
    for c in q.split_conj(e):
        try:
            v = q.fold(c, env)
        except q.NotFoldable:
            continue
        n += 1
        if not v:
            return False, n
    return True, n


# ---------------------------------------------------------------------------
# raise-model pruning of exception edges (on a private CFG copy)


def prune_exceptions(cfg: CFG, raises: Callable[[Node], Optional[Set[str]]]) -> None:
    """``raises(node)`` -> set of exception class names the node may raise by the
    frozen raise-model (empty set: cannot raise; None: keep the coarse edges).
    Exception edges of non-raising nodes are removed; the 'not caught' edge of
    a try statement is removed when every class that can arrive is caught by
    one of its handlers."""
    cache: Dict[int, Optional[Set[str]]] = {}

    def r(n: Node) -> Optional[Set[str]]:
        if n.id not in cache:
            cache[n.id] = raises(n) if n.kind in ("stmt", "test", "for", "with") else None
        return cache[n.id]

    cfg.drop_exc_edges(lambda n: n.kind in ("stmt", "test", "for", "with") and r(n) is not None and not r(n))
    changed = True
    while changed:
        changed = False
        for d in cfg.nodes:
            if d.kind != "dispatch":
                continue
            handlers = [cfg.nodes[s] for s, k in cfg.succ[d.id] if cfg.nodes[s].kind == "handler"]
            outer = [(s, k) for s, k in cfg.succ[d.id] if cfg.nodes[s].kind != "handler"]
            if not outer:
                continue
            arriving: Optional[Set[str]] = set()
            for p, k in cfg.pred[d.id]:
                pn = cfg.nodes[p]
                rs = r(pn)
                if rs is None:
                    arriving = None
                    break
                arriving |= rs
            if arriving is None:
                continue
            caught_names: List[str] = []
            for h in handlers:
                caught_names.extend(q.handler_names(h.ast))
            if all(q.exc_is_caught(c, caught_names) for c in arriving):
                for s, k in outer:
                    cfg.succ[d.id].remove((s, k))
                    cfg.pred[s].remove((d.id, k))
                cfg._dom = None
                cfg._pdom = None
                changed = True
            # prune handlers that cannot be entered
            for h in handlers:
                if not any(q.exc_is_caught(c, q.handler_names(h.ast)) for c in arriving):
                    if (h.id, "exc") in cfg.succ[d.id]:
                        cfg.succ[d.id].remove((h.id, "exc"))
                        cfg.pred[h.id].remove((d.id, "exc"))
                        cfg._dom = None
                        cfg._pdom = None
                        changed = True


# ---------------------------------------------------------------------------
# DEFUSE


def unbound_uses(fi: FuncInfo, cfg: Optional[CFG] = None) -> List[Tuple[Node, ast.Name]]:
    """Loads of a local variable at CFG nodes where the variable is not
    definitely assigned (exception edges included; a statement's own binding
    does not flow along its exception edge)."""
    cfg = cfg or fi.cfg
    fn = fi.node
    params = set(fi.params())
    comp_bound: Set[str] = set()
    for n in q.walk_body(fn):
        if isinstance(n, (ast.ListComp, ast.SetComp, ast.DictComp, ast.GeneratorExp)):
            for g in n.generators:
                for x in ast.walk(g.target):
                    if isinstance(x, ast.Name):
                        comp_bound.add(x.id)
    declared: Set[str] = set()
    for n in q.walk_body(fn):
        if isinstance(n, (ast.Global, ast.Nonlocal)):
            declared |= set(n.names)
    locals_ = {x for x in q.local_names(fn) if x not in params and x not in comp_bound and x not in declared}
    for n in q.walk_body(fn):
        if isinstance(n, q.FuncNode + (ast.ClassDef,)) and n is not fn:
            locals_.add(n.name)

    def bound_by(n: Node) -> Set[str]:
        out: Set[str] = set()
        if n.kind == "handler" and getattr(n.ast, "name", None):
            out.add(n.ast.name)
        elif n.kind == "for":
            out |= {p for p in q.assigned_paths(ast.Assign(targets=[n.ast.target], value=ast.Constant(value=None))) if "." not in p and "[" not in p}
        elif n.kind == "with":
            for it in n.ast.items:
                if it.optional_vars is not None:
                    out |= {p for p in q.assigned_paths(ast.Assign(targets=[it.optional_vars], value=ast.Constant(value=None))) if "." not in p and "[" not in p}
        elif n.kind == "stmt":
            st = n.ast
            if isinstance(st, ast.Delete):
                return set()
            if isinstance(st, q.FuncNode + (ast.ClassDef,)):
                out.add(st.name)
            else:
                out |= {p for p in q.assigned_paths(st) if "." not in p and "[" not in p}
        elif n.kind == "test":
            for x in q.walk_local(n.ast):
                if isinstance(x, ast.NamedExpr) and isinstance(x.target, ast.Name):
                    out.add(x.target.id)
        return out

    def gen(n: Node):
        return [("@def:" + v, True) for v in bound_by(n) if v in locals_]

    def kill(n: Node, f: Fact) -> bool:
        if n.kind == "stmt" and isinstance(n.ast, ast.Delete) and f[0].startswith("@def:"):
            return any(isinstance(t, ast.Name) and "@def:" + t.id == f[0] for t in n.ast.targets)
        return False

    IN = must_facts(cfg, gen_node=gen, kill_node=kill, cond_facts=False, exc_gen=False)
    out: List[Tuple[Node, ast.Name]] = []
    for n in cfg.stmt_nodes():
        for root in _node_roots(n):
            for x in q.walk_local(root):
                if isinstance(x, ast.Name) and isinstance(x.ctx, ast.Load) and x.id in locals_:
                    if ("@def:" + x.id, True) not in IN[n.id]:
                        out.append((n, x))
    return out


# ---------------------------------------------------------------------------
# expression expansion: local aliases and same-module helper functions


def _literal(v: ast.AST) -> bool:
    """constant, or tuple/list/set/frozenset literal of constants"""
    if isinstance(v, ast.Constant):
        return True
    if isinstance(v, (ast.Tuple, ast.List, ast.Set)):
        return all(_literal(x) for x in v.elts)
    if isinstance(v, ast.Call) and q.dotted(v.func) in ("frozenset", "set", "tuple") and len(v.args) == 1 and not v.keywords:
        return _literal(v.args[0])
    return False


def _lit_value(v: ast.AST) -> ast.AST:
    return v.args[0] if isinstance(v, ast.Call) else v


def _helper_body(fn) -> Optional[Tuple[List[ast.Assign], ast.AST]]:
    """(straight-line single-name assignments, returned expression) of a small
    pure helper; None when the function has any other statement."""
    assigns: List[ast.Assign] = []
    ret = None
    for st in fn.body:
        if isinstance(st, ast.Expr) and isinstance(st.value, ast.Constant):
            continue
        if isinstance(st, ast.Assign) and len(st.targets) == 1 and isinstance(st.targets[0], ast.Name):
            assigns.append(st)
            continue
        if isinstance(st, ast.AnnAssign) and isinstance(st.target, ast.Name) and st.value is not None:
            assigns.append(ast.Assign(targets=[st.target], value=st.value))
            continue
        if isinstance(st, ast.Return) and st.value is not None and st is fn.body[-1]:
            ret = st.value
            continue
        if isinstance(st, ast.Assert):
            continue
        return None
    if ret is None:
        return None
    return assigns, ret


class _Subst(ast.NodeTransformer):
    def __init__(self, mapping: Dict[str, ast.AST]):
        self.mapping = mapping

    def visit_Name(self, node):
        if isinstance(node.ctx, ast.Load) and node.id in self.mapping:
            import copy

            return copy.deepcopy(self.mapping[node.id])
        return node


def expand_expr(repo: Repo, fi: FuncInfo, e: ast.AST, depth: int = 4, locals_too: bool = True) -> ast.AST:
    """Rewrite ``e`` (an expression of function ``fi``) so that it can be folded:
    * a local name bound exactly once in ``fi`` (to an expression without
      await/yield) is replaced by that expression;
    * a call ``self.h(..)`` / ``cls.h(..)`` / ``Class.h(..)`` / ``h(..)`` of a
      small pure helper defined in the same module (straight-line assignments
      and one ``return``) is replaced by the helper's returned expression with
      the arguments substituted.
    Anything else is left as it is (and will make ``fold`` raise NotFoldable)."""
    import copy

    e = copy.deepcopy(e)
    mod = fi.module
    clsname = fi.qualname.split(".")[0] if fi.cls is not None else None

    def helper_for(call: ast.Call):
        f = call.func
        cands = []
        if isinstance(f, ast.Attribute) and isinstance(f.value, ast.Name):
            if f.value.id in ("self", "cls") and clsname:
                cands.append("%s.%s" % (clsname, f.attr))
                # inherited helper in the same module
                for qn in mod.funcs:
                    if qn.endswith("." + f.attr) and qn.count(".") == 1:
                        cands.append(qn)
            elif f.value.id in mod.classes:
                cands.append("%s.%s" % (f.value.id, f.attr))
        elif isinstance(f, ast.Name):
            cands.append(f.id)
        for qn in cands:
            if qn in mod.funcs:
                return mod.funcs[qn]
        return None

    def inline(call: ast.Call, d: int) -> Optional[ast.AST]:
        h = helper_for(call)
        if h is None or any(isinstance(a, ast.Starred) for a in call.args):
            return None
        hb = _helper_body(h.node)
        if hb is None:
            return None
        assigns, ret = hb
        a = h.node.args
        params = [x.arg for x in a.posonlyargs + a.args]
        is_static = any(q.dotted(dec) == "staticmethod" for dec in h.node.decorator_list)
        if h.cls is not None and not is_static and params and params[0] in ("self", "cls"):
            bound = params[1:]
            selfname = params[0]
        else:
            bound = params
            selfname = None
        if len(call.args) > len(bound):
            return None
        mapping: Dict[str, ast.AST] = {}
        for p, v in zip(bound, call.args):
            mapping[p] = v
        for k in call.keywords:
            if k.arg is None or k.arg not in bound:
                return None
            mapping[k.arg] = k.value
        defaults = dict(zip(reversed([x.arg for x in a.posonlyargs + a.args]), reversed(a.defaults)))
        for p in bound:
            if p not in mapping:
                if p in defaults:
                    mapping[p] = defaults[p]
                else:
                    return None
        if selfname and isinstance(call.func, ast.Attribute):
            mapping[selfname] = call.func.value
        for st in assigns:
            mapping[st.targets[0].id] = _Subst(dict(mapping)).visit(copy.deepcopy(st.value))
        out = _Subst(mapping).visit(copy.deepcopy(ret))
        return rec(out, d - 1)

    FOLD_FUNCS = ("range", "bool", "int", "len", "str", "min", "max")

    def foldable_def(v: ast.AST) -> bool:
        """the defining expression only uses operations fold() knows (or helpers we can inline)"""
        for y in ast.walk(v):
            if isinstance(y, ast.Call):
                if isinstance(y.func, ast.Name) and y.func.id in FOLD_FUNCS:
                    continue
                h = helper_for(y)
                if h is not None and _helper_body(h.node) is not None:
                    continue
                return False
            if isinstance(y, (ast.Await, ast.Yield, ast.YieldFrom, ast.Lambda, ast.ListComp, ast.GeneratorExp, ast.DictComp, ast.SetComp)):
                return False
        return True

    def rec(x: ast.AST, d: int) -> ast.AST:
        if d <= 0:
            return x

        class T(ast.NodeTransformer):
            def visit_Call(self, node):
                node = self.generic_visit(node)
                r = inline(node, d)
                return r if r is not None else node

            def visit_Attribute(self, node):
                node = self.generic_visit(node)
                # self.CONST / cls.CONST / Class.CONST: a literal class attribute
                if isinstance(node, ast.Attribute) and isinstance(node.ctx, ast.Load) and isinstance(node.value, ast.Name):
                    cn = clsname if node.value.id in ("self", "cls") else (node.value.id if node.value.id in mod.classes else None)
                    if cn and cn in mod.classes:
                        for st_ in mod.classes[cn].body:
                            if isinstance(st_, ast.Assign) and any(isinstance(t_, ast.Name) and t_.id == node.attr for t_ in st_.targets) and _literal(st_.value):
                                if not any(node.attr in q.assigned_paths(x) or ("self." + node.attr) in q.assigned_paths(x) for f_ in mod.funcs.values() for x in q.walk_body(f_.node) if isinstance(x, (ast.Assign, ast.AugAssign))):
                                    return copy.deepcopy(_lit_value(st_.value))
                return node

            def visit_Name(self, node):
                if isinstance(node.ctx, ast.Load) and node.id in mod.assigns and node.id not in q.local_names(fi.node) and node.id not in fi.params() and _literal(mod.assigns[node.id]):
                    return copy.deepcopy(_lit_value(mod.assigns[node.id]))
                if locals_too and isinstance(node.ctx, ast.Load) and node.id not in ("self", "cls"):
                    st = [s for s in q.stores_to(fi.node, node.id)]
                    if len(st) == 1 and isinstance(st[0], (ast.Assign, ast.AnnAssign)) and getattr(st[0], "value", None) is not None and q.assigned_paths(st[0]) == {node.id} and not q.has_suspension(st[0].value) and node.id not in fi.params():
                        tgt = st[0].targets[0] if isinstance(st[0], ast.Assign) else st[0].target
                        if isinstance(tgt, ast.Name) and not any(isinstance(y, ast.Name) and y.id == node.id for y in ast.walk(st[0].value)) and foldable_def(st[0].value):
                            return rec(copy.deepcopy(st[0].value), d - 1)
                return node

        return T().visit(x)

    out = rec(e, depth)

    class AllAny(ast.NodeTransformer):
        """all((a, b, c)) / any([a, b]) over a literal display is the conjunction / disjunction of its elements"""

        def visit_Call(self, node):
            node = self.generic_visit(node)
            if isinstance(node.func, ast.Name) and node.func.id in ("all", "any") and len(node.args) == 1 and not node.keywords and isinstance(node.args[0], (ast.Tuple, ast.List)) and node.args[0].elts and not any(isinstance(x, ast.Starred) for x in node.args[0].elts):
                return ast.copy_location(ast.BoolOp(op=ast.And() if node.func.id == "all" else ast.Or(), values=list(node.args[0].elts)), node)
            return node

    return ast.fix_missing_locations(AllAny().visit(out))


# ---------------------------------------------------------------------------
# SETTLE on guard_facts (named booleans, helper-aware kills)


def settles_guarded(ck, rule: str, fi: FuncInfo, fut: Optional[str] = None, effects: Optional[ClassEffects] = None, allow_safe_unguarded: bool = True) -> int:
    """Like rules.check_settles but on :func:`guard_facts` (so that a guard held in a
    named boolean, `ok = not F.done(); if ok: F.set_result(..)`, is recognised)."""
    from .rules import settle_sites, event_created

    facts = guard_facts(fi, effects)
    created = event_created(fi)
    n = 0
    for node, c, p, kind in settle_sites(fi, fut):
        n += 1
        f = facts[node.id]
        ok, why = False, ""
        if has(f, "%s.done()" % p, False):
            ok, why = True, "guarded by not %s.done()" % p
        elif ("@created:" + p, True) in created[node.id]:
            ok, why = True, "future created in this function, no suspension/escape since"
        elif kind == "safe" and allow_safe_unguarded:
            ok, why = True, "*_unless_cancelled form"
        ck.ob(rule, fi, c, ok, "settle of %s must be guarded (not done() / fresh future / take-and-clear)%s" % (p, (": " + why) if why else ""))
    return n


def reaching_value(fi: FuncInfo, name: str, node: Node) -> Optional[ast.AST]:
    """Value of the unique assignment to local ``name`` that reaches ``node`` on every
    path (closest dominating store, no other store in between); None if there is none."""
    cfg = fi.cfg
    stores = cfg.stmt_nodes(lambda m: m.kind == "stmt" and isinstance(m.ast, (ast.Assign, ast.AnnAssign)) and q.assigned_paths(m.ast) == {name} and getattr(m.ast, "value", None) is not None)
    others = cfg.stmt_nodes(lambda m: m.kind in ("stmt", "for", "with") and m not in stores and name in _bound_names(m))
    doms = [m for m in stores if m.id != node.id and cfg.dominates(m, node)]
    if not doms:
        return None
    best = [m for m in doms if all(cfg.dominates(o, m) for o in doms)]
    if len(best) != 1:
        return None
    b = best[0]

    def reach(src: int, stop: int) -> Set[int]:
        seen: Set[int] = set()
        work = [src]
        while work:
            x = work.pop()
            for y, _k in cfg.succ[x]:
                if y not in seen and y != stop:
                    seen.add(y)
                    work.append(y)
        return seen

    after_b = reach(b.id, node.id)
    for o in list(stores) + list(others):
        if o is not b and o.id in after_b:
            full = reach(o.id, -1)
            if node.id in full:
                return None
    return b.ast.value


def _bound_names(m: Node) -> Set[str]:
    if m.kind == "for":
        return {x.id for x in ast.walk(m.ast.target) if isinstance(x, ast.Name)}
    if m.kind == "with":
        return {x.id for it in m.ast.items if it.optional_vars is not None for x in ast.walk(it.optional_vars) if isinstance(x, ast.Name)}
    if isinstance(m.ast, ast.stmt):
        return {p for p in q.assigned_paths(m.ast) if "." not in p and "[" not in p}
    return set()


def resolve_at(repo: Repo, fi: FuncInfo, e: ast.AST, node: Node, stop: Optional[Callable[[ast.AST], bool]] = None, depth: int = 5) -> ast.AST:
    """Substitute local names in ``e`` (evaluated at CFG node ``node``) by their unique
    reaching definitions, recursively, as long as the definition is foldable
    (constants, operators, len/min/max, inlinable helpers); ``stop(value)`` true keeps
    the name.  Works with locals that are assigned in several branches."""
    import copy

    params = set(fi.params())

    def foldable(v: ast.AST) -> bool:
        for y in ast.walk(v):
            if isinstance(y, ast.Call) and not (isinstance(y.func, ast.Name) and y.func.id in ("range", "bool", "int", "len", "str", "min", "max")):
                return False
            if isinstance(y, (ast.Await, ast.Yield, ast.YieldFrom, ast.Lambda, ast.ListComp, ast.GeneratorExp, ast.DictComp, ast.SetComp)):
                return False
        return True

    def rec(x: ast.AST, at: Node, d: int) -> ast.AST:
        if d <= 0:
            return x

        class T(ast.NodeTransformer):
            def visit_Name(self, nm):
                if not isinstance(nm.ctx, ast.Load) or nm.id in params or nm.id in ("self", "cls"):
                    return nm
                v = reaching_value(fi, nm.id, at)
                if v is None or not foldable(v) or (stop is not None and stop(v)):
                    return nm
                defs = [m for m in fi.cfg.stmt_nodes(lambda m: m.kind == "stmt" and getattr(m.ast, "value", None) is v)]
                return rec(copy.deepcopy(v), defs[0] if defs else at, d - 1)

        return T().visit(copy.deepcopy(x))

    return ast.fix_missing_locations(rec(e, node, depth))


def missing_effect(ck, rule: str, fi: FuncInfo, effects: Optional[ClassEffects], attrs: Iterable[str], what: str, construct: str, only_calls: Optional[Callable[[ast.Call], bool]] = None) -> None:
    """The required effect (a write to one of ``attrs``) was not found in ``fi``.  This is a
    VIOLATION only if ``fi`` is fully recognised: when it calls a same-class method that may
    write the attribute (or whose effects are unknown), or hands ``self`` to a same-module
    function, the effect may have moved into that helper -> AnalysisError (unknown shape)."""
    attrs = set(attrs)
    for c in q.calls(fi.node):
        if only_calls is not None and not only_calls(c):
            continue
        if isinstance(c.func, ast.Attribute):
            recv = c.func.value
            is_super = isinstance(recv, ast.Call) and q.dotted(recv.func) == "super"
            if (q.dotted(recv) == "self" or is_super) and effects is not None and c.func.attr in effects.methods:
                w = effects.writes(c.func.attr)
                if w is None or (attrs & set(w)):
                    raise AnalysisError("%s: not found in %s itself, but %s() may do it (helper not followed)" % (what, fi.qualname, c.func.attr))
        elif isinstance(c.func, ast.Name) and c.func.id in fi.module.funcs:
            if any((q.dotted(a) or "").split(".")[0] == "self" for a in list(c.args) + [k.value for k in c.keywords]):
                raise AnalysisError("%s: not found in %s itself, but it hands self to %s() (helper not followed)" % (what, fi.qualname, c.func.id))
    ck.ob(rule, fi, fi.node, False, what, construct=construct)


def as_aug(st: ast.AST) -> ast.AST:
    """``p = p + e`` / ``p = e + p`` / ``p = p - e`` viewed as the augmented assignment
    ``p += e`` / ``p -= e`` (same effect for numbers); anything else is returned unchanged."""
    if isinstance(st, ast.Assign) and len(st.targets) == 1 and isinstance(st.value, ast.BinOp) and isinstance(st.value.op, (ast.Add, ast.Sub)):
        t = q.dotted(st.targets[0])
        if t:
            if q.dotted(st.value.left) == t:
                return ast.copy_location(ast.AugAssign(target=st.targets[0], op=st.value.op, value=st.value.right), st)
            if isinstance(st.value.op, ast.Add) and q.dotted(st.value.right) == t:
                return ast.copy_location(ast.AugAssign(target=st.targets[0], op=st.value.op, value=st.value.left), st)
    return st
