"""In-memory mutants of the analysed tree (thorough tier self-test).

A mutant is an AST edit located through the same anchors the rules use, so it
follows refactorings.  It is applied to a deep copy of one module's tree; the
mutated module must still compile.  Nothing is written to /repo.
"""
from __future__ import annotations

import ast
import copy
from typing import Callable, List, Optional

from .model import AnalysisError, AnchorMissing, Repo, FuncNode


class MutantNotApplicable(Exception):
    pass


def _find_def(tree: ast.Module, qualname: str):
    parts = qualname.split(".")
    body = tree.body
    node = None
    for p in parts:
        if p == "<locals>":
            continue
        found = None
        stack = list(body)
        while stack:
            st = stack.pop(0)
            if isinstance(st, FuncNode + (ast.ClassDef,)) and st.name == p:
                found = st
                break
            if not isinstance(st, FuncNode + (ast.ClassDef,)):
                for fld in ("body", "orelse", "finalbody"):
                    stack.extend(getattr(st, fld, []) or [])
                for h in getattr(st, "handlers", []) or []:
                    stack.extend(h.body)
        if found is None:
            raise MutantNotApplicable("no %s in %s" % (p, qualname))
        node = found
        body = found.body
    return node


def mutate(repo: Repo, relpath: str, qualname: Optional[str], edit: Callable[[ast.AST], Optional[bool]]) -> Repo:
    """Apply ``edit`` (in place) to a copy of the function/class ``qualname`` of
    module ``relpath`` (or to the module tree when ``qualname`` is None).  ``edit``
    must return True when it changed something."""
    if not relpath.startswith("tornado/"):
        relpath = "tornado/" + relpath
    if relpath not in repo.modules:
        raise MutantNotApplicable("no module " + relpath)
    tree = copy.deepcopy(repo.modules[relpath].tree)
    target = _find_def(tree, qualname) if qualname else tree
    changed = edit(target)
    if not changed:
        raise MutantNotApplicable("edit did not apply to %s:%s" % (relpath, qualname))
    ast.fix_missing_locations(tree)
    try:
        compile(tree, relpath, "exec")
    except Exception as e:  # pragma: no cover
        raise MutantNotApplicable("mutant does not compile: %s" % e)
    return repo.with_module(relpath, tree=tree)


# -- small edit builders -----------------------------------------------------------


def remove_stmts(pred: Callable[[ast.stmt], bool], limit: int = 1):
    """Edit that removes the first ``limit`` statements satisfying ``pred``
    (replaced by ``pass`` when the block would become empty)."""

    def edit(root):
        n = 0
        for node in ast.walk(root):
            for fld in ("body", "orelse", "finalbody"):
                body = getattr(node, fld, None)
                if not isinstance(body, list):
                    continue
                i = 0
                while i < len(body):
                    if n < limit and isinstance(body[i], ast.stmt) and pred(body[i]):
                        n += 1
                        if len(body) == 1:
                            body[i] = ast.Pass()
                        else:
                            del body[i]
                            continue
                    i += 1
        return n > 0

    return edit


def replace_expr(pred: Callable[[ast.AST], bool], new: Callable[[ast.AST], ast.AST], limit: int = 1):
    def edit(root):
        cnt = [0]

        class T(ast.NodeTransformer):
            def generic_visit(self, node):
                node = super().generic_visit(node)
                if cnt[0] < limit and isinstance(node, ast.AST) and pred(node):
                    cnt[0] += 1
                    return ast.copy_location(new(node), node)
                return node

        for fld, val in ast.iter_fields(root):
            if isinstance(val, list):
                for i, x in enumerate(val):
                    if isinstance(x, ast.AST):
                        val[i] = T().visit(x)
            elif isinstance(val, ast.AST):
                setattr(root, fld, T().visit(val))
        return cnt[0] > 0

    return edit


def replace_stmt(pred: Callable[[ast.stmt], bool], new: Callable[[ast.stmt], List[ast.stmt]], limit: int = 1):
    def edit(root):
        n = 0
        for node in ast.walk(root):
            for fld in ("body", "orelse", "finalbody"):
                body = getattr(node, fld, None)
                if not isinstance(body, list):
                    continue
                i = 0
                while i < len(body):
                    if n < limit and isinstance(body[i], ast.stmt) and pred(body[i]):
                        rep = new(body[i])
                        for r in rep:
                            ast.copy_location(r, body[i])
                        body[i : i + 1] = rep
                        n += 1
                        i += len(rep)
                        continue
                    i += 1
        return n > 0

    return edit


def parse_stmt(src: str) -> ast.stmt:
    return ast.parse(src).body[0]


def parse_expr(src: str) -> ast.AST:
    return ast.parse(src, mode="eval").body
