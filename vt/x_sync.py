"""Shared helpers for the synchronisation-primitive properties (C33..C39).

* ``guard_models``   — exhaustive folding of the must-facts that mention only a
  given set of integer paths (the guard a site is under, as a set of models);
* ``container_uses`` — who-may-touch lint of one container attribute of a class
  family (every load of ``self.<attr>`` classified; unknown use = AnalysisError);
* ``exit_states``    — small wrapper around :func:`vt.cfg.explore` returning the
  states at the normal / exceptional exit;
* ``cancel_aware``   — rule r1/r2 of DESIGN.md A.1 for an outcome read;
* assorted AST predicates (``aug_delta``, ``lambda_calls`` …).

Nothing here looks at source text or positions.
"""
from __future__ import annotations

import ast
import itertools
from typing import Callable, Dict, FrozenSet, Iterable, List, Optional, Sequence, Set, Tuple

from . import q
from .cfg import CFG, Node, Fact, explore, must_facts, canon_fact
from .model import AnalysisError, FuncInfo, Repo

# ---------------------------------------------------------------------------
# folding guards


def _fact_expr(text: str) -> Optional[ast.AST]:
    try:
        return ast.parse(text, mode="eval").body
    except SyntaxError:
        return None


def guard_models(facts: Iterable[Fact], paths: Sequence[str], domain: Iterable[int]) -> Set[Tuple[int, ...]]:
    """All assignments of ``paths`` (over ``domain``) consistent with those facts
    that mention nothing but ``paths`` and constants.  Facts mentioning anything
    else are ignored (the result is then a superset of the real guard — safe
    for 'guard implies P' obligations, which can only become harder)."""
    dom = list(domain)
    usable = []
    pset = set(paths)
    for text, pol in facts:
        if text.startswith("@"):
            continue
        e = _fact_expr(text)
        if e is None or any(isinstance(n, (ast.Call, ast.Subscript, ast.Await)) for n in ast.walk(e)):
            continue
        mentioned = set()
        for n in ast.walk(e):
            if isinstance(n, ast.Attribute):
                d = q.dotted(n)
                if d:
                    mentioned.add(d)
            elif isinstance(n, ast.Name):
                mentioned.add(n.id)
        # keep maximal paths only (``self`` is a prefix of ``self._value``)
        maximal = {m for m in mentioned if not any(o != m and o.startswith(m + ".") for o in mentioned)}
        if not maximal or not maximal <= pset:
            continue
        usable.append((e, pol))
    out = set()
    for vals in itertools.product(dom, repeat=len(paths)):
        env = dict(zip(paths, vals))
        ok = True
        for e, pol in usable:
            try:
                if bool(q.fold(e, env)) != pol:
                    ok = False
                    break
            except q.NotFoldable:
                continue
        if ok:
            out.add(vals)
    return out


# ---------------------------------------------------------------------------
# small AST predicates


def aug_delta(st: ast.AST, path: str) -> Optional[int]:
    """+k / -k when ``st`` is ``path += k`` / ``path -= k`` / ``path = path ± k``
    with a literal k; None when ``st`` does not store to ``path``; raises
    AnalysisError for any other store to ``path``."""
    if not isinstance(st, (ast.Assign, ast.AugAssign, ast.AnnAssign, ast.Delete)):
        return None
    if path not in q.assigned_paths(st):
        return None
    if isinstance(st, ast.AugAssign) and q.dotted(st.target) == path and isinstance(st.value, ast.Constant) and type(st.value.value) is int:
        if isinstance(st.op, ast.Add):
            return st.value.value
        if isinstance(st.op, ast.Sub):
            return -st.value.value
    if isinstance(st, ast.Assign) and len(st.targets) == 1 and q.dotted(st.targets[0]) == path and isinstance(st.value, ast.BinOp):
        b = st.value
        if q.dotted(b.left) == path and isinstance(b.right, ast.Constant) and type(b.right.value) is int:
            if isinstance(b.op, ast.Add):
                return b.right.value
            if isinstance(b.op, ast.Sub):
                return -b.right.value
    raise AnalysisError("unrecognised store to %s: %s" % (path, q.unparse(st).split("\n")[0]))


def own_walk(fn: ast.AST):
    """All nodes of ``fn``'s own scope: like ``q.walk_body`` but a nested ``def``/
    ``class`` statement is yielded without being entered (``q.walk_local`` enters
    the root it is given, so ``walk_body`` does look inside nested definitions)."""
    stack = list(reversed(fn.body))
    while stack:
        n = stack.pop()
        yield n
        if isinstance(n, q.ScopeNode):
            continue
        stack.extend(reversed(list(ast.iter_child_nodes(n))))


def resolve_local(fi: FuncInfo, e: Optional[ast.AST]) -> Optional[ast.AST]:
    """If ``e`` is a local name bound exactly once in ``fi`` (plain assignment),
    the bound expression; otherwise ``e`` itself."""
    if isinstance(e, ast.Name) and e.id not in fi.params():
        defs = q.stores_to(fi.node, e.id)
        if len(defs) == 1 and isinstance(defs[0], (ast.Assign, ast.AnnAssign)) and defs[0].value is not None:
            return defs[0].value
    return e


def own_calls(fn: ast.AST):
    return [n for n in own_walk(fn) if isinstance(n, ast.Call)]


def own_find(fi: FuncInfo, pred: Callable[[ast.AST], bool]):
    """Like ``fi.cfg.find`` but never looks inside nested function/class
    definitions (``cfg.find`` descends into a ``def`` that is itself a statement
    node; the nested function has its own FuncInfo and is analysed separately)."""
    return [(n, x) for n, x in fi.cfg.find(pred) if not (n.kind == "stmt" and isinstance(n.ast, q.ScopeNode))]


def own_settle_sites(fi: FuncInfo, fut: Optional[str] = None):
    from .rules import settle_sites

    return [s for s in settle_sites(fi, fut) if not (s[0].kind == "stmt" and isinstance(s[0].ast, q.ScopeNode))]


def node_counts(fi: FuncInfo, pred: Callable[[ast.AST], bool]) -> Dict[int, int]:
    """cfg node id -> number of AST nodes in it satisfying ``pred`` (own scope)."""
    out: Dict[int, int] = {}
    for n, _x in own_find(fi, pred):
        out[n.id] = out.get(n.id, 0) + 1
    return out


def method_call_on(x: ast.AST, recv: str, *attrs: str) -> bool:
    return isinstance(x, ast.Call) and isinstance(x.func, ast.Attribute) and q.dotted(x.func.value) == recv and (not attrs or x.func.attr in attrs)


def lambda_or_func_body_calls(repo: Repo, fi: FuncInfo, e: ast.AST) -> List[ast.Call]:
    """Calls made when the callable expression ``e`` (a lambda, a nested def's
    name, or functools.partial(f, ..)) is invoked; [] if unknown."""
    if isinstance(e, ast.Lambda):
        return [c for c in ast.walk(e.body) if isinstance(c, ast.Call)]
    if isinstance(e, ast.Name):
        nf = resolve_callable_name(repo, fi, e.id)
        if nf is not None:
            return [c for c in own_walk(nf.node) if isinstance(c, ast.Call)]
    return []


def resolve_callable_name(repo: Repo, fi: FuncInfo, name: str) -> Optional[FuncInfo]:
    """The function a bare name denotes inside ``fi``: a nested def of ``fi`` itself, of one of its enclosing
    functions (closure scope chain, innermost first), or a module-level function of the same module — provided
    the name is not re-bound as a plain local on the way."""
    cur: Optional[FuncInfo] = fi
    while cur is not None:
        for nf in repo.nested(cur):
            if nf.name == name and nf.parent is cur and isinstance(nf.node, q.FuncNode):
                return nf
        if any(isinstance(st, (ast.Assign, ast.AnnAssign, ast.AugAssign)) and name in q.assigned_paths(st) for st in own_walk(cur.node)) or name in cur.params():
            return None
        cur = cur.parent
    f = fi.module.funcs.get(name)
    return f if f is not None and isinstance(f.node, q.FuncNode) else None


# ---------------------------------------------------------------------------
# container who-may-touch

READ_FUNCS = {"len", "bool", "list", "tuple", "sorted", "iter", "repr", "str", "deque", "set", "frozenset", "getattr", "reversed", "enumerate"}


class Use:
    __slots__ = ("fi", "node", "kind", "name", "call")

    def __init__(self, fi, node, kind, name=None, call=None):
        self.fi = fi
        self.node = node  # the ast node of the load / store
        self.kind = kind  # 'method' 'read' 'store' 'index'
        self.name = name  # method name for 'method'
        self.call = call


def container_uses(repo: Repo, relpath: str, classes: Sequence[str], attr: str, base: str = "self") -> List[Use]:
    """Every syntactic use of ``self.<attr>`` in the methods (and their nested
    functions/lambdas) of ``classes``.  A use that is neither a method call on
    it, a pure read (truth test, len(), iteration, comparison, formatting), a
    subscript read, nor a store raises AnalysisError (the container escapes)."""
    path = base + "." + attr
    out: List[Use] = []
    for cls in classes:
        for fi in repo.methods(relpath, cls):
            pm = q.parent_map(fi.node)
            for n in ast.walk(fi.node):
                if not (isinstance(n, ast.Attribute) and q.dotted(n) == path):
                    continue
                # only count nodes of this function's own scope + lambdas (nested defs are separate FuncInfos)
                owner = n
                in_nested_def = False
                while owner in pm and pm[owner] is not fi.node:
                    owner = pm[owner]
                    if isinstance(owner, q.FuncNode):
                        in_nested_def = True
                        break
                if in_nested_def:
                    continue
                if isinstance(n.ctx, (ast.Store, ast.Del)):
                    out.append(Use(fi, q.enclosing_stmt(pm, n), "store"))
                    continue
                p = pm.get(n)
                if isinstance(p, ast.Attribute) and p.value is n:
                    gp = pm.get(p)
                    if isinstance(gp, ast.Call) and gp.func is p:
                        out.append(Use(fi, gp, "method", p.attr, gp))
                        continue
                    raise AnalysisError("%s: attribute %s of %s used without a call" % (fi.site(n), p.attr, path))
                if isinstance(p, ast.Subscript) and p.value is n:
                    if isinstance(p.ctx, ast.Load):
                        out.append(Use(fi, p, "index"))
                        continue
                    out.append(Use(fi, q.enclosing_stmt(pm, n), "store"))
                    continue
                if isinstance(p, ast.Call) and n in p.args and (q.call_attr(p) in READ_FUNCS):
                    out.append(Use(fi, p, "read"))
                    continue
                if isinstance(p, (ast.If, ast.While, ast.IfExp)) and p.test is n:
                    out.append(Use(fi, n, "read"))
                    continue
                if isinstance(p, (ast.BoolOp, ast.UnaryOp, ast.Compare, ast.FormattedValue, ast.BinOp)):
                    out.append(Use(fi, n, "read"))
                    continue
                if isinstance(p, ast.comprehension) and p.iter is n:
                    out.append(Use(fi, n, "read"))
                    continue
                if isinstance(p, (ast.For,)) and p.iter is n:
                    out.append(Use(fi, n, "read"))
                    continue
                raise AnalysisError("%s: %s escapes (used in %s)" % (fi.site(n), path, type(p).__name__))
    return out


# ---------------------------------------------------------------------------
# exploration wrapper


def exit_states(cfg: CFG, init, transfer, track=None, edge_transfer=None, follow_exc=True, exc_effect=False):
    seen = explore(cfg, init, transfer, track or (lambda t: False), edge_transfer=edge_transfer, follow_exc=follow_exc, exc_effect=exc_effect)
    normal = sorted(seen.get(cfg.exit.id, ()), key=repr)
    exc = sorted(seen.get(cfg.rexit.id, ()), key=repr) if follow_exc else []
    return normal, exc


def reaches(cfg: CFG, src: Node, dst: Node, follow_exc: bool = True) -> bool:
    seen = {src.id}
    st = [src.id]
    while st:
        x = st.pop()
        if x == dst.id:
            return True
        for y, k in cfg.succ[x]:
            if k == "exc" and not follow_exc:
                continue
            if y not in seen:
                seen.add(y)
                st.append(y)
    return False


# ---------------------------------------------------------------------------
# cancel-aware outcome reads (DESIGN.md A.1 r1/r2)

CANCEL_CATCHERS = ("asyncio.CancelledError", "CancelledError", "BaseException", "concurrent.futures.CancelledError", "futures.CancelledError")


def handler_catches_cancel(h: ast.ExceptHandler) -> bool:
    return any(nm in CANCEL_CATCHERS for nm in q.handler_names(h))


def cancel_aware(fi: FuncInfo, call: ast.Call, facts: FrozenSet[Fact]) -> Tuple[bool, str]:
    """The outcome read ``F.result()`` / ``F.exception()`` at ``call`` cannot let a
    CancelledError escape un-handled: (r1) it sits in the body of a ``try`` with
    a handler naming CancelledError/BaseException (or bare), or (r2) the fact
    ``F.cancelled()`` is False on every path to it."""
    pm = q.parent_map(fi.node)
    for _try, handlers in q.enclosing_try_handlers(pm, call):
        for h in handlers:
            if handler_catches_cancel(h):
                return True, "r1: handler for %s" % "/".join(q.handler_names(h))
    recv = q.receiver(call) or (q.unparse(call.func.value) if isinstance(call.func, ast.Attribute) and not any(isinstance(x, ast.Call) for x in ast.walk(call.func.value)) else None)
    if recv and canon_fact(ast.parse("%s.cancelled()" % recv, mode="eval").body, False) in facts:
        return True, "r2: under not %s.cancelled()" % recv
    return False, "CancelledError (a BaseException) escapes: no handler for it and no cancelled() test"


# ---------------------------------------------------------------------------
# stable branch facts (for predicates whose truth cannot change without a
# suspension point or a rebinding, e.g. ``F.cancelled()`` of a finished future)


def stable_facts(cfg: CFG, wanted: Callable[[str], bool]) -> Dict[int, FrozenSet[Fact]]:
    """Forward must-analysis of branch facts whose canonical text satisfies
    ``wanted``.  Unlike :func:`vt.cfg.must_facts` a fact is killed only by a
    suspension point or by rebinding a name it mentions — not by method calls on
    the object (the predicates this is used for are immutable once the future
    is done, which is the case inside a done-callback)."""
    reach = cfg.reachable()
    IN: Dict[int, Optional[FrozenSet[Fact]]] = {n: None for n in reach}
    IN[cfg.entry.id] = frozenset()
    work = [cfg.entry.id]
    names_of: Dict[str, Set[str]] = {}

    def names(text):
        if text not in names_of:
            e = _fact_expr(text)
            names_of[text] = set() if e is None else q.paths_in(e)
        return names_of[text]

    while work:
        nid = work.pop()
        n = cfg.nodes[nid]
        cur = IN[nid]
        assigned: Set[str] = set()
        if n.ast is not None and n.kind == "stmt" and isinstance(n.ast, ast.stmt) and not isinstance(n.ast, q.ScopeNode):
            assigned = {a[:-2] if a.endswith("[]") else a for a in q.assigned_paths(n.ast)}
        elif n.ast is not None and n.kind == "for":
            assigned = {a for a in q.assigned_paths(ast.Assign(targets=[n.ast.target], value=ast.Constant(value=None)))}
        kept = frozenset(f for f in cur if not n.suspends and not (assigned & names(f[0])))
        for sid, kind in cfg.succ[nid]:
            out = kept
            if n.kind == "test" and kind in ("true", "false"):
                cf = canon_fact(n.ast, kind == "true")
                if wanted(cf[0]):
                    out = out | {cf}
            old = IN[sid]
            new = out if old is None else (old & out)
            if old is None or new != old:
                IN[sid] = new
                work.append(sid)
    return {k: (v if v is not None else frozenset()) for k, v in IN.items()}


def check_outcome_reads(ck, rule: str, fi: FuncInfo, skip_created: bool = True) -> int:
    """Rule r1/r2/r3 of DESIGN.md A.1 at every ``F.result()`` / ``F.exception()``
    in ``fi`` whose receiver is not a future created in ``fi``."""
    from .rules import event_created, event_facts

    def _recv(x):
        return q.dotted(x.func.value) or q.unparse(x.func.value)

    reads = own_find(fi, lambda x: isinstance(x, ast.Call) and isinstance(x.func, ast.Attribute) and x.func.attr in ("result", "exception") and not x.args and not x.keywords
                     and not (isinstance(x.func.value, ast.Call) and q.call_attr(x.func.value) == "super"))
    if not reads:
        return 0
    created = event_created(fi)
    stable = stable_facts(fi.cfg, lambda t: t.endswith(".cancelled()"))
    # r3: an earlier read of the same future completed without raising
    recvs = {_recv(c) for _, c in reads if q.dotted(c.func.value) is not None}

    def gen_for(r):
        return lambda nd: nd.ast is not None and nd.kind in ("stmt", "test") and not isinstance(nd.ast, q.ScopeNode) and any(
            isinstance(x, ast.Call) and isinstance(x.func, ast.Attribute) and x.func.attr in ("result", "exception") and q.dotted(x.func.value) == r for x in q.walk_local(nd.ast))

    ev = event_facts(fi, {"read:" + r: gen_for(r) for r in recvs},
                     {"read:" + r: (lambda nd, r=r: nd.suspends or (nd.kind == "stmt" and isinstance(nd.ast, ast.stmt) and r.split(".")[0] in q.assigned_paths(nd.ast))) for r in recvs}, cond_facts=False)
    n = 0
    for nd, c in reads:
        r = _recv(c)
        if skip_created and ("@created:" + r, True) in created[nd.id]:
            continue
        n += 1
        ok, why = cancel_aware(fi, c, stable[nd.id])
        if not ok and q.dotted(c.func.value) is not None and ("@read:" + r, True) in ev[nd.id]:
            ok, why = True, "r3: an earlier outcome read of %s on every path already returned (not cancelled)" % r
        ck.ob(rule, fi, c, ok, "outcome read %s.%s() of a future this function did not create must be cancel-aware — %s" % (r, c.func.attr, why))
    return n


# ---------------------------------------------------------------------------
# "None is not falsy": optional values whose legal non-None values may be falsy
# (timeout 0, a falsy exception object, an empty key list, a falsy awaitable)
# must be told apart from None by identity, never by truthiness.


def _truth_atoms(e: ast.AST):
    if isinstance(e, ast.BoolOp):
        for v in e.values:
            yield from _truth_atoms(v)
    elif isinstance(e, ast.UnaryOp) and isinstance(e.op, ast.Not):
        yield from _truth_atoms(e.operand)
    else:
        yield e


def truth_tested(fn: ast.AST):
    """Expressions of ``fn``'s own scope (lambdas included) whose *truth value* is
    taken: if/while/assert/ternary/comprehension conditions, operands of
    ``not``, and all but the last operand of a value-context and/or chain."""
    seen = set()
    out = []

    def add(e):
        for a in _truth_atoms(e):
            if id(a) not in seen:
                seen.add(id(a))
                out.append(a)

    def walk(n, top=True):
        for c in ast.iter_child_nodes(n):
            if isinstance(c, q.FuncNode + (ast.ClassDef,)):
                continue
            if isinstance(c, (ast.If, ast.While, ast.IfExp, ast.Assert)):
                add(c.test)
            elif isinstance(c, ast.comprehension):
                for i in c.ifs:
                    add(i)
            elif isinstance(c, ast.UnaryOp) and isinstance(c.op, ast.Not):
                add(c.operand)
            elif isinstance(c, ast.BoolOp):
                for v in c.values[:-1]:
                    add(v)
            walk(c, False)

    walk(fn)
    return out


def optional_names(fi: FuncInfo, extra: Optional[Dict[str, str]] = None) -> Dict[str, str]:
    """name -> why it is Optional-with-falsy-legal-values in ``fi``: parameters whose
    default is None or whose annotation admits None; locals that are bound to None
    somewhere and to something else elsewhere; locals bound to ``X.exception()``;
    the same for the enclosing functions (closure variables); plus ``extra``."""
    out: Dict[str, str] = {}
    cur: Optional[FuncInfo] = fi
    while cur is not None:
        a = cur.node.args
        pos = a.posonlyargs + a.args
        defaults = [None] * (len(pos) - len(a.defaults)) + list(a.defaults)
        for arg, d in list(zip(pos, defaults)) + list(zip(a.kwonlyargs, a.kw_defaults)):
            ann = q.unparse(arg.annotation) if arg.annotation is not None else ""
            if (d is not None and q.is_const(d, None)) or "None" in ann or "Optional" in ann:
                if "bool" in ann and "None" not in ann:
                    continue
                out.setdefault(arg.arg, "parameter of %s that may be None" % cur.qualname)
        stores: Dict[str, List[ast.AST]] = {}
        for st in own_walk(cur.node):
            if isinstance(st, (ast.Assign, ast.AnnAssign)) and getattr(st, "value", None) is not None:
                tg = st.targets if isinstance(st, ast.Assign) else [st.target]
                for t in tg:
                    if isinstance(t, ast.Name):
                        stores.setdefault(t.id, []).append(st.value)
                    elif isinstance(t, ast.Tuple) and isinstance(st.value, ast.Tuple) and len(t.elts) == len(st.value.elts):
                        for te, ve in zip(t.elts, st.value.elts):
                            if isinstance(te, ast.Name):
                                stores.setdefault(te.id, []).append(ve)
        for nm, vals in stores.items():
            if any(q.is_const(v, None) for v in vals) and any(not q.is_const(v, None) for v in vals):
                out.setdefault(nm, "local of %s bound to None on some paths" % cur.qualname)
            if any(isinstance(v, ast.Call) and isinstance(v.func, ast.Attribute) and v.func.attr == "exception" and not v.args for v in vals):
                out.setdefault(nm, "result of .exception() (None or an exception object, which may be falsy)")
        for n_ in own_walk(cur.node):
            if isinstance(n_, ast.NamedExpr) and isinstance(n_.target, ast.Name) and isinstance(n_.value, ast.Call) and isinstance(n_.value.func, ast.Attribute) and n_.value.func.attr == "exception" and not n_.value.args:
                out.setdefault(n_.target.id, "result of .exception() (None or an exception object, which may be falsy)")
        # `except E as e: x = e` / else: x = None is covered by the None-store rule above
        cur = cur.parent
    for k, v in (extra or {}).items():
        out[k] = v
    return out


def check_none_tests(ck, rule: str, fi: FuncInfo, extra: Optional[Dict[str, str]] = None, only: Optional[Iterable[str]] = None) -> int:
    """Every test that separates None from a value, on an optional name of
    ``fi``, uses identity; a truthiness test is a violation.  Returns the number
    of governed tests (identity + truthiness)."""
    names = optional_names(fi, extra)
    if only is not None:
        names = {k: v for k, v in names.items() if k in set(only)}
    n = 0
    for a in truth_tested(fi.node):
        if isinstance(a, ast.Name) and a.id in names:
            n += 1
            ck.ob(rule, fi, a, False, "`%s` (%s) is tested by truthiness; a legal falsy value (0, empty, falsy object) would be treated like None — test `is None` / `is not None`" % (a.id, names[a.id]),
                  construct="truthiness of %s" % a.id)
        elif isinstance(a, ast.Compare) and len(a.ops) == 1 and isinstance(a.ops[0], (ast.Is, ast.IsNot)) and isinstance(a.left, ast.Name) and a.left.id in names and q.is_const(a.comparators[0], None):
            n += 1
            ck.ob(rule, fi, a, True, "`%s` is told apart from None by identity" % a.left.id)
        elif isinstance(a, ast.Compare) and len(a.ops) == 1 and isinstance(a.ops[0], (ast.Is, ast.IsNot)) and isinstance(a.left, ast.NamedExpr) and isinstance(a.left.target, ast.Name) and a.left.target.id in names and q.is_const(a.comparators[0], None):
            n += 1
            ck.ob(rule, fi, a, True, "`%s` is told apart from None by identity" % a.left.target.id)
        elif isinstance(a, ast.NamedExpr) and isinstance(a.target, ast.Name) and a.target.id in names:
            n += 1
            ck.ob(rule, fi, a, False, "`%s` (%s) is tested by truthiness; a legal falsy value would be treated like None — test `is None` / `is not None`" % (a.target.id, names[a.target.id]),
                  construct="truthiness of %s" % a.target.id)
    return n


def in_cycle(cfg: CFG, node: Node, follow_exc: bool = False) -> bool:
    """``node`` can reach itself again (it is inside a loop that really iterates)."""
    seen = set()
    st = [y for y, k in cfg.succ[node.id] if follow_exc or k != "exc"]
    while st:
        x = st.pop()
        if x == node.id:
            return True
        if x in seen:
            continue
        seen.add(x)
        st.extend(y for y, k in cfg.succ[x] if follow_exc or k != "exc")
    return False


def callable_cfg(repo: Repo, fi: FuncInfo, e: ast.AST):
    """CFG of what runs when the callable expression ``e`` is invoked: a nested def of ``fi`` (by name) or a lambda
    (its body turned into statements, conditional expressions into if-statements).  None if unknown."""
    from .cfg import build
    if isinstance(e, ast.Name):
        nf = resolve_callable_name(repo, fi, e.id)
        return nf.cfg if nf is not None else None
    if isinstance(e, ast.Lambda):
        def stmts(x):
            if isinstance(x, ast.IfExp):
                return [ast.copy_location(ast.If(test=x.test, body=stmts(x.body), orelse=stmts(x.orelse)), x)]
            if isinstance(x, ast.BoolOp) and len(x.values) >= 2:
                # `a or b`: b runs only when a is falsy; `a and b`: only when a is truthy
                rest = x.values[1] if len(x.values) == 2 else ast.copy_location(ast.BoolOp(op=x.op, values=x.values[1:]), x)
                if isinstance(x.op, ast.Or):
                    return [ast.copy_location(ast.If(test=x.values[0], body=[ast.copy_location(ast.Pass(), x)], orelse=stmts(rest)), x)]
                return [ast.copy_location(ast.If(test=x.values[0], body=stmts(rest), orelse=[]), x)]
            return [ast.copy_location(ast.Expr(value=x), x)]
        fn = ast.FunctionDef(name="<lambda>", args=e.args, body=stmts(e.body), decorator_list=[], returns=None, type_comment=None, type_params=[])
        ast.copy_location(fn, e)
        ast.fix_missing_locations(fn)
        return build(fn)
    return None


# ---------------------------------------------------------------------------
# nullness correlation for path-sensitive typestates
#
# Refactorings hoist code out of branches and re-test a local instead (`getter = None ... if getter is not None:`).
# explore() forks on every test; without knowing that `getter` is None exactly on the paths that did not pop, the
# infeasible combinations look like violations.  This wrapper carries, next to the rule's own abstract value, what is
# known about locals that were bound to None or to an element taken from a waiter container, and prunes the branches
# of `x is None` / `x is not None` / `x` / `not x` tests that contradict it.

NONNULL_TAKERS = {"popleft", "pop", "popitem", "heappop"}


def _binding_kind(value: ast.AST) -> Optional[str]:
    if isinstance(value, ast.Constant) and value.value is None:
        return "none"
    if isinstance(value, ast.Call):
        nm = q.call_attr(value)
        if nm in NONNULL_TAKERS:
            return "obj"  # assumption: the waiter containers hold future objects / (item, future) entries, never None
        if nm in ("Future", "_create_future", "create_future"):
            return "obj"
    return None


def with_nullness(init, transfer, edge_transfer=None):
    """Returns (init', transfer', edge') to hand to explore()/exit_states(); the rule's value is ``v[0]``."""

    def tr(nd, v):
        val, known = v
        res = transfer(nd, val)
        if res is None:
            return None
        if nd.kind == "stmt" and isinstance(nd.ast, (ast.Assign, ast.AnnAssign)) and getattr(nd.ast, "value", None) is not None:
            tgs = nd.ast.targets if isinstance(nd.ast, ast.Assign) else [nd.ast.target]
            k = dict(known)
            for t in tgs:
                if isinstance(t, ast.Name):
                    kind = _binding_kind(nd.ast.value)
                    if kind is None and isinstance(nd.ast.value, ast.Name) and nd.ast.value.id in k:
                        kind = k[nd.ast.value.id]
                    if kind is None:
                        k.pop(t.id, None)
                    else:
                        k[t.id] = kind
                elif isinstance(t, (ast.Tuple, ast.List)):
                    for e in t.elts:
                        if isinstance(e, ast.Name):
                            k.pop(e.id, None)
            known = frozenset(k.items())
        elif nd.kind == "for":
            k = dict(known)
            for e in ast.walk(nd.ast.target):
                if isinstance(e, ast.Name):
                    k.pop(e.id, None)
            known = frozenset(k.items())
        if isinstance(res, list):
            return [(r, known) for r in res]
        return (res, known)

    def ed(nd, kind, v):
        val, known = v
        if nd.kind == "test" and kind in ("true", "false"):
            t, pol = canon_fact(nd.ast, kind == "true")
            k = dict(known)
            name = None
            isnone = None
            if t.endswith(" is None") and t[:-8].isidentifier():
                name, isnone = t[:-8], pol
            elif t.isidentifier():
                name, isnone = t, (False if pol else None)  # truthy => not None; falsy says nothing certain about objects...
                if not pol and k.get(t) == "obj":
                    isnone = None
                if not pol and k.get(t) == "none":
                    isnone = True
            if name is not None and name in k and isnone is not None:
                if (k[name] == "none") != isnone:
                    return None
            if name is not None and t.isidentifier() and not pol and k.get(name) == "obj":
                # `if not x` on a future object taken from the container: futures are truthy
                return None
        if edge_transfer is not None:
            val = edge_transfer(nd, kind, val)
            if val is None:
                return None
        return (val, known)

    return (init, frozenset()), tr, ed


def allowed_closure(repo: Repo, relpath: str, base_allowed: Iterable[str]) -> Set[str]:
    """Who-may-write / who-may-call sets closed over helpers: a *private* function of the module (method or module-level
    function, not nested) is allowed when it has at least one caller in the module and every caller is allowed (fixpoint).
    ``repo`` must be the un-normalised model (the normaliser inlines such helpers, so their call sites vanish there).
    Returns the qualnames (top-level functions/methods) that are allowed."""
    m = repo.module(relpath)
    allowed = set(base_allowed)
    tops = {qn: fi for qn, fi in m.funcs.items() if ".<locals>." not in qn and isinstance(fi.node, q.FuncNode)}

    def top_of(fi):
        while fi.parent is not None:
            fi = fi.parent
        return fi.qualname

    callers: Dict[str, Set[str]] = {}
    for qn, fi in m.funcs.items():
        if not isinstance(fi.node, q.FuncNode):
            continue
        for n in ast.walk(fi.node):
            if isinstance(n, ast.Attribute) and isinstance(n.ctx, ast.Load):
                callers.setdefault(n.attr, set()).add(top_of(fi))
            elif isinstance(n, ast.Name) and isinstance(n.ctx, ast.Load):
                callers.setdefault(n.id, set()).add(top_of(fi))
    changed = True
    while changed:
        changed = False
        for qn, fi in tops.items():
            if qn in allowed:
                continue
            nm = fi.name
            if not (nm.startswith("_") and not (nm.startswith("__") and nm.endswith("__"))):
                continue
            cs = {c for c in callers.get(nm, set()) if c != qn}
            if cs and cs <= allowed:
                allowed.add(qn)
                changed = True
    return allowed
