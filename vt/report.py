"""Check context: obligations, violations, known findings, evidence, exit codes."""
from __future__ import annotations

import ast
import json
import os
import time
from typing import Dict, List, Optional

from .model import AnalysisError, FuncInfo, Repo
from . import q

VERIF = os.path.dirname(os.path.dirname(os.path.abspath(__file__)))
KNOWN_FILE = os.path.join(VERIF, "known_findings.json")


def load_known() -> List[dict]:
    """Known findings: /verif/known_findings.json plus /verif/known/*.json
    (read-only at run time; never written by a check)."""
    files = []
    if os.path.exists(KNOWN_FILE):
        files.append(KNOWN_FILE)
    kd = os.path.join(VERIF, "known")
    if os.path.isdir(kd):
        files.extend(os.path.join(kd, f) for f in sorted(os.listdir(kd)) if f.endswith(".json"))
    out: List[dict] = []
    for fn in files:
        with open(fn) as f:
            data = json.load(f)
        out.extend(data.get("findings", []))
    return out


class Violation:
    def __init__(self, pid, rule, fi: Optional[FuncInfo], node, construct, message, path=None, file=None):
        self.pid = pid
        self.rule = rule
        self.file = fi.file if fi is not None else (file or "?")
        self.func = fi.qualname if fi is not None else "<module>"
        self.line = getattr(node, "lineno", None) if node is not None else (fi.node.lineno if fi is not None else None)
        self.construct = construct
        self.message = message
        self.path = path or []

    @property
    def key(self) -> str:
        return "|".join([self.pid, self.rule, self.file, self.func, self.construct])

    def as_dict(self):
        return {
            "property": self.pid, "rule": self.rule, "file": self.file, "function": self.func, "line": self.line,
            "construct": self.construct, "message": self.message, "path": self.path, "key": self.key,
        }


class Check:
    def __init__(self, pid: str, repo: Repo, tier: str = "quick", quiet: bool = False):
        self.pid = pid
        self.repo = repo
        self.tier = tier
        self.quiet = quiet
        self.t0 = time.time()
        self.obligations: List[dict] = []
        self.violations: List[Violation] = []
        self.rules: Dict[str, str] = {}
        self.notes: List[str] = []
        self.assumptions: List[str] = []
        self.functions = set()
        self.mutants: List[dict] = []
        self.explanation = ""
        self.na_part = ""

    # -- declaring rules ------------------------------------------------------
    def rule(self, rid: str, text: str):
        self.rules[rid] = text

    def use(self, fi: FuncInfo) -> FuncInfo:
        self.functions.add("%s:%s" % (fi.file, fi.qualname))
        return fi

    def func(self, relpath: str, qualname: str) -> FuncInfo:
        return self.use(self.repo.func(relpath, qualname))

    def note(self, text: str):
        self.notes.append(text)

    def assume(self, text: str):
        if text not in self.assumptions:
            self.assumptions.append(text)

    # -- obligations ------------------------------------------------------------
    def ob(self, rule: str, fi: Optional[FuncInfo], node, ok: bool, what: str, construct: Optional[str] = None, path=None, file=None) -> bool:
        """Record one obligation.  ``node`` is the AST node of the governed site;
        ``what`` says what was required.  A failed obligation is a violation keyed
        by (property, rule, file, function, normalised construct)."""
        if rule not in self.rules:
            raise AnalysisError("rule %s used but not declared" % rule)
        site = fi.site(node) if fi is not None else "%s:%s" % (file or "?", getattr(node, "lineno", "?"))
        rec = {"rule": rule, "site": site, "what": what, "status": "ok" if ok else "VIOLATED"}
        self.obligations.append(rec)
        if fi is not None:
            self.use(fi)
        if not ok:
            if construct is None:
                if node is not None and isinstance(node, ast.AST):
                    locs = q.local_names(fi.node) if fi is not None and hasattr(fi.node, "args") else None
                    try:
                        construct = q.normalize_construct(node, locs)
                    except Exception:
                        construct = q.unparse(node)
                    construct = construct.split("\n")[0][:200]
                else:
                    construct = what
            self.violations.append(Violation(self.pid, rule, fi, node, construct, what, path, file))
        return ok

    def floor(self, rule: str, count: int, minimum: int, what: str):
        """Instance floor: a rule that matched fewer sites than were confirmed by
        reading is an analysis failure, not a pass."""
        if count < minimum:
            raise AnalysisError("rule %s matched %d %s, expected at least %d (anchor drifted?)" % (rule, count, what, minimum))

    def need(self, cond, msg: str):
        if not cond:
            raise AnalysisError(msg)
        return cond

    # -- finishing ----------------------------------------------------------------
    def finish(self, status_override: Optional[str] = None, error: Optional[str] = None) -> int:
        known = [k for k in load_known() if k.get("property") == self.pid]
        known_open = {k["key"]: k for k in known if k.get("status") == "known"}
        new = []
        listed = []
        seen_keys = set()
        for v in self.violations:
            if v.key in seen_keys:
                continue
            seen_keys.add(v.key)
            if v.key in known_open:
                listed.append(v)
            else:
                new.append(v)
        out_lines = []
        for v in listed:
            out_lines.append("KNOWN-FINDING: property=%s %s [%s:%s %s]" % (self.pid, known_open[v.key].get("title", v.message), v.file, v.line, v.func))
        replay_dir = os.path.join(VERIF, "evidence", "replay")
        if new:
            os.makedirs(replay_dir, exist_ok=True)
        for i, v in enumerate(new):
            rp = os.path.join(replay_dir, "%s-%d.json" % (self.pid, i))
            with open(rp, "w") as f:
                json.dump({"violation": v.as_dict(), "rule_text": self.rules.get(v.rule, ""), "root": self.repo.root}, f, indent=1)
            out_lines.append("VIOLATION property=%s replay=%s" % (self.pid, rp))
            out_lines.append("  rule %s at %s:%s in %s: %s" % (v.rule, v.file, v.line, v.func, v.message))
            out_lines.append("  construct: %s" % v.construct)
        if error:
            out_lines.append("ANALYSIS-ERROR property=%s %s" % (self.pid, error))
        # a violation that was established stays a violation even if a later rule could not be decided
        code = 1 if new else (2 if error else 0)
        self.write_evidence(len(new), len(listed), error)
        if not self.quiet:
            nob = len(self.obligations)
            nok = sum(1 for o in self.obligations if o["status"] == "ok")
            print("%s [%s] rules=%d functions=%d obligations=%d discharged=%d known=%d new=%d %.2fs" % (
                self.pid, self.tier, len(self.rules), len(self.functions), nob, nok, len(listed), len(new), time.time() - self.t0))
            if self.mutants:
                st = [m.get("status", "") for m in self.mutants]
                print("%s mutants: %d run, %d reported as violation, %d fail-closed (analysis-error), %d not-applicable on this tree, %d MISSED" % (
                    self.pid, len(st), sum(x.startswith("reported") for x in st), sum(x.startswith("analysis-error") for x in st),
                    sum(x.startswith("not-applicable") for x in st), sum(1 for m in self.mutants if not m["caught"])))
            for m in self.mutants:
                if not m["caught"]:
                    print("MUTANT-MISSED property=%s %s" % (self.pid, m["name"]))
            for l in out_lines:
                print(l)
        return code

    def write_evidence(self, n_new: int, n_known: int, error: Optional[str]):
        nob = len(self.obligations)
        nok = sum(1 for o in self.obligations if o["status"] == "ok")
        distinct = len({(o["rule"], o["site"], o["what"]) for o in self.obligations})
        samples = []
        seen_rules = set()
        for o in self.obligations:
            if o["rule"] not in seen_rules:
                seen_rules.add(o["rule"])
                samples.append(o)
        per_rule: Dict[str, Dict[str, int]] = {}
        for o in self.obligations:
            d = per_rule.setdefault(o["rule"], {"obligations": 0, "discharged": 0})
            d["obligations"] += 1
            d["discharged"] += o["status"] == "ok"
        cov = {
            "explanation": self.explanation or "static structural analysis of the anchored functions; see rules",
            "not_decided": self.na_part,
            "evaluations": nob,
            "distinct_nontrivial": distinct,
            "rule": "one evaluation = one obligation (rule instance at a concrete site of /repo's current source); distinct = distinct (rule, site, requirement) triples; vacuous rules are excluded by instance floors",
            "obligations": nob,
            "discharged": nok,
            "samples": samples[:40],
            "rules": self.rules,
            "per_rule": per_rule,
            "functions_analysed": sorted(self.functions),
            "modules_parsed": len(self.repo.modules),
            "all_obligations": self.obligations if len(self.obligations) <= 400 else self.obligations[:400],
            "known_findings_matched": n_known,
            "notes": self.notes,
            "source_digest": self.repo.digest(),
        }
        if self.mutants:
            cov["mutants_run"] = len(self.mutants)
            cov["mutants_caught"] = sum(1 for m in self.mutants if m["caught"])
            cov["mutants"] = self.mutants
        if error:
            cov["analysis_error"] = error
        ev = {
            "property_id": self.pid,
            "tier": self.tier,
            "seed": int(os.environ.get("VERIF_SEED", "0") or 0),
            "level": "other",
            "coverage": cov,
            "assumptions": self.assumptions,
            "wall_s": round(time.time() - self.t0, 3),
            "violations": n_new,
        }
        if self.quiet or os.environ.get("VERIF_NO_EVIDENCE"):
            return  # scratch-root runs of the seeded corpus must not overwrite the evidence of /repo
        os.makedirs(os.path.join(VERIF, "evidence"), exist_ok=True)
        with open(os.path.join(VERIF, "evidence", "%s.json" % self.pid), "w") as f:
            json.dump(ev, f, indent=1, default=str)
