"""Shared helpers for the security rules of C23 / C24 / C26 (new file, builder g9).

* :class:`Reach` - reaching definitions on the statement CFG (flow-sensitive,
  exception edges included) and *expansion* of an expression through unique
  reaching definitions, so that rules can talk about what a value **is**
  (``_create_signature_v2(secret, value[:-len(<5th field of _decode_fields_v2(value)>)])``)
  instead of what a local happens to be called.
* :func:`linear` / :func:`fact_geq0` - linear normal form of order comparisons,
  so that ``ts < clock() - age * 86400`` (false), ``clock() - age * 86400 <= ts``
  (true) and ``not ts + age * 86400 < clock()`` are the same fact.
* :class:`Escapes` - exception-escape sites of a function against a frozen raise
  model (conversions of tainted text, tuple unpacking, lookups, explicit
  ``raise``/``assert``, calls into other analysed functions); an unmodelled
  callee is an :class:`AnalysisError`, never silently ignored.

Nothing here imports or runs tornado.
"""
from __future__ import annotations

import ast
import copy
from typing import Callable, Dict, FrozenSet, Iterable, List, Optional, Sequence, Set, Tuple

from . import q
from .cfg import CFG, Node, _node_roots, canon_fact, must_facts
from .model import AnalysisError, FuncInfo, Repo
from .rules import tainted_names, mentions

FuncNode = (ast.FunctionDef, ast.AsyncFunctionDef)


# ---------------------------------------------------------------------------
# reaching definitions


class Def:
    __slots__ = ("id", "path", "kind", "value", "index", "arity", "node", "op")

    def __init__(self, id, path, kind, value=None, index=None, arity=None, node=None, op=None):
        self.id = id
        self.path = path
        self.kind = kind  # param assign unpack aug iter with exc del def other
        self.value = value
        self.index = index
        self.arity = arity
        self.node = node  # cfg node (None for params)
        self.op = op

    def __repr__(self):
        return "<Def %s %s %s>" % (self.path, self.kind, q.unparse(self.value)[:40] if self.value is not None else "")


def _bind(target, value, out, kind="assign"):
    """Append (path, kind, value, index, arity) for a binding of ``target``."""
    if isinstance(target, (ast.Tuple, ast.List)):
        n = len(target.elts)
        if isinstance(value, (ast.Tuple, ast.List)) and len(value.elts) == n and not any(isinstance(e, ast.Starred) for e in list(value.elts) + list(target.elts)):
            for t, v in zip(target.elts, value.elts):
                _bind(t, v, out, kind)
            return
        for i, t in enumerate(target.elts):
            if isinstance(t, ast.Starred):
                _bind_other(t.value, out)
            elif isinstance(t, (ast.Tuple, ast.List)):
                _bind_other(t, out)
            else:
                d = q.dotted(t)
                if d:
                    out.append((d, "unpack" if kind == "assign" else kind, value, i, n))
        return
    if isinstance(target, ast.Starred):
        _bind_other(target.value, out)
        return
    d = q.dotted(target)
    if d:
        out.append((d, kind, value, None, None))


def _bind_other(target, out):
    for x in ast.walk(target):
        if isinstance(x, (ast.Name, ast.Attribute)):
            d = q.dotted(x)
            if d and isinstance(getattr(x, "ctx", None), ast.Store):
                out.append((d, "other", None, None, None))


def node_defs(n: Node) -> List[tuple]:
    out: List[tuple] = []
    if n.ast is None:
        return out
    if n.kind == "for":
        _bind(n.ast.target, n.ast.iter, out, "iter")
        roots = [n.ast.iter]
    elif n.kind == "with":
        for it in n.ast.items:
            if it.optional_vars is not None:
                _bind(it.optional_vars, it.context_expr, out, "with")
        roots = [it.context_expr for it in n.ast.items]
    elif n.kind == "handler":
        if n.ast.name:
            out.append((n.ast.name, "exc", None, None, None))
        return out
    elif n.kind in ("stmt", "test"):
        st = n.ast
        roots = [st]
        if isinstance(st, ast.Assign):
            for t in st.targets:
                _bind(t, st.value, out)
        elif isinstance(st, ast.AnnAssign):
            if st.value is not None:
                _bind(st.target, st.value, out)
        elif isinstance(st, ast.AugAssign):
            d = q.dotted(st.target)
            if d:
                out.append((d, "aug", st.value, None, None))
                out[-1] = (d, "aug", st.value, None, st.op)
        elif isinstance(st, ast.Delete):
            for t in st.targets:
                d = q.dotted(t)
                if d:
                    out.append((d, "del", None, None, None))
        elif isinstance(st, (ast.Import, ast.ImportFrom)):
            for a in st.names:
                out.append(((a.asname or a.name).split(".")[0], "other", None, None, None))
        elif isinstance(st, FuncNode + (ast.ClassDef,)):
            out.append((st.name, "def", None, None, None))
            return out
    else:
        return out
    for root in roots:
        for x in q.walk_local(root):
            if isinstance(x, ast.NamedExpr):
                _bind(x.target, x.value, out)
    return out


class Reach:
    """Reaching definitions of ``fi`` (own scope).  ``at(node)`` gives, for the
    program point just *before* the CFG node, path -> set of Def."""

    def __init__(self, fi: FuncInfo, cfg: Optional[CFG] = None):
        self.fi = fi
        self.cfg = cfg or fi.cfg
        self.defs: List[Def] = []
        self.params: Set[str] = set()
        entry: Dict[str, FrozenSet[int]] = {}
        for p in fi.params():
            d = Def(len(self.defs), p, "param")
            self.defs.append(d)
            entry[p] = frozenset([d.id])
            self.params.add(p)
        gen: Dict[int, List[Def]] = {}
        for n in self.cfg.nodes:
            g = []
            for path, kind, value, index, arity_or_op in node_defs(n):
                d = Def(len(self.defs), path, kind, value, index, arity_or_op if kind != "aug" else None, n, arity_or_op if kind == "aug" else None)
                self.defs.append(d)
                g.append(d)
            if g:
                gen[n.id] = g
        reach = self.cfg.reachable()
        IN: Dict[int, Dict[str, FrozenSet[int]]] = {self.cfg.entry.id: entry}
        work = [self.cfg.entry.id]
        while work:
            nid = work.pop()
            cur = IN[nid]
            out = cur
            g = gen.get(nid)
            if g:
                out = dict(cur)
                for d in g:
                    out[d.path] = frozenset([d.id])
                # two defs of the same path in one node (a, a = ...) keep the last
                out_exc = dict(cur)
                for d in g:
                    out_exc[d.path] = out_exc.get(d.path, frozenset()) | {d.id}
            else:
                out_exc = cur
            for sid, kind in self.cfg.succ[nid]:
                if sid not in reach:
                    continue
                src = out_exc if kind == "exc" else out
                old = IN.get(sid)
                if old is None:
                    IN[sid] = dict(src)
                    work.append(sid)
                    continue
                changed = False
                for p, s in src.items():
                    o = old.get(p)
                    if o is None:
                        old[p] = s
                        changed = True
                    elif not s <= o:
                        old[p] = o | s
                        changed = True
                if changed:
                    work.append(sid)
        self.IN = IN
        self._astmap: Optional[Dict[int, List[Node]]] = None

    def at(self, node: Node) -> Dict[str, List[Def]]:
        return {p: [self.defs[i] for i in sorted(s)] for p, s in self.IN.get(node.id, {}).items()}

    def defs_at(self, node: Node, path: str) -> List[Def]:
        s = self.IN.get(node.id, {}).get(path)
        return [self.defs[i] for i in sorted(s)] if s else []

    def unique(self, node: Node, path: str) -> Optional[Def]:
        ds = self.defs_at(node, path)
        return ds[0] if len(ds) == 1 else None

    # -- ast node -> cfg node -------------------------------------------------------
    def cfg_nodes_of(self, astnode: ast.AST) -> List[Node]:
        if self._astmap is None:
            m: Dict[int, List[Node]] = {}
            for n in self.cfg.stmt_nodes():
                for root in _node_roots(n):
                    for x in q.walk_local(root):
                        m.setdefault(id(x), []).append(n)
            self._astmap = m
        return self._astmap.get(id(astnode), [])

    # -- expansion ----------------------------------------------------------------------
    def expand(self, expr: ast.AST, at: Node, depth: int = 16, _stack: Tuple[int, ...] = ()) -> ast.AST:
        """A copy of ``expr`` in which every local path with exactly one reaching
        definition (plain assignment or tuple-unpack position) at ``at`` is
        replaced by that definition's value, recursively (relative to the
        defining node).  Tuple-unpack positions become ``__unpack__(value, i,
        arity)``.  Parameters stay as plain names; names that cannot be resolved
        uniquely are renamed ``name@phi`` (several definitions) or ``name@kind``
        so they can never be mistaken for a parameter."""

        def rec(e: ast.AST) -> ast.AST:
            if isinstance(e, (ast.Name, ast.Attribute)):
                d = q.dotted(e)
                if d is not None and isinstance(getattr(e, "ctx", ast.Load()), ast.Load):
                    ds = self.defs_at(at, d)
                    if not ds and isinstance(e, ast.Attribute):
                        try:
                            return ast.Constant(value=scalar_const(self.fi.module, self.fi.cls, e))  # class-level scalar constant
                        except KeyError:
                            pass
                        return ast.Attribute(value=rec(e.value), attr=e.attr, ctx=ast.Load())
                    if not ds:
                        mv = getattr(self.fi.module, "assigns", {}).get(e.id)
                        if mv is not None and e.id not in self.params:
                            try:
                                cv = q.fold(mv, {})
                                if isinstance(cv, (int, float, bytes, str)) and not isinstance(cv, bool):
                                    return ast.Constant(value=cv)  # module-level scalar constant
                            except q.NotFoldable:
                                pass
                            if isinstance(mv, (ast.Tuple, ast.List)) and mv.elts and all(isinstance(x, ast.Constant) for x in mv.elts):
                                return copy.deepcopy(mv)  # module-level table of constants
                        return ast.Name(id=e.id, ctx=ast.Load())  # global / builtin / closure
                    if len(ds) > 1:
                        return ast.Name(id=d + "@phi", ctx=ast.Load())
                    df = ds[0]
                    if df.kind in ("param", "def"):
                        return ast.Name(id=d, ctx=ast.Load())
                    if df.kind in ("assign", "unpack") and df.value is not None and depth > 0 and df.id not in _stack:
                        v = self.expand(df.value, df.node, depth - 1, _stack + (df.id,))
                        if df.kind == "unpack":
                            return ast.Call(func=ast.Name(id="__unpack__", ctx=ast.Load()), args=[v, ast.Constant(value=df.index), ast.Constant(value=df.arity)], keywords=[])
                        return v
                    return ast.Name(id="%s@%s" % (d, df.kind), ctx=ast.Load())
                if isinstance(e, ast.Attribute):
                    return ast.Attribute(value=rec(e.value), attr=e.attr, ctx=ast.Load())
                return copy.deepcopy(e)
            if isinstance(e, (ast.Lambda,) + FuncNode + (ast.ClassDef,)):
                return copy.deepcopy(e)
            new = copy.copy(e)
            for fld, val in ast.iter_fields(e):
                if isinstance(val, list):
                    setattr(new, fld, [rec(x) if isinstance(x, ast.AST) else x for x in val])
                elif isinstance(val, ast.AST):
                    setattr(new, fld, rec(val))
            if isinstance(new, ast.Subscript) and isinstance(new.value, (ast.Tuple, ast.List)) and isinstance(new.slice, ast.Constant) and isinstance(new.slice.value, int) and not isinstance(new.slice.value, bool) \
                    and all(isinstance(x, ast.Constant) for x in new.value.elts) and -len(new.value.elts) <= new.slice.value < len(new.value.elts):
                return new.value.elts[new.slice.value]  # constant element of a constant table
            return new

        return rec(expr)

    def expand_text(self, text: str, at: Node) -> ast.AST:
        return self.expand(ast.parse(text, mode="eval").body, at)


def own_nodes(fn: ast.AST):
    """All nodes of a function body, own scope only (unlike ``q.walk_body`` a
    nested def that is itself a top-level statement of the body is not entered)."""
    for st in fn.body:
        if isinstance(st, FuncNode + (ast.ClassDef,)):
            yield st
            continue
        yield from q.walk_local(st)


def is_unpack(e: ast.AST) -> Optional[Tuple[ast.AST, int, int]]:
    if isinstance(e, ast.Call) and isinstance(e.func, ast.Name) and e.func.id == "__unpack__" and len(e.args) == 3:
        return e.args[0], e.args[1].value, e.args[2].value
    return None


CODEC_WRAPPERS = ("utf8", "native_str", "to_unicode", "to_basestring", "str", "bytes")


def strip_wrappers(e: ast.AST, names: Sequence[str] = CODEC_WRAPPERS) -> ast.AST:
    """Peel type/encoding conversions that keep the text (``utf8(x)`` -> ``x``)."""
    while isinstance(e, ast.Call) and len(e.args) == 1 and not e.keywords and q.call_attr(e) in names and isinstance(e.func, (ast.Name, ast.Attribute)):
        if isinstance(e.func, ast.Attribute) and q.dotted(e.func) is None:
            break
        e = e.args[0]
    return e


def same(a: ast.AST, b: ast.AST) -> bool:
    return ast.dump(a) == ast.dump(b)


def contains(e: ast.AST, pred: Callable[[ast.AST], bool]) -> bool:
    return any(pred(x) for x in ast.walk(e))


def names_of(e: ast.AST) -> Set[str]:
    return {x.id for x in ast.walk(e) if isinstance(x, ast.Name)}


# ---------------------------------------------------------------------------
# linear normal form


class NotLinear(Exception):
    pass


def linear(e: ast.AST) -> Tuple[Dict[str, float], float, Dict[str, ast.AST]]:
    """``e`` as sum(coef * atom) + const.  Atoms are maximal non-arithmetic
    sub-expressions keyed by their source text.  Products are linear only when
    all but one factor fold to constants."""
    atoms: Dict[str, ast.AST] = {}

    def go(x) -> Tuple[Dict[str, float], float]:
        try:
            v = q.fold(x, {})
            if isinstance(v, (int, float)) and not isinstance(v, bool):
                return {}, v
        except q.NotFoldable:
            pass
        if isinstance(x, ast.BinOp) and isinstance(x.op, (ast.Add, ast.Sub)):
            a, ca = go(x.left)
            b, cb = go(x.right)
            s = 1 if isinstance(x.op, ast.Add) else -1
            out = dict(a)
            for k, v in b.items():
                out[k] = out.get(k, 0) + s * v
            return out, ca + s * cb
        if isinstance(x, ast.UnaryOp) and isinstance(x.op, (ast.USub, ast.UAdd)):
            a, ca = go(x.operand)
            s = -1 if isinstance(x.op, ast.USub) else 1
            return {k: s * v for k, v in a.items()}, s * ca
        if isinstance(x, ast.BinOp) and isinstance(x.op, ast.Mult):
            a, ca = go(x.left)
            b, cb = go(x.right)
            if not a:
                return {k: ca * v for k, v in b.items()}, ca * cb
            if not b:
                return {k: cb * v for k, v in a.items()}, ca * cb
            raise NotLinear(q.unparse(x))
        if isinstance(x, ast.BinOp) and isinstance(x.op, (ast.Div, ast.FloorDiv)):
            a, ca = go(x.left)
            b, cb = go(x.right)
            if not b and cb:
                if isinstance(x.op, ast.FloorDiv) and a:
                    atoms["__floor__"] = x  # the quotient is rounded down: the linear form is only approximate
                return {k: v / cb for k, v in a.items()}, ca / cb
            raise NotLinear(q.unparse(x))
        t = q.unparse(x)
        atoms[t] = x
        return {t: 1}, 0

    coefs, const = go(e)
    return {k: v for k, v in coefs.items() if v != 0}, const, atoms


def fact_geq0(e: ast.AST, pol: bool) -> Optional[Tuple[Dict[str, float], float, bool, Dict[str, ast.AST]]]:
    """An order comparison with polarity as ``sum(coef*atom) + const >= 0``
    (strict=False) or ``> 0`` (strict=True); None if ``e`` is not one."""
    while isinstance(e, ast.UnaryOp) and isinstance(e.op, ast.Not):
        e, pol = e.operand, not pol
    if not (isinstance(e, ast.Compare) and len(e.ops) == 1 and isinstance(e.ops[0], (ast.Lt, ast.LtE, ast.Gt, ast.GtE))):
        return None
    L, R, op = e.left, e.comparators[0], e.ops[0]
    # normalise to  big - small (>|>=) 0
    if isinstance(op, (ast.Lt, ast.LtE)):
        small, big, strict = L, R, isinstance(op, ast.Lt)
    else:
        small, big, strict = R, L, isinstance(op, ast.Gt)
    if not pol:
        small, big, strict = big, small, not strict
    try:
        cb, kb, ab = linear(big)
        cs, ks, as_ = linear(small)
    except NotLinear:
        return None
    coefs = dict(cb)
    for k, v in cs.items():
        coefs[k] = coefs.get(k, 0) - v
    ab.update(as_)
    return {k: v for k, v in coefs.items() if v != 0}, kb - ks, strict, ab


def unwalrus(e: ast.AST) -> ast.AST:
    """``(m := f(x))`` -> ``m`` everywhere in ``e`` (what the expression says about the bound name afterwards)."""
    if not any(isinstance(x, ast.NamedExpr) for x in ast.walk(e)):
        return e

    class T(ast.NodeTransformer):
        def visit_NamedExpr(self, node):
            return ast.copy_location(ast.Name(id=node.target.id, ctx=ast.Load()), node)

    return ast.fix_missing_locations(T().visit(copy.deepcopy(e)))


def parsed_facts(facts: Iterable[Tuple[str, bool]]) -> List[Tuple[ast.AST, bool, str]]:
    out = []
    for text, pol in facts:
        if text.startswith("@"):
            continue
        try:
            e = ast.parse(text, mode="eval").body
        except SyntaxError:
            continue
        out.append((e, pol, text))
        if any(isinstance(x, ast.NamedExpr) for x in ast.walk(e)):
            # a test on an assignment expression is also a fact about the name it binds
            out.append((unwalrus(e), pol, text))
    return out


def equality_fact(e: ast.AST, pol: bool) -> Optional[Tuple[ast.AST, ast.AST, bool]]:
    """(left, right, equal?) for ``a == b`` / ``a != b`` facts (canonical or not)."""
    while isinstance(e, ast.UnaryOp) and isinstance(e.op, ast.Not):
        e, pol = e.operand, not pol
    if isinstance(e, ast.Compare) and len(e.ops) == 1 and isinstance(e.ops[0], (ast.Eq, ast.NotEq)):
        eq = isinstance(e.ops[0], ast.Eq)
        return e.left, e.comparators[0], (eq if pol else not eq)
    return None


# ---------------------------------------------------------------------------
# exception escape


class Site:
    __slots__ = ("fi", "node", "exc", "kind", "detail", "handler")

    def __init__(self, fi, node, exc, kind, detail="", handler=None):
        self.fi = fi
        self.node = node
        self.exc = exc
        self.kind = kind  # conversion unpack index key none-attr raise assert call
        self.detail = detail
        self.handler = handler  # the local ExceptHandler that catches it, or None

    def __repr__(self):
        return "<Site %s %s %s at %s%s>" % (self.kind, self.exc, q.unparse(self.node)[:50], self.fi.qualname, " caught" if self.handler is not None else "")


# conversions of text: callee (dotted name or ".attr") -> exceptions when an operand is attacker-controlled
CONVERSIONS: Dict[str, Tuple[str, ...]] = {
    "int": ("ValueError",),
    "float": ("ValueError",),
    "base64.b64decode": ("binascii.Error",),
    "base64.urlsafe_b64decode": ("binascii.Error",),
    "binascii.a2b_hex": ("binascii.Error",),
    "binascii.unhexlify": ("binascii.Error",),
    "bytes.fromhex": ("ValueError",),
    ".decode": ("UnicodeDecodeError",),
    # 4-byte mask: the C routine raises ValueError, the pure-python fallback IndexError
    "_websocket_mask": ("ValueError", "IndexError"),
    "json_decode": ("ValueError",),
}

# never raise for str/bytes operands (frozen list; anything not listed and not analysed fails closed)
SAFE_FUNCS = {
    "len", "isinstance", "str", "bytes", "bool", "repr", "hasattr", "utf8", "to_unicode", "native_str", "to_basestring",
    "hmac.compare_digest", "hmac.new", "time.time", "os.urandom", "binascii.b2a_hex", "binascii.hexlify", "base64.b64encode",
    "min", "max", "abs", "range", "tuple", "list", "contextlib.suppress", "suppress", "frozenset", "set", "dict",
}
SAFE_ATTRS = {
    "split", "rsplit", "partition", "rpartition", "startswith", "endswith", "strip", "lstrip", "rstrip", "lower", "upper",
    "match", "fullmatch", "search", "group", "groups", "update", "hexdigest", "digest", "get", "join", "replace", "find",
    # str/bytes predicates and total (non-raising) transformations
    "isdigit", "isalnum", "isalpha", "isascii", "isdecimal", "isnumeric", "isspace", "islower", "isupper", "istitle", "isidentifier", "isprintable",
    "title", "capitalize", "casefold", "swapcase", "zfill", "ljust", "rjust", "center", "splitlines", "removeprefix", "removesuffix", "expandtabs", "count", "rfind",
    "hex", "keys", "values", "items", "copy",
    "warning", "debug", "info", "error",  # logging with %-args is formatted lazily and never propagates
}
ARITY_FIXED = {"partition": 3, "rpartition": 3}


def handler_reraises(h: ast.ExceptHandler, exc: Optional[str] = None) -> bool:
    """The handler lets the exception (of class ``exc``) out again with a bare ``raise``.  The idiom
    ``except Exception as e: if isinstance(e, Q): <handle> [else:] raise`` re-raises only what is not a Q."""

    def isinst(test):
        pol = True
        while isinstance(test, ast.UnaryOp) and isinstance(test.op, ast.Not):
            test, pol = test.operand, not pol
        if isinstance(test, ast.Call) and isinstance(test.func, ast.Name) and test.func.id == "isinstance" and len(test.args) == 2 and isinstance(test.args[0], ast.Name) and test.args[0].id == h.name:
            ts = test.args[1].elts if isinstance(test.args[1], ast.Tuple) else [test.args[1]]
            return [q.dotted(t) or q.unparse(t) for t in ts], pol
        return None

    def leaves(stmts):
        return bool(stmts) and isinstance(stmts[-1], (ast.Return, ast.Raise, ast.Continue, ast.Break))

    def rec(stmts) -> bool:
        for st in stmts:
            if isinstance(st, ast.Raise) and st.exc is None:
                return True
            if isinstance(st, ast.Return):
                return False
            if isinstance(st, ast.If) and exc is not None and h.name:
                it = isinst(st.test)
                if it is not None:
                    names, pol = it
                    taken = st.body if q.exc_is_caught(exc, names) == pol else st.orelse
                    if rec(taken):
                        return True
                    if leaves(taken):
                        return False
                    continue
            for x in q.walk_local(st):
                if isinstance(x, ast.Raise) and x.exc is None:
                    return True
        return False

    return rec(h.body)


def local_handler(pm, node: ast.AST, exc: str) -> Optional[ast.ExceptHandler]:
    """Innermost enclosing handler of the function that catches ``exc`` and does
    not re-raise it with a bare ``raise`` - a ``try`` handler or ``with contextlib.suppress(...)``."""
    child = node
    for a in q.ancestors(pm, node):
        if isinstance(a, q.ScopeNode):
            break
        if isinstance(a, ast.Try) and any(child is s_ for s_ in a.body):
            stop = False
            for h in a.handlers:
                if q.exc_is_caught(exc, q.handler_names(h)):
                    if handler_reraises(h, exc):
                        stop = True
                        break  # propagates outward from this try
                    return h
            if stop:
                pass
        elif isinstance(a, (ast.With, ast.AsyncWith)) and any(child is s_ for s_ in a.body):
            for it in a.items:
                c = it.context_expr
                if isinstance(c, ast.Call) and q.dotted(c.func) in ("contextlib.suppress", "suppress") and c.args:
                    names = [q.dotted(x) or q.unparse(x) for x in c.args]
                    if q.exc_is_caught(exc, names):
                        h = ast.ExceptHandler(type=ast.Tuple(elts=list(c.args), ctx=ast.Load()) if len(c.args) > 1 else c.args[0], name=None, body=[ast.Pass()])
                        return ast.copy_location(h, a)
        child = a
    return None


class Escapes:
    """Exception-escape analysis for a closed set of functions of one module.

    ``analysed``: qualnames that are analysed (their escape set is computed);
    ``trusted``: extra callee names (dotted or ``.attr``) with a fixed escape set
    (possibly empty) stated by the rule; anything else unknown -> AnalysisError.
    ``sources(fi)``: attacker-controlled parameter names of ``fi``.
    """

    def __init__(self, repo: Repo, relpath: str, analysed: Iterable[str], sources: Callable[[FuncInfo], Iterable[str]],
                 trusted: Optional[Dict[str, Tuple[str, ...]]] = None, narrowing_asserts_ok: Iterable[str] = (),
                 trusted_arity: Optional[Dict[str, int]] = None):
        self.repo = repo
        self.relpath = relpath
        self.analysed = set(analysed)
        self.sources = sources
        self.trusted = dict(trusted or {})
        self.narrowing_ok = set(narrowing_asserts_ok)
        self.trusted_arity = dict(trusted_arity or {})
        self._sites: Dict[str, List[Site]] = {}
        self._esc: Dict[str, Set[str]] = {}
        self._busy: Set[str] = set()
        self.notes: List[str] = []
        self.guarded: List[Tuple[FuncInfo, ast.AST, str]] = []  # fallible sites discharged by a dominating guard

    # -- callee resolution ------------------------------------------------------------
    def resolve(self, fi: FuncInfo, c: ast.Call) -> Optional[FuncInfo]:
        m = self.repo.module(self.relpath)
        f = c.func
        if isinstance(f, ast.Name):
            scope = fi
            while scope is not None:
                qn = scope.qualname + ".<locals>." + f.id
                if qn in m.funcs:
                    return m.funcs[qn] if qn in self.analysed else None
                scope = scope.parent
            if f.id in m.funcs and f.id in self.analysed:
                return m.funcs[f.id]
            return None
        if isinstance(f, ast.Attribute) and isinstance(f.value, ast.Name) and f.value.id in ("self", "cls") and fi.cls is not None:
            owner = fi
            while owner.parent is not None:
                owner = owner.parent
            clsname = owner.qualname.rsplit(".", 1)[0] if "." in owner.qualname else None
            if clsname:
                qn = clsname + "." + f.attr
                if qn in m.funcs and qn in self.analysed:
                    return m.funcs[qn]
        return None

    def returns_arity(self, fi: FuncInfo) -> Optional[int]:
        """n if every ``return`` of fi returns a tuple literal of n elements."""
        ar = set()
        for x in own_nodes(fi.node):
            if isinstance(x, ast.Return):
                if isinstance(x.value, ast.Tuple) and not any(isinstance(e, ast.Starred) for e in x.value.elts):
                    ar.add(len(x.value.elts))
                elif x.value is not None and isinstance(x.value, (ast.Name, ast.Attribute)):
                    # returns a stored tuple: look for a unique tuple assignment to that path
                    d = q.dotted(x.value)
                    vals = [s.value for s in q.stores_to(fi.node, d) if isinstance(s, ast.Assign)] if d else []
                    if vals and all(isinstance(v, ast.Tuple) for v in vals):
                        ar |= {len(v.elts) for v in vals}
                    else:
                        return None
                else:
                    return None
        return ar.pop() if len(ar) == 1 else None

    # -- sites ------------------------------------------------------------------------------
    def sites(self, fi: FuncInfo) -> List[Site]:
        key = fi.qualname
        if key in self._sites:
            return self._sites[key]
        self._busy.add(key)
        src = set(self.sources(fi))
        tainted = tainted_names(fi, src)
        pm = q.parent_map(fi.node)
        facts = must_facts(fi.cfg)
        rd = Reach(fi)
        out: List[Site] = []

        def is_t(e) -> bool:
            return mentions(e, tainted)

        def facts_at(astnode):
            ns = rd.cfg_nodes_of(astnode)
            if not ns:
                return None  # unreachable code
            fs = None
            for n in ns:
                f = facts[n.id]
                fs = f if fs is None else (fs & f)
            return fs, ns

        def add(node, exc, kind, detail=""):
            out.append(Site(fi, node, exc, kind, detail, local_handler(pm, node, exc)))

        for x in own_nodes(fi.node):
            if isinstance(x, FuncNode + (ast.Lambda, ast.ClassDef)):
                continue
            fa = None
            if isinstance(x, (ast.Raise, ast.Assert, ast.Call, ast.Subscript, ast.Assign, ast.Attribute)):
                st = q.enclosing_stmt(pm, x) if not isinstance(x, ast.stmt) else x
                if not rd.cfg_nodes_of(x) and not rd.cfg_nodes_of(st):
                    continue  # dead code
            if isinstance(x, ast.Raise):
                if x.exc is None:
                    continue  # accounted for by handler_reraises
                e = x.exc.func if isinstance(x.exc, ast.Call) else x.exc
                add(x, q.dotted(e) or q.unparse(e), "raise")
            elif isinstance(x, ast.Assert):
                add(x, "AssertionError", "assert")
            elif isinstance(x, ast.Call):
                par = pm.get(x)
                if isinstance(par, ast.Raise) and par.exc is x:
                    continue  # constructing the exception object
                callee = self.resolve(fi, x)
                nm = q.dotted(x.func)
                attr = q.call_attr(x)
                if callee is not None:
                    if callee.qualname in self._busy and callee.qualname not in self._esc:
                        raise AnalysisError("recursive call %s -> %s in escape analysis" % (fi.qualname, callee.qualname))
                    for exc in sorted(self.escaping(callee)):
                        add(x, exc, "call", callee.qualname)
                    continue
                tkey = nm if nm in self.trusted else ("." + attr if attr and ("." + attr) in self.trusted and isinstance(x.func, ast.Attribute) else None)
                if tkey is not None:
                    for exc in self.trusted[tkey]:
                        add(x, exc, "call", tkey)
                    continue
                ckey = nm if nm in CONVERSIONS else (attr if attr in CONVERSIONS and isinstance(x.func, ast.Name) else ("." + attr if attr and ("." + attr) in CONVERSIONS and isinstance(x.func, ast.Attribute) else None))
                if ckey is not None:
                    ops = list(x.args) + [k.value for k in x.keywords]
                    if isinstance(x.func, ast.Attribute) and ckey.startswith("."):
                        ops.append(x.func.value)
                    if any(is_t(a) for a in ops):
                        for exc in CONVERSIONS[ckey]:
                            add(x, exc, "conversion", ckey)
                    else:
                        self.notes.append("%s: %s on untainted operand not considered" % (fi.qualname, q.unparse(x)))
                    continue
                if nm in SAFE_FUNCS or (isinstance(x.func, ast.Attribute) and attr in SAFE_ATTRS):
                    continue
                if nm == "next" and len(x.args) == 2:
                    continue  # next(it, default) does not raise StopIteration; what the iterator's body raises is accounted for at its call
                if nm == "next" and len(x.args) == 1:
                    add(x, "StopIteration", "call", "next")
                    continue
                if nm in ("filter", "map", "iter", "zip", "enumerate", "reversed", "sorted"):
                    continue
                # a callee taken from a dispatch table of analysed functions: {k: f, ...}.get(key) / TABLE[key]
                tbl_funcs = None
                if isinstance(x.func, ast.Name):
                    ns_ = rd.cfg_nodes_of(x)
                    d_ = rd.unique(ns_[0], x.func.id) if ns_ else None
                    tv = d_.value if d_ is not None and d_.kind == "assign" else None
                    tb = None
                    if isinstance(tv, ast.Call) and isinstance(tv.func, ast.Attribute) and tv.func.attr == "get" and tv.args:
                        tb = tv.func.value
                    elif isinstance(tv, ast.Subscript):
                        tb = tv.value
                    if isinstance(tb, ast.Name):
                        tb = self.repo.module(self.relpath).assigns.get(tb.id)
                    if isinstance(tb, ast.Dict) and tb.values and all(isinstance(v_, ast.Name) and v_.id in self.analysed for v_ in tb.values):
                        tbl_funcs = [self.repo.func(self.relpath, v_.id) for v_ in tb.values]
                if tbl_funcs is not None:
                    for cal in tbl_funcs:
                        for exc in sorted(self.escaping(cal)):
                            add(x, exc, "call", cal.qualname)
                    continue
                if isinstance(x.func, ast.Name) and x.func.id in fi.params() and x.func.id not in src:
                    self.notes.append("%s: call of caller-supplied callable %s() assumed not to raise" % (fi.qualname, x.func.id))
                    continue
                raise AnalysisError("unmodelled callee %s in %s (escape analysis fails closed)" % (q.unparse(x.func), fi.qualname))
            elif isinstance(x, ast.Subscript) and isinstance(x.ctx, ast.Load) and not isinstance(x.slice, ast.Slice):
                if not (is_t(x.value) or is_t(x.slice)):
                    continue
                idx = None
                try:
                    idx = q.fold(x.slice, {})
                except q.NotFoldable:
                    pass
                if isinstance(idx, int) and not isinstance(idx, bool):
                    need = idx + 1 if idx >= 0 else -idx
                    got = facts_at(x)
                    ok = False
                    if got is not None and isinstance(x.value, ast.Name):
                        dlit = rd.unique(got[1][0], x.value.id)
                        if dlit is not None and dlit.kind == "assign" and isinstance(dlit.value, (ast.Tuple, ast.List)) and not any(isinstance(y, ast.Starred) for y in dlit.value.elts) and len(dlit.value.elts) >= need:
                            ok = True  # a tuple/list built in place with enough elements
                    if got is not None and not ok:
                        ok = _len_at_least(got[0], x.value, need) or _len_at_least(got[0], x.value, need, lambda e_, n_=got[1][0]: rd.expand(e_, n_))
                    if not ok:
                        add(x, "IndexError", "index", "no dominating length test")
                    else:
                        self.guarded.append((fi, x, "index %d is below the length established by a dominating test" % idx))
                elif is_t(x.slice):
                    add(x, "KeyError", "key")
            elif isinstance(x, ast.Assign) and any(isinstance(t, (ast.Tuple, ast.List)) for t in x.targets):
                for t in x.targets:
                    if not isinstance(t, (ast.Tuple, ast.List)):
                        continue
                    n = len(t.elts)
                    v = x.value
                    if isinstance(v, (ast.Tuple, ast.List)) and len(v.elts) == n:
                        continue
                    if isinstance(v, ast.Name):
                        # the sequence was put in a local first: `fields = parse(x)` ... `a, b, c = fields`
                        ns_v = rd.cfg_nodes_of(x)
                        dv_ = rd.unique(ns_v[0], v.id) if ns_v else None
                        if dv_ is not None and dv_.kind == "assign" and isinstance(dv_.value, ast.Call):
                            cal0 = self.resolve(fi, dv_.value)
                            if cal0 is not None and self.returns_arity(cal0) == n:
                                continue
                        if dv_ is not None and dv_.kind == "assign" and isinstance(dv_.value, (ast.Tuple, ast.List)) and len(dv_.value.elts) == n and not any(isinstance(y, ast.Starred) for y in dv_.value.elts):
                            continue
                    if isinstance(v, ast.Call):
                        cal = self.resolve(fi, v)
                        if cal is not None and self.returns_arity(cal) == n:
                            continue
                        if isinstance(v.func, ast.Attribute) and ARITY_FIXED.get(v.func.attr) == n:
                            continue
                        tk = q.dotted(v.func)
                        if tk in self.trusted_arity and self.trusted_arity[tk] == n:
                            continue
                        a2 = q.call_attr(v)
                        if isinstance(v.func, ast.Attribute) and ("." + a2) in self.trusted_arity and self.trusted_arity["." + a2] == n:
                            continue
                    if is_t(v):
                        got = facts_at(x)
                        if got is not None and (_len_exactly(got[0], v, n) or _len_exactly(got[0], v, n, lambda e_, n_=got[1][0]: rd.expand(e_, n_))):
                            self.guarded.append((fi, x, "unpacking %d values from a sequence whose length was tested to be %d" % (n, n)))
                            continue
                        add(x, "ValueError", "unpack", "%d targets" % n)
                    else:
                        self.notes.append("%s: unpack of untainted %s not considered" % (fi.qualname, q.unparse(v)))
            elif isinstance(x, ast.Attribute) and isinstance(x.ctx, ast.Load) and isinstance(x.value, ast.Name):
                # attribute access on a possibly-None regex match object
                ns = rd.cfg_nodes_of(x)
                if not ns:
                    continue
                ds = rd.defs_at(ns[0], x.value.id)
                if ds and all(d.kind == "assign" and isinstance(d.value, ast.Call) and isinstance(d.value.func, ast.Attribute) and d.value.func.attr in ("match", "fullmatch", "search") for d in ds):
                    fs = set(facts[ns[0].id])
                    for fe_, fp_, _ft in parsed_facts(facts[ns[0].id]):
                        fs.add(canon_fact(fe_, fp_))
                    nm = x.value.id
                    if not ((nm, True) in fs or ("%s is None" % nm, False) in fs):
                        add(x, "AttributeError", "none-attr", "match object may be None")
                    else:
                        self.guarded.append((fi, x, "match object tested against None on every path"))
        self._busy.discard(key)
        self._sites[key] = out
        return out

    def escaping(self, fi: FuncInfo) -> Set[str]:
        key = fi.qualname
        if key not in self._esc:
            ss = self.sites(fi)
            self._esc[key] = {s.exc for s in ss if s.handler is None and not (s.kind == "assert" and self._narrowing(fi, s))}
        return self._esc[key]

    def _narrowing(self, fi: FuncInfo, s: Site) -> bool:
        from .rules import is_type_narrowing_assert

        return fi.qualname in self.narrowing_ok and is_type_narrowing_assert(s.node)

    def unprotected(self, fi: FuncInfo) -> List[Site]:
        return [s for s in self.sites(fi) if s.handler is None and not (s.kind == "assert" and self._narrowing(fi, s))]


def _len_exactly(facts, seq: ast.AST, n: int, expand=None) -> bool:
    want = "len(%s)" % q.unparse(expand(seq) if expand else seq)
    for e, pol, _t in parsed_facts(facts):
        if expand:
            e = expand(e)
        eq = equality_fact(e, pol)
        if eq is not None and eq[2]:
            for u, v in ((eq[0], eq[1]), (eq[1], eq[0])):
                if q.unparse(u) == want:
                    try:
                        if q.fold(v, {}) == n:
                            return True
                    except q.NotFoldable:
                        pass
    return False


def _len_at_least(facts: FrozenSet[Tuple[str, bool]], seq: ast.AST, need: int, expand=None) -> bool:
    want = "len(%s)" % q.unparse(expand(seq) if expand else seq)
    for e, pol, _t in parsed_facts(facts):
        if expand:
            e = expand(e)
        eq = equality_fact(e, pol)
        if eq is not None:
            a, b, equal = eq
            if equal:
                for u, v in ((a, b), (b, a)):
                    if q.unparse(u) == want:
                        try:
                            k = q.fold(v, {})
                        except q.NotFoldable:
                            continue
                        if isinstance(k, int) and k >= need:
                            return True
            continue
        g = fact_geq0(e, pol)
        if g is not None:
            coefs, const, strict, _atoms = g
            if set(coefs) == {want} and coefs[want] > 0:
                # c*len + const >= 0  (or > 0)  ->  len >= -const/c
                lo = -const / coefs[want]
                import math

                lo = math.floor(lo) + 1 if strict else math.ceil(lo)
                if lo >= need:
                    return True
    return False


# ---------------------------------------------------------------------------
# backward reachability of tests (is a raise input-selected?)


def tests_reaching(cfg: CFG, target: Node) -> List[Node]:
    """All ``test`` nodes from which ``target`` is reachable (any path)."""
    seen = {target.id}
    st = [target.id]
    while st:
        x = st.pop()
        for p, _k in cfg.pred[x]:
            if p not in seen:
                seen.add(p)
                st.append(p)
    reach = cfg.reachable()
    return [cfg.nodes[i] for i in sorted(seen) if i in reach and cfg.nodes[i].kind == "test" and i != target.id]


def edge_dominates(cfg: CFG, test: Node, kind: str, target: Node) -> bool:
    """Every path from entry to ``target`` takes the ``kind`` ('true'/'false')
    edge of ``test``: with that edge removed the target is unreachable."""
    seen = {cfg.entry.id}
    st = [cfg.entry.id]
    while st:
        x = st.pop()
        for y, k in cfg.succ[x]:
            if x == test.id and k == kind:
                continue
            if y not in seen:
                seen.add(y)
                st.append(y)
    return target.id not in seen and target.id in cfg.reachable()


# ---------------------------------------------------------------------------
# round 3: recogniser generality helpers


def norm_unpack(e: ast.AST) -> ast.AST:
    """``__unpack__(S, i, n)`` -> ``S[i]`` everywhere (an element of a sequence is the same
    value whether it was taken by index or by tuple unpacking)."""

    class T(ast.NodeTransformer):
        def visit_Call(self, node):
            self.generic_visit(node)
            u = is_unpack(node)
            if u is not None and isinstance(u[1], int):
                return ast.Subscript(value=u[0], slice=ast.Constant(value=u[1]), ctx=ast.Load())
            return node

    return T().visit(copy.deepcopy(e))


def node_exprs(n: Node) -> List[ast.AST]:
    """The expressions evaluated by a CFG node (test expression, assigned value, call statement ...)."""
    if n.ast is None or n.kind not in ("stmt", "test", "for", "with"):
        return []
    if n.kind == "test":
        return [n.ast]
    if n.kind in ("for", "with"):
        return _node_roots(n)
    st = n.ast
    if isinstance(st, (ast.Assign, ast.AnnAssign, ast.AugAssign, ast.Return, ast.Expr)):
        return [st.value] if st.value is not None else []
    if isinstance(st, ast.Raise):
        return [st.exc] if st.exc is not None else []
    if isinstance(st, ast.Assert):
        return [st.test]
    return []


def can_reach(cfg: CFG, target: Node) -> Set[int]:
    seen = {target.id}
    st = [target.id]
    while st:
        x = st.pop()
        for p, _k in cfg.pred[x]:
            if p not in seen:
                seen.add(p)
                st.append(p)
    return seen & cfg.reachable()


def possible_guards(rd: "Reach", target: Node, ingredient: Callable[[ast.AST], bool], recognised: Iterable[int] = ()) -> List[Node]:
    """CFG nodes from which ``target`` is reachable whose (expanded) expression has the
    ingredients of the guard looked for but was not understood by the recogniser.  Used to
    decide between VIOLATION (no such node: the guard is positively absent) and
    AnalysisError (the guard may be present in a shape the rule cannot parse)."""
    cfg = rd.cfg
    rec = set(recognised)
    out = []
    for i in sorted(can_reach(cfg, target)):
        n = cfg.nodes[i]
        if i == target.id or i in rec:
            continue
        for e in node_exprs(n):
            try:
                E = rd.expand(e, n)
            except RecursionError:  # pragma: no cover
                continue
            if ingredient(E):
                out.append(n)
                break
    return out


def absent_or_unknown(rd: "Reach", target: Node, ingredient, recognised, what: str):
    """Raise AnalysisError when an unrecognised construct with the guard's ingredients can
    reach ``target``; return normally (caller reports the VIOLATION) when there is none."""
    g = possible_guards(rd, target, ingredient, recognised)
    if g:
        raise AnalysisError("%s: %s may be established by a construct the rule does not understand: %s" % (rd.fi.qualname, what, q.unparse(g[0].ast)[:100].replace("\n", " ")))


def guarding_tests(cfg: CFG, target: Node) -> List[Tuple[Node, str]]:
    """(test node, edge kind) pairs such that the edge leads to ``target`` while the
    opposite edge of the same test cannot reach it (the tests ``target`` is control-dependent on)."""
    cr = can_reach(cfg, target)
    out = []
    for i in sorted(cr):
        n = cfg.nodes[i]
        if n.kind != "test":
            continue
        yes = [k for s, k in cfg.succ[i] if k in ("true", "false") and s in cr]
        no = [k for s, k in cfg.succ[i] if k in ("true", "false") and s not in cr]
        if yes and no:
            out.append((n, yes[0]))
    return out


# ---------------------------------------------------------------------------
# round 7: small canonicalisations shared by the security checks


def concat_canon(e: ast.AST) -> ast.AST:
    """``b"".join([a, b, c])`` / ``"".join((a, b))`` -> ``a + b + c`` (an empty-separator join of a display is
    plain concatenation)."""

    class T(ast.NodeTransformer):
        def visit_Call(self, node):
            self.generic_visit(node)
            if isinstance(node.func, ast.Attribute) and node.func.attr == "join" and isinstance(node.func.value, ast.Constant) and node.func.value.value in (b"", "") and len(node.args) == 1 \
                    and isinstance(node.args[0], (ast.List, ast.Tuple)) and node.args[0].elts and not any(isinstance(x, ast.Starred) for x in node.args[0].elts) and not node.keywords:
                out = node.args[0].elts[0]
                for x in node.args[0].elts[1:]:
                    out = ast.BinOp(left=out, op=ast.Add(), right=x)
                return ast.copy_location(out, node)
            return node

    r = T().visit(copy.deepcopy(e))
    ast.fix_missing_locations(r)
    return r


def positional_call(call: ast.Call, params: Sequence[str]) -> ast.Call:
    """The call with its keyword arguments moved to their positions in ``params`` (the callee's parameter
    names, without self/cls); returned unchanged when that is not possible without gaps."""
    if not call.keywords or any(k.arg is None for k in call.keywords) or any(isinstance(a, ast.Starred) for a in call.args):
        return call
    slots: List[Optional[ast.AST]] = list(call.args) + [None] * max(0, len(params) - len(call.args))
    for k in call.keywords:
        if k.arg not in params:
            return call
        i = list(params).index(k.arg)
        if i >= len(slots) or slots[i] is not None:
            return call
        slots[i] = k.value
    while slots and slots[-1] is None:
        slots.pop()
    if any(s is None for s in slots):
        return call
    return ast.copy_location(ast.Call(func=call.func, args=slots, keywords=[]), call)


def scalar_const(module, cls: Optional[ast.ClassDef], e: ast.AST):
    """The literal a module-level name / class-level ``self.NAME`` / ``cls.NAME`` constant stands for (numbers,
    str, bytes); raises KeyError when ``e`` is not such a constant."""
    if isinstance(e, ast.Name) and e.id in getattr(module, "assigns", {}):
        try:
            v = q.fold(module.assigns[e.id], {})
        except q.NotFoldable:
            raise KeyError(e.id)
        if isinstance(v, (int, float, str, bytes)) and not isinstance(v, bool):
            return v
    d = q.dotted(e) if isinstance(e, ast.Attribute) else None
    if d and cls is not None and len(d.split(".")) == 2 and d.split(".")[0] in ("self", "cls", cls.name):
        nm = d.split(".")[1]
        vals = [st.value for st in cls.body if isinstance(st, ast.Assign) and any(isinstance(t, ast.Name) and t.id == nm for t in st.targets)]
        vals += [st.value for st in cls.body if isinstance(st, ast.AnnAssign) and isinstance(st.target, ast.Name) and st.target.id == nm and st.value is not None]
        stores = any(isinstance(x, ast.Attribute) and x.attr == nm and isinstance(x.ctx, (ast.Store, ast.Del)) for x in ast.walk(cls))
        if len(vals) == 1 and not stores:
            try:
                v = q.fold(vals[0], {})
            except q.NotFoldable:
                raise KeyError(nm)
            if isinstance(v, (int, float, str, bytes)) and not isinstance(v, bool):
                return v
    raise KeyError(q.unparse(e))


def concat_to_join(e: ast.AST) -> ast.AST:
    """``a + SEP + b + SEP + c`` (and the empty-separator-join spelling of the same) -> ``SEP.join([a, b, c])``
    when the constant pieces between the computed ones are one and the same non-empty separator; a leading
    constant ``HEAD + SEP`` becomes the first element(s).  Anything else is returned unchanged."""
    e2 = concat_canon(e)
    pieces: List[ast.AST] = []

    def flat(x):
        if isinstance(x, ast.BinOp) and isinstance(x.op, ast.Add):
            flat(x.left)
            flat(x.right)
        else:
            pieces.append(x)

    flat(e2)
    is_c = lambda x: isinstance(x, ast.Constant) and isinstance(x.value, (bytes, str))
    if len(pieces) < 3 or not any(is_c(x) for x in pieces) or is_c(pieces[-1]):
        return e
    head: List[ast.AST] = []
    rest = pieces
    lit0 = None
    if is_c(pieces[0]):
        lit0, rest = pieces[0].value, pieces[1:]
    # rest must be arg, SEP, arg, SEP, ..., arg
    if len(rest) % 2 == 0:
        return e
    args = rest[0::2]
    seps = rest[1::2]
    if any(is_c(a) for a in args) or not all(is_c(s_) for s_ in seps):
        return e
    sepvals = {s_.value for s_ in seps}
    if lit0 is not None and not seps:
        # HEAD+SEP followed by a single computed piece: the separator is unknown
        return e
    if len(sepvals) != 1:
        return e
    sep = sepvals.pop()
    if not sep:
        return e
    if lit0 is not None:
        if not lit0.endswith(sep):
            return e
        head = [ast.Constant(value=h) for h in lit0[: -len(sep)].split(sep)]
    new = ast.Call(func=ast.Attribute(value=ast.Constant(value=sep), attr="join", ctx=ast.Load()), args=[ast.List(elts=head + list(args), ctx=ast.Load())], keywords=[])
    ast.copy_location(new, e)
    ast.fix_missing_locations(new)
    return new
