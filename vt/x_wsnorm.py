"""x_norm — behaviour-preserving normalisation of a module before rule evaluation.

Routine refactorings move a value behind a local alias, a named boolean, a
temporary, a 1-tuple unpack, or move a block of statements into a single-use
private helper.  Rules that reason on the CFG of an anchored function should not
care.  ``normalize(repo, relpath, keep)`` returns a Repo whose module ``relpath``
has been rewritten (in memory, nothing is written anywhere) by transformations that
preserve behaviour as far as the analyses are concerned:

N4  ``(x,) = e``            ->  ``x = e[0]``
N1  a statement-level call of a *single-use private helper* defined in the same
    module/class (``self._h(a)``, ``Cls._h(a)``, ``_h(a)``; plain, assigned,
    returned, awaited) is replaced by the helper's body with its locals renamed
    apart, parameters bound by assignments, ``return e`` turned into the
    assignment / return of the call statement.  Helpers named in ``keep`` (the
    anchors the rules analyse in their own right) are never inlined.
N2/N3 a local bound exactly once to an attribute chain (alias) or to a pure
    expression (names, attributes, constants, subscripts, operators, ``len``/
    ``bool``) is substituted into its uses when, on every CFG path from the
    definition to the use, nothing the expression mentions is re-bound (and, for
    non-alias expressions, nothing it mentions is passed to / called on, and no
    suspension point is crossed when it reads attributes).

A transformation that does not apply cleanly is simply skipped (the rules then
see the original shape and fail closed if they cannot read it).
"""
from __future__ import annotations

import ast
import copy
from typing import Dict, Iterable, List, Optional, Set, Tuple

from . import q
from .cfg import build, must_facts, Node
from .model import Repo, FuncNode

PURE_CALLS = {"len", "bool"}


# ---------------------------------------------------------------------------
# N4


def inline_module_constants(tree: ast.Module) -> bool:
    """A module-level name bound exactly once (at top level) to a literal (number, str/bytes, None/bool, or a
    tuple / set / frozenset literal of such) and never re-bound anywhere is replaced by the literal in every
    function body that does not shadow it (a literal hoisted to a named constant)."""
    def literal(v) -> bool:
        if isinstance(v, ast.Constant):
            return True
        if isinstance(v, ast.UnaryOp) and isinstance(v.op, ast.USub) and isinstance(v.operand, ast.Constant):
            return True
        if isinstance(v, (ast.Tuple, ast.Set)):
            return all(literal(x) for x in v.elts)
        if isinstance(v, ast.BinOp) and isinstance(v.op, (ast.Mult, ast.Add, ast.BitOr, ast.LShift)):
            return literal(v.left) and literal(v.right)
        return False

    top: Dict[str, ast.AST] = {}
    for st in tree.body:
        if isinstance(st, ast.Assign) and len(st.targets) == 1 and isinstance(st.targets[0], ast.Name) and literal(st.value):
            top[st.targets[0].id] = st.value
        elif isinstance(st, ast.AnnAssign) and isinstance(st.target, ast.Name) and st.value is not None and literal(st.value):
            top[st.target.id] = st.value
    if not top:
        return False
    stores: Dict[str, int] = {}
    for x in ast.walk(tree):
        if isinstance(x, ast.Name) and isinstance(x.ctx, (ast.Store, ast.Del)):
            stores[x.id] = stores.get(x.id, 0) + 1
        elif isinstance(x, (ast.Global, ast.Nonlocal)):
            for n_ in x.names:
                stores[n_] = stores.get(n_, 0) + 5
        elif isinstance(x, (ast.FunctionDef, ast.AsyncFunctionDef, ast.ClassDef)):
            stores[x.name] = stores.get(x.name, 0) + 5
        elif isinstance(x, ast.arg):
            stores[x.arg] = stores.get(x.arg, 0) + 5  # a parameter of that name somewhere: be conservative
        elif isinstance(x, ast.alias):
            nm = (x.asname or x.name).split(".")[0]
            stores[nm] = stores.get(nm, 0) + 5
    consts = {k: v for k, v in top.items() if stores.get(k, 0) == 1}
    if not consts:
        return False
    changed = [False]

    class T(ast.NodeTransformer):
        def visit_Name(self, node):
            if isinstance(node.ctx, ast.Load) and node.id in consts:
                changed[0] = True
                return ast.copy_location(copy.deepcopy(consts[node.id]), node)
            return node

    for st in tree.body:
        if isinstance(st, FuncNode + (ast.ClassDef,)):
            for i, sub in enumerate(st.body):
                st.body[i] = T().visit(sub)
    return changed[0]


def nested_defs_to_lambdas(tree: ast.Module) -> bool:
    """A nested ``def f(a): return E`` (no decorators, no defaults, not async/generator) whose name is only ever
    used as a bare argument / callee inside the enclosing function becomes ``lambda a: E`` at its uses."""
    changed = False
    for outer in [x for x in ast.walk(tree) if isinstance(x, FuncNode)]:
        for blk in [x for x in ast.walk(outer) if hasattr(x, "body") and isinstance(getattr(x, "body"), list)]:
            if isinstance(blk, FuncNode) and blk is not outer:
                continue
            for st in list(blk.body):
                if not isinstance(st, ast.FunctionDef) or st.decorator_list:
                    continue
                body = [x for x in st.body if not (isinstance(x, ast.Expr) and isinstance(x.value, ast.Constant))]
                a = st.args
                if len(body) != 1 or not isinstance(body[0], ast.Return) or body[0].value is None or a.defaults or a.kw_defaults or a.vararg or a.kwarg or a.kwonlyargs:
                    continue
                if any(isinstance(y, (ast.Yield, ast.YieldFrom, ast.Await)) for y in ast.walk(body[0])):
                    continue
                refs = [y for y in ast.walk(outer) if isinstance(y, ast.Name) and y.id == st.name]
                if not refs or any(not isinstance(y.ctx, ast.Load) for y in refs):
                    continue
                lam_args = ast.arguments(posonlyargs=[], args=[ast.arg(arg=x.arg) for x in a.posonlyargs + a.args], vararg=None, kwonlyargs=[], kw_defaults=[], kwarg=None, defaults=[])
                lam = ast.Lambda(args=lam_args, body=body[0].value)

                class T(ast.NodeTransformer):
                    def visit_Name(self, node, name=st.name, lam=lam):
                        if node.id == name and isinstance(node.ctx, ast.Load):
                            return ast.copy_location(copy.deepcopy(lam), node)
                        return node

                    def visit_FunctionDef(self, node, target=st):
                        if node is target:
                            return None
                        return self.generic_visit(node)

                new_body = []
                for x in outer.body:
                    r = T().visit(x)
                    if r is not None:
                        new_body.append(r)
                outer.body = new_body or [ast.Pass()]
                changed = True
    return changed


EXTERNAL_SIGNATURES = {"add_timeout": ["deadline", "callback"], "call_later": ["delay", "callback"], "call_at": ["when", "callback"]}


def keywords_to_positional(tree: ast.Module) -> bool:
    """``self.m(b=2, a=1)`` / ``f(a=1)`` -> positional arguments in the order of the definition found in the same
    class (or its bases in the module) / module; a few well-known external signatures (IOLoop timers) as well."""
    funcs = _functions(tree)
    bases = _class_bases(tree)
    changed = [False]

    def params_of(call: ast.Call, cls: Optional[str]):
        f = call.func
        h = None
        if isinstance(f, ast.Attribute) and isinstance(f.value, ast.Name) and f.value.id == "self" and cls:
            seen, todo = set(), [cls]
            while todo and h is None:
                c = todo.pop(0)
                if c in seen:
                    continue
                seen.add(c)
                h = funcs.get((c, f.attr))
                todo.extend(b for b in bases.get(c, []) if b in bases)
            if h is None:
                return None
            ps = [a.arg for a in h.args.posonlyargs + h.args.args]
            if any(q.dotted(d) == "staticmethod" for d in h.decorator_list):
                return ps if not (h.args.vararg or h.args.kwarg) else None
            return ps[1:] if ps and not (h.args.vararg or h.args.kwarg) else None
        if isinstance(f, ast.Name) and (None, f.id) in funcs:
            h = funcs[(None, f.id)]
            return [a.arg for a in h.args.posonlyargs + h.args.args] if not (h.args.vararg or h.args.kwarg) else None
        if isinstance(f, ast.Attribute) and f.attr in EXTERNAL_SIGNATURES:
            return EXTERNAL_SIGNATURES[f.attr]
        return None

    def fix(call: ast.Call, cls):
        if not call.keywords or any(k.arg is None for k in call.keywords) or any(isinstance(a, ast.Starred) for a in call.args):
            return
        ps = params_of(call, cls)
        if ps is None:
            return
        kw = {k.arg: k.value for k in call.keywords}
        args = list(call.args)
        while len(args) < len(ps) and ps[len(args)] in kw:
            args.append(kw.pop(ps[len(args)]))
        if len(args) != len(call.args):
            call.args = args
            call.keywords = [k for k in call.keywords if k.arg in kw]
            changed[0] = True

    for st in tree.body:
        if isinstance(st, FuncNode):
            for x in ast.walk(st):
                if isinstance(x, ast.Call):
                    fix(x, None)
        elif isinstance(st, ast.ClassDef):
            for x in ast.walk(st):
                if isinstance(x, ast.Call):
                    fix(x, st.name)
    return changed[0]


class _MapToGen(ast.NodeTransformer):
    """``map(lambda x: E, it)`` -> ``(E for x in it)`` (same elements for every consumer that iterates once)."""

    def visit_Call(self, node):
        self.generic_visit(node)
        if isinstance(node.func, ast.Name) and node.func.id == "map" and len(node.args) == 2 and not node.keywords and isinstance(node.args[0], ast.Lambda):
            lam = node.args[0]
            a = lam.args
            if len(a.args) == 1 and not (a.posonlyargs or a.kwonlyargs or a.vararg or a.kwarg or a.defaults):
                gen = ast.GeneratorExp(elt=lam.body, generators=[ast.comprehension(target=ast.Name(id=a.args[0].arg, ctx=ast.Store()), iter=node.args[1], ifs=[], is_async=0)])
                return ast.copy_location(gen, node)
        return node


class _Untuple(ast.NodeTransformer):
    def visit_AnnAssign(self, node):
        # `x: T = v` binds exactly like `x = v` (the annotation is a typing aid)
        self.generic_visit(node)
        if node.value is not None and node.simple and isinstance(node.target, ast.Name):
            return self.visit_Assign(ast.copy_location(ast.Assign(targets=[node.target], value=node.value), node))
        return node

    def visit_Assign(self, node):
        self.generic_visit(node)
        # parallel assignment `a, b = x, y` (take-and-clear by tuple swap): sequential when no earlier target is read later
        if len(node.targets) == 1 and isinstance(node.targets[0], (ast.Tuple, ast.List)) and isinstance(node.value, (ast.Tuple, ast.List)) \
                and len(node.targets[0].elts) == len(node.value.elts) > 1 and not any(isinstance(x, ast.Starred) for x in node.targets[0].elts + node.value.elts):
            tg, vs = node.targets[0].elts, node.value.elts
            paths = [q.dotted(t) for t in tg]
            safe = all(p is not None for p in paths)
            if safe:
                for i, p in enumerate(paths):
                    for v in vs[i + 1:]:
                        if any(m == p or m.startswith(p + ".") or p.startswith(m + ".") and m != "self" for m in q.paths_in(v)):
                            safe = False
            if safe:
                return [ast.copy_location(ast.Assign(targets=[t], value=v), node) for t, v in zip(tg, vs)]
        if len(node.targets) == 1 and isinstance(node.targets[0], (ast.Tuple, ast.List)) and len(node.targets[0].elts) == 1 and not isinstance(node.targets[0].elts[0], ast.Starred):
            t = node.targets[0].elts[0]
            new = ast.Assign(targets=[t], value=ast.Subscript(value=node.value, slice=ast.Constant(value=0), ctx=ast.Load()))
            return ast.copy_location(new, node)
        return node


# ---------------------------------------------------------------------------
# N1: statement-level inlining of single-use private helpers


def _functions(tree: ast.Module):
    """{(class name or None, function name): FunctionDef} for module-level and class-level functions."""
    out = {}
    for st in tree.body:
        if isinstance(st, FuncNode):
            out[(None, st.name)] = st
        elif isinstance(st, ast.ClassDef):
            for s2 in st.body:
                if isinstance(s2, FuncNode):
                    out.setdefault((st.name, s2.name), s2)
    return out


def _class_bases(tree: ast.Module) -> Dict[str, List[str]]:
    return {st.name: [q.dotted(b) or "?" for b in st.bases] for st in tree.body if isinstance(st, ast.ClassDef)}


def _count_refs(tree: ast.Module, name: str) -> int:
    n = 0
    for x in ast.walk(tree):
        if isinstance(x, ast.Attribute) and x.attr == name:
            n += 1
        elif isinstance(x, ast.Name) and x.id == name and isinstance(x.ctx, ast.Load):
            n += 1
    return n


def _call_of(st: ast.stmt):
    """(call, awaited, kind) when ``st`` is a statement-level call: kind in expr|assign|return."""
    v = None
    kind = None
    if isinstance(st, ast.Expr):
        v, kind = st.value, "expr"
    elif isinstance(st, ast.Assign) and len(st.targets) == 1:
        v, kind = st.value, "assign"
    elif isinstance(st, ast.AnnAssign) and st.value is not None:
        v, kind = st.value, "assign"
    elif isinstance(st, ast.Return) and st.value is not None:
        v, kind = st.value, "return"
    if v is None:
        return None
    awaited = False
    if isinstance(v, ast.Await):
        v, awaited = v.value, True
    if isinstance(v, ast.Call):
        return v, awaited, kind
    return None


class _Rename(ast.NodeTransformer):
    def __init__(self, mapping):
        self.mapping = mapping

    def visit_Name(self, node):
        if node.id in self.mapping:
            return ast.copy_location(ast.Name(id=self.mapping[node.id], ctx=node.ctx), node)
        return node

    def visit_ExceptHandler(self, node):
        self.generic_visit(node)
        if node.name and node.name in self.mapping:
            node.name = self.mapping[node.name]
        return node


def _returns(fn) -> List[ast.Return]:
    return [x for x in q.walk_body(fn) if isinstance(x, ast.Return)]


def _return_in_loop(fn) -> bool:
    def rec(stmts, in_loop):
        for s in stmts:
            if isinstance(s, ast.Return) and in_loop:
                return True
            if isinstance(s, FuncNode + (ast.ClassDef,)):
                continue
            inner_loop = in_loop or isinstance(s, (ast.For, ast.AsyncFor, ast.While))
            for fld in ("body", "orelse", "finalbody"):
                sub = getattr(s, fld, None)
                if isinstance(sub, list) and rec(sub, inner_loop):
                    return True
            for h in getattr(s, "handlers", []) or []:
                if rec(h.body, inner_loop):
                    return True
        return False

    return rec(fn.body, False)


def _inline_body(helper, call: ast.Call, kind: str, st: ast.stmt, uid: int, is_method: bool) -> Optional[List[ast.stmt]]:
    a = helper.args
    if a.vararg or a.kwarg or a.kwonlyargs and any(d is None for d in a.kw_defaults):
        return None
    if any(isinstance(x, ast.Starred) for x in call.args) or any(k.arg is None for k in call.keywords):
        return None
    params = [x.arg for x in a.posonlyargs + a.args]
    static = any(q.dotted(d) == "staticmethod" for d in helper.decorator_list)
    clsm = any(q.dotted(d) == "classmethod" for d in helper.decorator_list)
    if any(q.dotted(d) not in ("staticmethod", "classmethod") for d in helper.decorator_list):
        return None
    selfname = None
    if is_method and not static:
        if not params:
            return None
        selfname, params = params[0], params[1:]
        if clsm:
            return None
        recv = call.func.value if isinstance(call.func, ast.Attribute) else None
        if not (isinstance(recv, ast.Name) and recv.id == selfname == "self"):
            return None
    if any(isinstance(x, (ast.Yield, ast.YieldFrom, ast.Global, ast.Nonlocal)) or isinstance(x, FuncNode + (ast.ClassDef, ast.Lambda)) for s in helper.body for x in ast.walk(s)):
        return None
    if len(call.args) > len(params):
        return None
    binding: Dict[str, ast.AST] = {}
    for p, v in zip(params, call.args):
        binding[p] = v
    kwonly = [x.arg for x in a.kwonlyargs]
    for k in call.keywords:
        if k.arg not in params + kwonly or k.arg in binding:
            return None
        binding[k.arg] = k.value
    defaults = dict(zip(reversed([x.arg for x in a.posonlyargs + a.args]), reversed(a.defaults)))
    for p, d in zip(kwonly, a.kw_defaults):
        if d is not None:
            defaults[p] = d
    for p in params + kwonly:
        if p not in binding:
            if p not in defaults:
                return None
            binding[p] = defaults[p]
    # rename every local of the helper apart
    locals_ = set(params + kwonly)
    for x in q.walk_body(helper):
        if isinstance(x, ast.Name) and isinstance(x.ctx, (ast.Store, ast.Del)):
            locals_.add(x.id)
        elif isinstance(x, ast.ExceptHandler) and x.name:
            locals_.add(x.name)
    locals_.discard("self")
    mapping = {n: "_h%d_%s" % (uid, n) for n in locals_}
    body = [copy.deepcopy(s) for s in helper.body if not (isinstance(s, ast.Expr) and isinstance(s.value, ast.Constant))]
    body = [_Rename(mapping).visit(s) for s in body]
    stored = {x.id for s in helper.body for x in ast.walk(s) if isinstance(x, ast.Name) and isinstance(x.ctx, (ast.Store, ast.Del))}
    direct: Dict[str, ast.AST] = {}
    pre: List[ast.stmt] = []
    for p in params + kwonly:
        v = binding[p]
        if p not in stored and (isinstance(v, (ast.Name, ast.Constant)) or (isinstance(v, ast.Attribute) and q.dotted(v) is not None)):
            direct[mapping[p]] = v  # the parameter is never re-bound: it *is* the argument
        else:
            pre.append(ast.Assign(targets=[ast.Name(id=mapping[p], ctx=ast.Store())], value=copy.deepcopy(v)))
    if direct:
        class D(ast.NodeTransformer):
            def visit_Name(self, node):
                if node.id in direct and isinstance(node.ctx, ast.Load):
                    return ast.copy_location(copy.deepcopy(direct[node.id]), node)
                return node

        body = [D().visit(s) for s in body]
    rets = [x for s in body for x in ast.walk(s) if isinstance(x, ast.Return)]
    res_name = "_h%d_result" % uid

    def deliver(value: Optional[ast.AST]) -> List[ast.stmt]:
        v = value if value is not None else ast.Constant(value=None)
        if kind == "expr":
            return [] if value is None or isinstance(value, (ast.Constant, ast.Name)) else [ast.Expr(value=v)]
        if kind == "assign":
            new = copy.deepcopy(st)
            new.value = v
            return [new]
        return [ast.Return(value=v)]

    simple = all(r is body[-1] for r in rets) if rets else True
    out: List[ast.stmt]
    if simple:
        if rets:
            last = body.pop()
            out = pre + body + deliver(last.value)
        else:
            out = pre + body + deliver(None)
    else:
        if _return_in_loop(helper):
            return None

        class R(ast.NodeTransformer):
            def visit_Return(self, node):
                v = node.value if node.value is not None else ast.Constant(value=None)
                return [ast.Assign(targets=[ast.Name(id=res_name, ctx=ast.Store())], value=v), ast.Break()]

        wrapped = []
        for s in body:
            r = R().visit(s)
            wrapped.extend(r if isinstance(r, list) else [r])
        loop = ast.While(test=ast.Constant(value=True), body=wrapped + [ast.Assign(targets=[ast.Name(id=res_name, ctx=ast.Store())], value=ast.Constant(value=None)), ast.Break()], orelse=[])
        out = pre + [loop] + deliver(ast.Name(id=res_name, ctx=ast.Load()))
    if not out:
        out = [ast.Pass()]
    for s in out:
        ast.copy_location(s, st)
        for x in ast.walk(s):
            if not hasattr(x, "lineno"):
                ast.copy_location(x, st)
    return out


def _delete_def(tree: ast.Module, h) -> None:
    for holder in [tree] + [c for c in tree.body if isinstance(c, ast.ClassDef)]:
        for i, st in enumerate(holder.body):
            if st is h:
                if len(holder.body) == 1:
                    holder.body[i] = ast.copy_location(ast.Pass(), st)
                else:
                    del holder.body[i]
                return


def inline_helpers(tree: ast.Module, keep: Set[str], rounds: int = 3) -> bool:
    changed_any = False
    uid = [0]
    for _ in range(rounds):
        funcs = _functions(tree)
        bases = _class_bases(tree)
        changed = False

        def resolve(call: ast.Call, cls: Optional[str]):
            f = call.func
            if isinstance(f, ast.Attribute) and isinstance(f.value, ast.Name):
                if f.value.id == "self" and cls:
                    seen = set()
                    todo = [cls]
                    while todo:
                        c = todo.pop(0)
                        if c in seen:
                            continue
                        seen.add(c)
                        if (c, f.attr) in funcs:
                            return funcs[(c, f.attr)], True
                        todo.extend(b for b in bases.get(c, []) if b in bases)
                    return None
                if f.value.id in bases and (f.value.id, f.attr) in funcs:
                    h = funcs[(f.value.id, f.attr)]
                    if any(q.dotted(d) == "staticmethod" for d in h.decorator_list):
                        return h, True
                return None
            if isinstance(f, ast.Name) and (None, f.id) in funcs:
                return funcs[(None, f.id)], False
            return None

        def eligible(h, name: str, caller, awaited: bool) -> bool:
            if not name.startswith("_") or name.startswith("__") or name in keep:
                return False
            if h is caller:
                return False
            if _count_refs(tree, name) != 1:
                return False
            if isinstance(h, ast.AsyncFunctionDef) != awaited:
                return False
            if isinstance(h, ast.AsyncFunctionDef) and not isinstance(caller, ast.AsyncFunctionDef):
                return False
            if caller is None and (_return_in_loop(h) or isinstance(h, ast.AsyncFunctionDef)):
                return False
            return True

        def walk_block(stmts: List[ast.stmt], caller, cls) -> None:
            nonlocal changed
            i = 0
            while i < len(stmts):
                s = stmts[i]
                if isinstance(s, FuncNode + (ast.ClassDef,)):
                    i += 1
                    continue
                co = _call_of(s)
                if co is not None:
                    call, awaited, kind = co
                    r = resolve(call, cls)
                    if r is not None:
                        h, is_method = r
                        name = h.name
                        if eligible(h, name, caller, awaited):
                            uid[0] += 1
                            body = _inline_body(h, call, kind, s, uid[0], is_method)
                            if body is not None:
                                stmts[i : i + 1] = body
                                changed = True
                                _delete_def(tree, h)  # its single use is gone: the definition is dead code
                                i += len(body)
                                continue
                for fld in ("body", "orelse", "finalbody"):
                    sub = getattr(s, fld, None)
                    if isinstance(sub, list) and sub and isinstance(sub[0], ast.stmt):
                        walk_block(sub, caller, cls)
                for hd in getattr(s, "handlers", []) or []:
                    walk_block(hd.body, caller, cls)
                i += 1

        def straightline(h) -> bool:
            body = [x for x in h.body if not (isinstance(x, ast.Expr) and isinstance(x.value, ast.Constant))]
            if not body or not isinstance(body[-1], ast.Return) or body[-1].value is None:
                return False
            for x in body[:-1]:
                if not ((isinstance(x, ast.Assign) and len(x.targets) == 1 and isinstance(x.targets[0], ast.Name)) or (isinstance(x, ast.AnnAssign) and isinstance(x.target, ast.Name) and x.value is not None)):
                    return False
            return not any(isinstance(y, (ast.Await, ast.Yield, ast.YieldFrom)) for x in body for y in ast.walk(x))

        def hoist_block(stmts: List[ast.stmt], caller, cls) -> None:
            """calls of straight-line single-use helpers inside an `if` test or inside the expression of a simple
            statement: the helper's assignments are placed before the statement, the call becomes its return expression"""
            nonlocal changed
            i = 0
            while i < len(stmts):
                s = stmts[i]
                if isinstance(s, FuncNode + (ast.ClassDef,)):
                    i += 1
                    continue
                exprs = []
                if isinstance(s, ast.If):
                    exprs = [s.test]
                elif isinstance(s, (ast.Assign, ast.AnnAssign, ast.Expr, ast.Return, ast.AugAssign)) and getattr(s, "value", None) is not None:
                    exprs = [s.value]
                done = False
                for e in exprs:
                    for c in [x for x in ast.walk(e) if isinstance(x, ast.Call)]:
                        r = resolve(c, cls)
                        if r is None:
                            continue
                        h, is_method = r
                        if isinstance(h, ast.AsyncFunctionDef) or not eligible(h, h.name, caller, False):
                            continue
                        if any(isinstance(y, (ast.Await, ast.Yield, ast.YieldFrom)) for x_ in h.body for y in ast.walk(x_)):
                            continue
                        uid[0] += 1
                        holder = ast.Assign(targets=[ast.Name(id="_h%d_value" % uid[0], ctx=ast.Store())], value=c)
                        ast.copy_location(holder, s)
                        body = _inline_body(h, c, "assign", holder, uid[0], is_method)
                        if body is None or not isinstance(body[-1], ast.Assign):
                            continue
                        ret_expr = body[-1].value
                        pre = body[:-1]

                        class Rep(ast.NodeTransformer):
                            def visit_Call(self, node, c=c, ret_expr=ret_expr):
                                if node is c:
                                    return ret_expr
                                return self.generic_visit(node)

                        if isinstance(s, ast.If):
                            s.test = Rep().visit(s.test)
                        else:
                            s.value = Rep().visit(s.value)
                        _delete_def(tree, h)
                        stmts[i:i] = pre
                        i += len(pre)
                        changed = True
                        done = True
                        break
                    if done:
                        break
                for fld in ("body", "orelse", "finalbody"):
                    sub = getattr(s, fld, None)
                    if isinstance(sub, list) and sub and isinstance(sub[0], ast.stmt):
                        hoist_block(sub, caller, cls)
                for hd in getattr(s, "handlers", []) or []:
                    hoist_block(hd.body, caller, cls)
                i += 1

        walk_block(tree.body, None, None)  # module-level statements (e.g. NAME = _select_impl())
        for st in tree.body:
            if isinstance(st, FuncNode):
                walk_block(st.body, st, None)
                hoist_block(st.body, st, None)
            elif isinstance(st, ast.ClassDef):
                for s2 in st.body:
                    if isinstance(s2, FuncNode):
                        walk_block(s2.body, s2, st.name)
                        hoist_block(s2.body, s2, st.name)
        changed_any = changed_any or changed
        if not changed:
            break
    return changed_any


# ---------------------------------------------------------------------------
# N2/N3: forward substitution of single-assignment locals


def _substitutable(e: ast.AST) -> Optional[str]:
    """'alias' for a pure attribute chain, 'pure' for a side-effect-free expression, None otherwise."""
    if isinstance(e, ast.Attribute) and q.dotted(e) is not None:
        return "alias"
    for x in ast.walk(e):
        if isinstance(x, (ast.Await, ast.Yield, ast.YieldFrom, ast.Lambda, ast.ListComp, ast.SetComp, ast.DictComp, ast.GeneratorExp, ast.NamedExpr, ast.JoinedStr, ast.Starred, ast.Dict, ast.List, ast.Set)):
            return None
        if isinstance(x, ast.Call):
            if not (isinstance(x.func, ast.Name) and x.func.id in PURE_CALLS and not x.keywords):
                return None
    if isinstance(e, (ast.Constant, ast.Name)):
        return None  # plain copies / constants are already handled by constant propagation and tags
    return "pure"


def _store_counts(fn) -> Dict[str, int]:
    cnt: Dict[str, int] = {}
    for x in q.walk_body(fn):
        if isinstance(x, ast.Name) and isinstance(x.ctx, (ast.Store, ast.Del)):
            cnt[x.id] = cnt.get(x.id, 0) + 1
        elif isinstance(x, ast.ExceptHandler) and x.name:
            cnt[x.name] = cnt.get(x.name, 0) + 1
    return cnt


def _used_in_nested_scope(fn, name: str) -> bool:
    for x in q.walk_body(fn):
        if isinstance(x, FuncNode + (ast.Lambda, ast.ClassDef)):
            if any(isinstance(y, ast.Name) and y.id == name for y in ast.walk(x)):
                return True
    return False


def substitute_locals(fn, max_rounds: int = 4) -> bool:
    changed_any = False
    for _ in range(max_rounds):
        changed = False
        params = {a.arg for a in fn.args.posonlyargs + fn.args.args + fn.args.kwonlyargs}
        if fn.args.vararg:
            params.add(fn.args.vararg.arg)
        if fn.args.kwarg:
            params.add(fn.args.kwarg.arg)
        cnt = _store_counts(fn)
        cands = []
        for x in q.walk_body(fn):
            if isinstance(x, ast.Assign) and len(x.targets) == 1 and isinstance(x.targets[0], ast.Name):
                nm, val = x.targets[0].id, x.value
            elif isinstance(x, ast.AnnAssign) and isinstance(x.target, ast.Name) and x.value is not None:
                nm, val = x.target.id, x.value
            else:
                continue
            if nm in params or cnt.get(nm, 0) != 1 or nm in ("self", "cls"):
                continue
            kind = _substitutable(val)
            if kind is None or nm in q.names_in(val):
                continue
            if _used_in_nested_scope(fn, nm):
                continue
            cands.append((nm, x, val, kind))
        if not cands:
            break
        try:
            cfg = build(fn)
        except Exception:
            return changed_any
        for nm, defst, val, kind in cands:
            dnodes = [n for n in cfg.stmt_nodes(lambda n: n.kind == "stmt" and n.ast is defst)]
            if len(dnodes) != 1:
                continue  # inside a duplicated finally body etc.
            dnode = dnodes[0]
            mentioned = q.paths_in(val)
            reads_attr = any(isinstance(y, (ast.Attribute, ast.Subscript)) for y in ast.walk(val))
            tag = "@def:" + nm

            def gen(n, dnode=dnode, tag=tag):
                return [(tag, True)] if n.id == dnode.id else []

            def kill(n, f, tag=tag, mentioned=mentioned, kind=kind, reads_attr=reads_attr, dnode=dnode):
                if f[0] != tag or n.id == dnode.id:
                    return False
                from .cfg import node_effects

                assigned, mutated, susp = node_effects(n)
                for a in assigned:
                    a = a[:-2] if a.endswith("[]") else a
                    if a in mentioned or any(m.startswith(a + ".") for m in mentioned):
                        return True
                if kind == "pure":
                    if any(m in mentioned for m in mutated):
                        return True
                    if susp and reads_attr:
                        return True
                return False

            facts = must_facts(cfg, gen_node=gen, kill_node=kill, cond_facts=False)
            uses = cfg.find(lambda y, nm=nm: isinstance(y, ast.Name) and y.id == nm and isinstance(y.ctx, ast.Load))
            all_uses = [y for y in q.walk_body(fn) if isinstance(y, ast.Name) and y.id == nm and isinstance(y.ctx, ast.Load)]
            seen_ids = {id(y) for _n, y in uses}
            if not all_uses or any(id(y) not in seen_ids for y in all_uses):
                continue  # a use in unreachable code or not in the CFG
            if kind == "pure" and len(all_uses) > 1:
                continue  # a named value tested in several places keeps its name (path correlation by name)
            if not all((tag, True) in facts[n.id] for n, _y in uses):
                continue

            class S(ast.NodeTransformer):
                def visit_Name(self, node):
                    if node.id == nm and isinstance(node.ctx, ast.Load):
                        return ast.copy_location(copy.deepcopy(val), node)
                    return node

            for fld in ("body",):
                fn.body = [S().visit(s) for s in fn.body]
            _remove_stmt(fn, defst)
            ast.fix_missing_locations(fn)
            changed = True
            break  # CFG is stale: rebuild
        changed_any = changed_any or changed
        if not changed:
            break
    return changed_any


def hoist_walrus(tree: ast.Module) -> bool:
    """``if (x := E) <rest>:`` -> ``x = E; if x <rest>:`` and ``while (x := E) <rest>: body`` ->
    ``while True: x = E; if not (x <rest>): break; body`` - only when the named expression is the first thing the test
    evaluates (left-most operand), so the order of evaluation is unchanged."""
    changed = [False]

    def leftmost(e):
        while True:
            if isinstance(e, ast.NamedExpr):
                return e
            if isinstance(e, ast.Compare):
                e = e.left
            elif isinstance(e, ast.BoolOp):
                e = e.values[0]
            elif isinstance(e, ast.UnaryOp):
                e = e.operand
            elif isinstance(e, ast.Call) and isinstance(e.func, ast.Attribute):
                e = e.func.value
            else:
                return None

    def replace(test, ne):
        class R(ast.NodeTransformer):
            def visit_NamedExpr(self, node):
                if node is ne:
                    return ast.copy_location(ast.Name(id=ne.target.id, ctx=ast.Load()), node)
                return self.generic_visit(node)

        return R().visit(test)

    def walk_block(stmts):
        i = 0
        while i < len(stmts):
            s = stmts[i]
            if isinstance(s, FuncNode + (ast.ClassDef,)):
                walk_block(s.body)
                i += 1
                continue
            if isinstance(s, ast.If):
                ne = leftmost(s.test)
                if ne is not None and isinstance(ne.target, ast.Name):
                    asg = ast.copy_location(ast.Assign(targets=[ast.Name(id=ne.target.id, ctx=ast.Store())], value=ne.value), s)
                    s.test = replace(s.test, ne)
                    stmts.insert(i, asg)
                    changed[0] = True
                    continue  # re-examine (nested walrus in the same test)
            if isinstance(s, ast.While) and not s.orelse:
                ne = leftmost(s.test)
                if ne is not None and isinstance(ne.target, ast.Name):
                    asg = ast.copy_location(ast.Assign(targets=[ast.Name(id=ne.target.id, ctx=ast.Store())], value=ne.value), s)
                    cond = replace(s.test, ne)
                    brk = ast.copy_location(ast.If(test=ast.UnaryOp(op=ast.Not(), operand=cond), body=[ast.Break()], orelse=[]), s)
                    s.test = ast.copy_location(ast.Constant(value=True), s)
                    s.body = [asg, brk] + s.body
                    changed[0] = True
            for fld in ("body", "orelse", "finalbody"):
                sub = getattr(s, fld, None)
                if isinstance(sub, list) and sub and isinstance(sub[0], ast.stmt):
                    walk_block(sub)
            for hd in getattr(s, "handlers", []) or []:
                walk_block(hd.body)
            i += 1

    walk_block(tree.body)
    return changed[0]


def fold_explaining_returns(fn) -> bool:
    """``x = E`` immediately followed by ``return x`` (x bound once, used once) -> ``return E``."""
    changed = False
    cnt = _store_counts(fn)
    uses: Dict[str, int] = {}
    for y in ast.walk(fn):
        if isinstance(y, ast.Name) and isinstance(y.ctx, ast.Load):
            uses[y.id] = uses.get(y.id, 0) + 1
    for node in ast.walk(fn):
        for fld in ("body", "orelse", "finalbody"):
            body = getattr(node, fld, None)
            if not isinstance(body, list):
                continue
            i = 0
            while i + 1 < len(body):
                a, b = body[i], body[i + 1]
                if isinstance(a, ast.Assign) and len(a.targets) == 1 and isinstance(a.targets[0], ast.Name) and isinstance(b, ast.Return) and isinstance(b.value, ast.Name) \
                        and b.value.id == a.targets[0].id and cnt.get(a.targets[0].id, 0) == 1 and uses.get(a.targets[0].id, 0) == 1:
                    body[i : i + 2] = [ast.copy_location(ast.Return(value=a.value), b)]
                    changed = True
                    continue
                i += 1
    return changed


def _remove_stmt(root, target) -> bool:
    for node in ast.walk(root):
        for fld in ("body", "orelse", "finalbody"):
            body = getattr(node, fld, None)
            if isinstance(body, list):
                for i, s in enumerate(body):
                    if s is target:
                        if len(body) == 1:
                            body[i] = ast.copy_location(ast.Pass(), s)
                        else:
                            del body[i]
                        return True
    return False


# ---------------------------------------------------------------------------


def normalize_tree(tree: ast.Module, keep: Iterable[str] = (), substitute_rounds: int = 12) -> ast.Module:
    tree = copy.deepcopy(tree)
    hoist_walrus(tree)
    inline_module_constants(tree)
    nested_defs_to_lambdas(tree)
    keywords_to_positional(tree)
    ast.fix_missing_locations(tree)
    tree = _Untuple().visit(tree)
    tree = _MapToGen().visit(tree)
    ast.fix_missing_locations(tree)
    inline_helpers(tree, set(keep))
    tree = _Untuple().visit(tree)  # parallel assignments produced by inlining a tuple-returning helper
    ast.fix_missing_locations(tree)
    for st in tree.body:
        fns = []
        if isinstance(st, FuncNode):
            fns.append(st)
        elif isinstance(st, ast.ClassDef):
            fns.extend(s2 for s2 in st.body if isinstance(s2, FuncNode))
        for fn in fns:
            fold_explaining_returns(fn)
            try:
                substitute_locals(fn, substitute_rounds)
            except RecursionError:
                pass
    ast.fix_missing_locations(tree)
    compile(tree, "<normalized>", "exec")
    return tree


_CACHE: Dict[Tuple[str, str, Tuple[str, ...]], ast.Module] = {}


def normalize(repo: Repo, relpath: str, keep: Iterable[str] = ()) -> Repo:
    """Repo with module ``relpath`` normalised (cached per source digest)."""
    if not relpath.startswith("tornado/"):
        relpath = "tornado/" + relpath
    m = repo.module(relpath)
    key = (relpath, m.digest, tuple(sorted(keep)))
    if key not in _CACHE:
        if len(_CACHE) > 8:
            _CACHE.clear()
        _CACHE[key] = normalize_tree(m.tree, keep)
    r = repo.with_module(relpath, tree=copy.deepcopy(_CACHE[key]))
    for attr in ("c_asts",):
        if hasattr(repo, attr):
            setattr(r, attr, getattr(repo, attr))
    return r


KEEP_WS = {
    "_handle_message", "_process_server_headers", "_create_compressors", "_accept_connection", "_receive_frame_loop", "_receive_frame",
    "_write_frame", "_read_bytes", "_parse_extensions_header", "_handle_websocket_headers", "_get_compressor_options", "_challenge_response",
    "_create_decompressor", "_create_compressor", "_run_callback", "_abort", "_on_message", "_detach_stream", "_break_cycles", "_open",
    "_on_http_response", "_websocket_mask_python", "_websocket_mask", "_raise_not_supported_for_websockets",
}
