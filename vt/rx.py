"""E5 — regex automata.

Parses a pattern with the stdlib's ``re._parser`` (no matching is performed),
compiles the subset used in tornado (literals, classes, ranges, negated
classes, categories, groups, alternation, bounded/unbounded repeats, ``^``/``$``
anchors at the ends) to an NFA over the alphabet {0..255, 256 = "some code
point above 255"}, determinises it and decides language **equivalence /
inclusion** by product construction.  Anything else is an AnalysisError.

Symbol 256 over-approximates: for ``str`` patterns the Unicode-aware
categories ``\\d \\w \\s`` (and their negations) all contain it.
"""
from __future__ import annotations

import ast
import re
from typing import Dict, FrozenSet, Iterable, List, Optional, Set, Tuple

try:  # Python 3.11+
    import re._parser as sre_parse  # type: ignore
    import re._constants as sre_c  # type: ignore
except ImportError:  # pragma: no cover
    import sre_parse  # type: ignore
    import sre_constants as sre_c  # type: ignore

from .model import AnalysisError, Repo
from . import q

NSYM = 257
ALL = (1 << NSYM) - 1
HI = 1 << 256


def _mask(chars: Iterable[int]) -> int:
    m = 0
    for c in chars:
        m |= 1 << (c if c < 256 else 256)
    return m


_DIGIT = _mask(range(48, 58))
_WORD = _mask(list(range(48, 58)) + list(range(65, 91)) + list(range(97, 123)) + [95])
_SPACE = _mask([9, 10, 11, 12, 13, 32])
# str-mode additions in latin-1 range
_WORD_U = _WORD | _mask([0xAA, 0xB2, 0xB3, 0xB5, 0xB9, 0xBA, 0xBC, 0xBD, 0xBE] + [c for c in range(0xC0, 0x100) if c not in (0xD7, 0xF7)])
_DIGIT_U = _DIGIT
_SPACE_U = _SPACE | _mask([0x1C, 0x1D, 0x1E, 0x1F, 0x85, 0xA0])


class _NFA:
    def __init__(self):
        self.eps: List[List[int]] = []
        self.trans: List[List[Tuple[int, int]]] = []  # state -> [(mask, target)]

    def new(self) -> int:
        self.eps.append([])
        self.trans.append([])
        return len(self.eps) - 1


class Rx:
    """A regular language over NSYM symbols, as a complete DFA."""

    def __init__(self, start: int, accept: Set[int], delta: List[Dict[int, int]], classes: List[int], source: str = ""):
        self.start = start
        self.accept = accept
        self.delta = delta  # state -> {class index -> state}
        self.classes = classes  # list of masks partitioning the alphabet
        self.source = source

    # -- construction ---------------------------------------------------------
    @classmethod
    def from_pattern(cls, pattern, mode: str = "fullmatch", flags: int = 0) -> "Rx":
        """mode: 'fullmatch' (language of the pattern), 'match' (pattern followed by
        anything) or 'search' (anything, pattern, anything)."""
        is_bytes = isinstance(pattern, bytes)
        try:
            tree = sre_parse.parse(pattern, flags)
        except re.error as e:
            raise AnalysisError("cannot parse regex %r: %s" % (pattern, e))
        fl = tree.state.flags if hasattr(tree, "state") else tree.pattern.flags
        if fl & (re.IGNORECASE | re.MULTILINE | re.DOTALL | re.VERBOSE) & ~(re.VERBOSE):
            if fl & re.IGNORECASE or fl & re.MULTILINE:
                raise AnalysisError("regex flags IGNORECASE/MULTILINE not modelled: %r" % (pattern,))
        dotall = bool(fl & re.DOTALL)
        nfa = _NFA()
        b = _Builder(nfa, is_bytes or bool(fl & re.ASCII), dotall, mode)
        s = nfa.new()
        cur = s
        if mode == "search":
            nfa.trans[s].append((ALL, s))
        e = b.seq(list(tree), cur, top=True)
        if mode in ("match", "search") and not getattr(b, "_anchored_end", False):
            nfa.trans[e].append((ALL, e))
        return cls._determinise(nfa, s, e, repr(pattern))

    @classmethod
    def _determinise(cls, nfa: _NFA, s: int, e: int, source: str) -> "Rx":
        # alphabet classes
        masks = {m for st in nfa.trans for m, _ in st}
        classes = [ALL]
        for m in masks:
            nxt = []
            for c in classes:
                a, b = c & m, c & ~m
                if a:
                    nxt.append(a)
                if b:
                    nxt.append(b)
            classes = nxt

        def closure(states: Iterable[int]) -> FrozenSet[int]:
            seen = set(states)
            st = list(seen)
            while st:
                x = st.pop()
                for y in nfa.eps[x]:
                    if y not in seen:
                        seen.add(y)
                        st.append(y)
            return frozenset(seen)

        start = closure([s])
        ids = {start: 0}
        order = [start]
        delta: List[Dict[int, int]] = [{}]
        i = 0
        while i < len(order):
            cur = order[i]
            for ci, cm in enumerate(classes):
                tgt = set()
                for x in cur:
                    for m, y in nfa.trans[x]:
                        if m & cm:
                            tgt.add(y)
                t = closure(tgt)
                if t not in ids:
                    ids[t] = len(order)
                    order.append(t)
                    delta.append({})
                    if len(order) > 200000:
                        raise AnalysisError("regex automaton too large: %s" % source)
                delta[i][ci] = ids[t]
            i += 1
        accept = {ids[st] for st in order if e in st}
        return cls(0, accept, delta, classes, source)

    # -- queries ----------------------------------------------------------------
    def _class_of(self, sym: int) -> int:
        bit = 1 << sym
        for i, m in enumerate(self.classes):
            if m & bit:
                return i
        raise AssertionError

    def accepts(self, s) -> bool:
        if isinstance(s, str):
            syms = [min(ord(c), 256) for c in s]
        else:
            syms = list(s)
        st = self.start
        for c in syms:
            st = self.delta[st][self._class_of(c)]
        return st in self.accept

    def _product(self, other: "Rx", bad) -> Optional[List[int]]:
        """BFS over the product; returns a shortest symbol string reaching a pair
        satisfying ``bad(in_self, in_other)``, or None."""
        # common refinement of the two alphabets
        classes = []
        for a in self.classes:
            for b in other.classes:
                if a & b:
                    classes.append(a & b)
        ca = [self._class_of((m & -m).bit_length() - 1) for m in classes]
        cb = [other._class_of((m & -m).bit_length() - 1) for m in classes]
        start = (self.start, other.start)
        prev: Dict[Tuple[int, int], Optional[Tuple[Tuple[int, int], int]]] = {start: None}
        queue = [start]
        i = 0
        while i < len(queue):
            p = queue[i]
            i += 1
            if bad(p[0] in self.accept, p[1] in other.accept):
                out = []
                cur = p
                while prev[cur] is not None:
                    pp, ci = prev[cur]
                    m = classes[ci]
                    out.append((m & -m).bit_length() - 1)
                    cur = pp
                return list(reversed(out))
            for ci in range(len(classes)):
                nx = (self.delta[p[0]][ca[ci]], other.delta[p[1]][cb[ci]])
                if nx not in prev:
                    prev[nx] = (p, ci)
                    queue.append(nx)
        return None

    def witness_not_in(self, other: "Rx") -> Optional[str]:
        """A shortest string in L(self) \\ L(other), or None if L(self) ⊆ L(other)."""
        w = self._product(other, lambda a, b: a and not b)
        return None if w is None else _show(w)

    def subset_of(self, other: "Rx") -> bool:
        return self._product(other, lambda a, b: a and not b) is None

    def equivalent(self, other: "Rx") -> bool:
        return self._product(other, lambda a, b: a != b) is None

    def difference_witness(self, other: "Rx") -> Optional[Tuple[str, str]]:
        """(string, 'only-self'|'only-other') or None when equivalent."""
        w = self._product(other, lambda a, b: a and not b)
        if w is not None:
            return _show(w), "only-self"
        w = self._product(other, lambda a, b: b and not a)
        if w is not None:
            return _show(w), "only-other"
        return None

    def is_empty(self) -> bool:
        return self._product(self, lambda a, b: a) is None

    def symbols_used(self) -> int:
        """Mask of symbols that occur in at least one accepted string."""
        # states reachable from start, and states that can reach accept
        n = len(self.delta)
        reach = {self.start}
        st = [self.start]
        while st:
            x = st.pop()
            for y in self.delta[x].values():
                if y not in reach:
                    reach.add(y)
                    st.append(y)
        co = set(self.accept)
        changed = True
        while changed:
            changed = False
            for x in range(n):
                if x not in co and any(y in co for y in self.delta[x].values()):
                    co.add(x)
                    changed = True
        m = 0
        for x in reach:
            for ci, y in self.delta[x].items():
                if y in co:
                    m |= self.classes[ci]
        return m

    def excludes_symbols(self, syms: Iterable[int]) -> bool:
        """No accepted string contains any of ``syms`` (byte values / code points ≤ 255; 256 = above)."""
        return not (self.symbols_used() & _mask(syms))

    def max_length(self) -> Optional[int]:
        """Length of the longest accepted string; None if unbounded."""
        n = len(self.delta)
        co = set(self.accept)
        changed = True
        while changed:
            changed = False
            for x in range(n):
                if x not in co and any(y in co for y in self.delta[x].values()):
                    co.add(x)
                    changed = True
        # longest path in the sub-DAG of useful states; cycle => unbounded
        memo: Dict[int, int] = {}
        onstack: Set[int] = set()

        def longest(x: int) -> int:
            if x in memo:
                return memo[x]
            if x in onstack:
                raise OverflowError
            onstack.add(x)
            best = 0 if x in self.accept else -1
            for y in set(self.delta[x].values()):
                if y in co:
                    l = longest(y)
                    if l >= 0:
                        best = max(best, l + 1)
            onstack.discard(x)
            memo[x] = best
            return best

        import sys

        old = sys.getrecursionlimit()
        sys.setrecursionlimit(max(old, 10000))
        try:
            if self.start not in co:
                return -1
            return longest(self.start)
        except OverflowError:
            return None
        finally:
            sys.setrecursionlimit(old)


def _show(w: List[int]) -> str:
    return "".join(chr(c) if 32 <= c < 127 else ("\\x%02x" % c if c < 256 else "\\u{>255}") for c in w)


class _Builder:
    def __init__(self, nfa: _NFA, ascii_only: bool, dotall: bool, mode: str):
        self.nfa = nfa
        self.ascii = ascii_only
        self.dotall = dotall
        self.mode = mode

    def cat(self, which) -> int:
        name = str(which)
        neg = "NOT" in name
        if "DIGIT" in name:
            m = _DIGIT if self.ascii else (_DIGIT_U | HI)
        elif "SPACE" in name:
            m = _SPACE if self.ascii else (_SPACE_U | HI)
        elif "WORD" in name:
            m = _WORD if self.ascii else (_WORD_U | HI)
        else:
            raise AnalysisError("regex category %s not modelled" % name)
        if neg:
            m = (ALL & ~m) | (0 if self.ascii else HI)
            if self.ascii:
                m &= ~HI
        return m

    def charset(self, items) -> int:
        m = 0
        neg = False
        for op, av in items:
            op_s = str(op)
            if op_s == "NEGATE":
                neg = True
            elif op_s == "LITERAL":
                m |= 1 << min(av, 256)
            elif op_s == "RANGE":
                lo, hi = av
                for c in range(lo, min(hi, 255) + 1):
                    m |= 1 << c
                if hi > 255:
                    m |= HI
            elif op_s == "CATEGORY":
                m |= self.cat(av)
            else:
                raise AnalysisError("regex class item %s not modelled" % op_s)
        if neg:
            had_hi_cat = (not self.ascii) and any(str(op) == "CATEGORY" for op, _ in items)
            m = ALL & ~m
            if had_hi_cat:
                m |= HI  # some code points above 255 are outside any Unicode category
        if self.ascii:
            m &= ~HI
        return m

    def seq(self, items, cur: int, top: bool = False) -> int:
        n = len(items)
        for i, (op, av) in enumerate(items):
            cur = self.item(op, av, cur, top and i == 0, top and i == n - 1)
        return cur

    def step(self, cur: int, mask: int) -> int:
        nx = self.nfa.new()
        if self.ascii:
            mask &= ~HI
        self.nfa.trans[cur].append((mask, nx))
        return nx

    def item(self, op, av, cur: int, first: bool, last: bool) -> int:
        nfa = self.nfa
        op_s = str(op)
        if op_s == "LITERAL":
            return self.step(cur, 1 << min(av, 256))
        if op_s == "NOT_LITERAL":
            return self.step(cur, ALL & ~(1 << min(av, 256)))
        if op_s == "ANY":
            return self.step(cur, ALL if self.dotall else ALL & ~(1 << 10))
        if op_s == "IN":
            return self.step(cur, self.charset(av))
        if op_s == "CATEGORY":
            return self.step(cur, self.cat(av))
        if op_s == "BRANCH":
            end = nfa.new()
            for alt in av[1]:
                s = nfa.new()
                nfa.eps[cur].append(s)
                e = self.seq(list(alt), s)
                nfa.eps[e].append(end)
            return end
        if op_s == "SUBPATTERN":
            # (group, add_flags, del_flags, pattern)
            sub = av[-1]
            if len(av) == 4 and (av[1] or av[2]):
                raise AnalysisError("inline regex flags not modelled")
            return self.seq(list(sub), cur)
        if op_s in ("MAX_REPEAT", "MIN_REPEAT", "POSSESSIVE_REPEAT"):
            lo, hi, sub = av
            sub = list(sub)
            for _ in range(lo):
                cur = self.seq(sub, cur)
            if hi == sre_c.MAXREPEAT:
                loop = nfa.new()
                nfa.eps[cur].append(loop)
                e = self.seq(sub, loop)
                nfa.eps[e].append(loop)
                return loop
            if hi - lo > 2000:
                raise AnalysisError("regex repeat bound too large")
            end = nfa.new()
            nfa.eps[cur].append(end)
            for _ in range(hi - lo):
                cur = self.seq(sub, cur)
                nfa.eps[cur].append(end)
            return end
        if op_s == "AT":
            at = str(av)
            if at in ("AT_BEGINNING", "AT_BEGINNING_STRING") and first and self.mode != "search":
                return cur
            if at == "AT_END_STRING" and last:
                self._anchored_end = True
                return cur
            if at == "AT_END" and last:
                if self.mode == "fullmatch":
                    return cur
                # `$` also matches before a trailing newline
                end = nfa.new()
                nfa.eps[cur].append(end)
                nl = self.step(cur, 1 << 10)
                nfa.eps[nl].append(end)
                self._anchored_end = True
                return end
            raise AnalysisError("regex anchor %s in this position not modelled" % at)
        raise AnalysisError("regex construct %s not modelled" % op_s)


def rx(pattern, mode: str = "fullmatch") -> Rx:
    return Rx.from_pattern(pattern, mode)


# ---------------------------------------------------------------------------
# static evaluation of pattern-building code


def eval_pattern_expr(e: ast.AST, env: Dict[str, object]):
    """Statically evaluate an expression that builds a regex *pattern string*:
    string/bytes constants, implicit concatenation, ``+``, f-strings whose
    replacement fields are ``<name>.pattern`` / ``<name>`` of entries in ``env``,
    ``re.compile(<expr>)`` (returns the pattern text), names bound in ``env``."""
    if isinstance(e, ast.Constant) and isinstance(e.value, (str, bytes)):
        return e.value
    if isinstance(e, ast.Call) and q.call_attr(e) == "compile" and e.args:
        if len(e.args) > 1 or e.keywords:
            flags = e.args[1] if len(e.args) > 1 else e.keywords[0].value
            raise AnalysisError("re.compile with flags not modelled: %s" % q.unparse(flags))
        return eval_pattern_expr(e.args[0], env)
    if isinstance(e, ast.JoinedStr):
        out = ""
        for v in e.values:
            if isinstance(v, ast.Constant):
                out += v.value
            elif isinstance(v, ast.FormattedValue):
                if v.format_spec is not None or v.conversion != -1:
                    raise AnalysisError("format spec in regex f-string not modelled")
                out += eval_pattern_expr(v.value, env)
            else:  # pragma: no cover
                raise AnalysisError("unexpected f-string part")
        return out
    if isinstance(e, ast.Attribute) and e.attr == "pattern":
        return eval_pattern_expr(e.value, env)
    if isinstance(e, ast.BinOp) and isinstance(e.op, ast.Add):
        return eval_pattern_expr(e.left, env) + eval_pattern_expr(e.right, env)
    d = q.dotted(e) if isinstance(e, (ast.Name, ast.Attribute)) else None
    if d is not None:
        if d in env:
            return env[d]
        last = d.split(".")[-1]
        if last in env:
            return env[last]
    raise AnalysisError("cannot statically evaluate regex expression: %s" % q.unparse(e))


def eval_class_patterns(repo: Repo, relpath: str, clsname: str) -> Dict[str, object]:
    """Evaluate the ``NAME = re.compile(...)`` / ``NAME = OTHER`` assignments in a
    class body in order; returns name -> pattern text.  Nothing is imported."""
    c = repo.cls(relpath, clsname)
    env: Dict[str, object] = {}
    for st in c.body:
        if isinstance(st, ast.Assign) and len(st.targets) == 1 and isinstance(st.targets[0], ast.Name):
            try:
                env[st.targets[0].id] = eval_pattern_expr(st.value, env)
            except AnalysisError:
                raise
    return env


def eval_abnf(repo: Repo) -> Dict[str, object]:
    env = eval_class_patterns(repo, "tornado/httputil.py", "_ABNF")
    if len(env) < 10:
        raise AnalysisError("only %d _ABNF patterns evaluated" % len(env))
    return env


def module_pattern(repo: Repo, relpath: str, name: str):
    """Pattern text of a module-level ``NAME = re.compile(...)``."""
    m = repo.module(relpath)
    env: Dict[str, object] = {}
    for k, v in m.assigns.items():
        if k == name:
            return eval_pattern_expr(v, env)
    raise AnalysisError("module-level pattern %s not found in %s" % (name, relpath))
