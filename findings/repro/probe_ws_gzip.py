import asyncio, sys, os, gzip, io
sys.path.insert(0, "/repo")
from tornado import web, websocket, httpserver, httpclient
from tornado.testing import bind_unused_port
import logging
logging.getLogger("tornado").setLevel(logging.CRITICAL)

frames = []
class WS(websocket.WebSocketHandler):
    def select_subprotocol(self, subs): return None
    def on_message(self, m): frames.append(m)
    def on_pong(self, d): pass

class BadSub(websocket.WebSocketHandler):
    def on_message(self, m): pass
    async def get(self, *a, **k):
        # emulate a server that selects an unoffered subprotocol
        self.set_header("Sec-WebSocket-Protocol", "evil")
        await super().get(*a, **k)

@web.stream_request_body
class Up(web.RequestHandler):
    def prepare(self):
        self.n = 0
        self.request.connection.set_max_body_size(int(self.get_query_argument("limit")))
    def data_received(self, chunk): self.n += len(chunk)
    def post(self): self.finish(str(self.n))

async def main():
    app = web.Application([("/ws", WS), ("/bad", BadSub), ("/up", Up)])
    sock, port = bind_unused_port()
    srv = httpserver.HTTPServer(app, decompress_request=True, max_body_size=1000); srv.add_sockets([sock])
    # F14 subprotocol
    c = await websocket.websocket_connect("ws://127.0.0.1:%d/bad" % port)
    print("F14 client offered none, selected_subprotocol =", c.selected_subprotocol)
    c.close()
    # F13: client ping timeout -> close initiated locally; then write_message
    # make server not answer pings: patch server handler protocol to drop pongs is hard; instead
    # call the protocol-level close the way periodic_ping does.
    c = await websocket.websocket_connect("ws://127.0.0.1:%d/ws" % port)
    c.protocol.close(reason="ping timed out")   # what periodic_ping does on timeout
    try:
        f = c.write_message("after close")
        print("F13 write_message after ping-timeout close: accepted (no WebSocketClosedError)")
        await asyncio.sleep(0.2)
        print("    server received data frames after our close frame:", frames)
    except websocket.WebSocketClosedError:
        print("F13 raises WebSocketClosedError (ok)")
    # F6 gzip stale limit: override raises limit to 100000; compressed body small, decompressed 5000
    raw = b"a" * 5000
    bio = io.BytesIO(); g = gzip.GzipFile(mode="w", fileobj=bio); g.write(raw); g.close()
    body = bio.getvalue()
    cl = httpclient.AsyncHTTPClient(force_instance=True)
    try:
        r = await cl.fetch("http://127.0.0.1:%d/up?limit=100000" % port, method="POST", body=body, headers={"Content-Encoding": "gzip"}, raise_error=False)
        print("F6 override=100000, gzip body inflates to 5000 (compressed %d): status" % len(body), r.code, r.body[:40])
    except Exception as e:
        print("F6 raised", type(e).__name__, e)
    r = await cl.fetch("http://127.0.0.1:%d/up?limit=100000" % port, method="POST", body=raw, raise_error=False)
    print("   control identity body 5000 with override: status", r.code, r.body[:40])
loop = asyncio.new_event_loop(); loop.set_exception_handler(lambda l,c: None)
loop.run_until_complete(main())
