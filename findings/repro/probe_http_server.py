import asyncio, socket, sys, logging, io
sys.path.insert(0, "/repo")
from tornado import web, httpserver, netutil, iostream, gen
from tornado.testing import bind_unused_port

logbuf = io.StringIO()
h = logging.StreamHandler(logbuf)
for n in ("tornado.general","tornado.application","tornado.access"):
    logging.getLogger(n).addHandler(h); logging.getLogger(n).setLevel(logging.DEBUG)

class Flush204(web.RequestHandler):
    def get(self):
        self.set_status(204); self.write(b"x"); self.flush()
class FlushH(web.RequestHandler):
    def get(self):
        self.write(b"hello"); self.flush(); self.write(b"world")
class Hello(web.RequestHandler):
    def get(self): self.finish("hi")
    def post(self): self.finish("hi")
class Nul(web.RequestHandler):
    def get(self):
        self.set_header("X\x00Y", "v"); self.finish("ok")
class Slash(web.RequestHandler):
    @web.addslash
    def get(self, *a): self.finish("ok")
class RSlash(web.RequestHandler):
    @web.removeslash
    def get(self, *a): self.finish("ok")
class Cook(web.RequestHandler):
    def get(self):
        import warnings
        warnings.simplefilter("ignore")
        self.set_cookie("a","b", Domain="x; Secure"); self.finish("ok")

async def raw(port, data, wait=0.3):
    r, w = await asyncio.open_connection("127.0.0.1", port)
    w.write(data); await w.drain()
    out=b""
    try:
        while True:
            chunk = await asyncio.wait_for(r.read(65536), wait)
            if not chunk:
                out += b"<EOF>"; break
            out += chunk
    except asyncio.TimeoutError:
        out += b"<OPEN>"
    w.close()
    return out

async def main():
    app = web.Application([("/f204", Flush204), ("/flush", FlushH), ("/", Hello), ("/nul", Nul), (r"/add(.*)", Slash), (r"//evil.com(.*)", Slash), (r"//evil.org/*", RSlash), ("/cook", Cook)])
    sock, port = bind_unused_port()
    srv = httpserver.HTTPServer(app); srv.add_sockets([sock])
    sock2, port2 = bind_unused_port()
    srv2 = httpserver.HTTPServer(app, no_keep_alive=True); srv2.add_sockets([sock2])
    print("F2 chunk terminator:", await raw(port, b"POST / HTTP/1.1\r\nHost: a\r\nTransfer-Encoding: chunked\r\n\r\n3\r\nabcXX0\r\n\r\n"))
    print("   log:", repr(logbuf.getvalue()[-300:])); logbuf.truncate(0)
    print("F3 204 flush:", await raw(port, b"GET /f204 HTTP/1.1\r\nHost: a\r\n\r\n"))
    print("F4 http10 ka flush:", await raw(port, b"GET /flush HTTP/1.0\r\nConnection: keep-alive\r\n\r\n"))
    print("F5 no_keep_alive http10 ka:", await raw(port2, b"GET / HTTP/1.0\r\nConnection: keep-alive\r\n\r\n"))
    print("F7 nul:", await raw(port, b"GET /nul HTTP/1.1\r\nHost: a\r\n\r\n"))
    print("F20 addslash:", (await raw(port, b"GET //evil.com HTTP/1.1\r\nHost: a\r\n\r\n")).split(b"\r\n\r\n")[0])
    print("F20 removeslash:", (await raw(port, b"GET //evil.org/ HTTP/1.1\r\nHost: a\r\n\r\n")).split(b"\r\n\r\n")[0])
    print("F18 cookie:", [l for l in (await raw(port, b"GET /cook HTTP/1.1\r\nHost: a\r\n\r\n")).split(b"\r\n") if l.lower().startswith(b"set-cookie")])
    print("F24 host digits:", (await raw(port, b"GET / HTTP/1.1\r\nHost: a:" + b"9"*5000 + b"\r\n\r\n"))[:60])
    print("   log:", repr(logbuf.getvalue()[:200])); logbuf.truncate(0)
asyncio.run(main())
