import asyncio, sys, time
sys.path.insert(0, "/repo")
from tornado import web, gen, concurrent, routing, template, options as topt, iostream
from tornado.web import create_signed_value, decode_signed_value

# F17a
v = create_signed_value("secret", "n", "hello", version=1)
parts = v.split(b"|")
t = parts[0][:-1] + b"|" + parts[0][-1:] + parts[1] + b"|" + parts[2]
print("valid:", v, "tampered:", t)
try:
    print("F17a ->", decode_signed_value("secret", "n", t))
except Exception as e: print("F17a raises", type(e).__name__, e)
# F17b
try:
    print("F17b ->", decode_signed_value({0:"k"}, "n", "abc"))
except BaseException as e: print("F17b raises", type(e).__name__, e)
# F21
try:
    pm = routing.PathMatches(r"/a%20b/(\w+)")
    print("F21 ->", pm.reverse("x"))
except Exception as e: print("F21 raises", type(e).__name__, e)
# F15
try:
    template.Template("{% whitespace bogus %}x")
except Exception as e: print("F15 raises", type(e).__name__, e)
# F25
p = topt.OptionParser(); p.define("flag", type=bool, default=False)
p.parse_command_line(["prog", "--flag=banana"]); print("F25 flag=", p.flag)
p.parse_command_line(["prog", "--flag=no"]); print("F25 'no' ->", p.flag)

async def main():
    loop = asyncio.get_running_loop()
    # F22a chain_future with cancelled source
    a = asyncio.Future(); b = asyncio.Future()
    concurrent.chain_future(a, b)
    a.cancel()
    await asyncio.sleep(0.05)
    print("F22a b.done()=", b.done(), "cancelled=", b.cancelled() if b.done() else None)
    # F22b multi with cancelled child
    c1 = asyncio.Future(); c2 = asyncio.Future()
    m = gen.multi([c1, c2])
    c1.set_result(1); c2.cancel()
    await asyncio.sleep(0.05)
    print("F22b multi done=", m.done())
    # F23 coroutine awaiting a cancelled future
    f = asyncio.Future()
    @gen.coroutine
    def co():
        try:
            yield f
        except BaseException as e:
            return "caught %s" % type(e).__name__
        return "ok"
    r = co()
    f.cancel()
    await asyncio.sleep(0.05)
    print("F23 gen.coroutine done=", r.done(), (r.result() if r.done() and not r.cancelled() else None))
    async def nat():
        try:
            await f
        except BaseException as e:
            return "caught %s" % type(e).__name__
    print("F23 native:", await nat())
loop = asyncio.new_event_loop()
loop.set_exception_handler(lambda l,c: None)
loop.run_until_complete(main())
