import asyncio, sys, os, struct, zlib, base64, socket, functools
sys.path.insert(0, "/repo")
from tornado import web, websocket, httpserver, httpclient, simple_httpclient, iostream, tcpclient
from tornado.testing import bind_unused_port
import logging
logging.getLogger("tornado").setLevel(logging.CRITICAL)

got = []; closed = []
class WS(websocket.WebSocketHandler):
    def get_compression_options(self): return {}
    def on_message(self, m): got.append(m)
    def on_close(self): closed.append((self.close_code,))

def frame(fin, opcode, payload, rsv1=False):
    b0 = (0x80 if fin else 0) | (0x40 if rsv1 else 0) | opcode
    mask = b"\x01\x02\x03\x04"
    masked = bytes(p ^ mask[i % 4] for i, p in enumerate(payload))
    n = len(payload)
    assert n < 126
    return bytes([b0, 0x80 | n]) + mask + masked

async def ws_connect(port):
    r, w = await asyncio.open_connection("127.0.0.1", port)
    key = base64.b64encode(os.urandom(16))
    w.write(b"GET /ws HTTP/1.1\r\nHost: 127.0.0.1\r\nUpgrade: websocket\r\nConnection: Upgrade\r\nSec-WebSocket-Key: " + key + b"\r\nSec-WebSocket-Version: 13\r\nSec-WebSocket-Extensions: permessage-deflate; client_no_context_takeover; server_no_context_takeover\r\n\r\n")
    hdr = await r.readuntil(b"\r\n\r\n")
    assert b"101" in hdr and b"permessage-deflate" in hdr, hdr
    return r, w

def deflate(data):
    c = zlib.compressobj(6, zlib.DEFLATED, -15)
    d = c.compress(data) + c.flush(zlib.Z_SYNC_FLUSH)
    return d[:-4]

async def main():
    app = web.Application([("/ws", WS)])
    sock, port = bind_unused_port()
    srv = httpserver.HTTPServer(app); srv.add_sockets([sock])
    # F11
    r, w = await ws_connect(port)
    comp = deflate(b"hello world hello world")
    a, b = comp[:5], comp[5:]
    w.write(frame(False, 1, a, rsv1=True) + frame(True, 9, b"") + frame(True, 0, b))
    await w.drain(); await asyncio.sleep(0.2)
    print("F11 interleaved ping: got=", got, "closed=", closed)
    w.close(); await asyncio.sleep(0.1)
    got.clear(); closed.clear()
    # control: without ping
    r, w = await ws_connect(port)
    w.write(frame(False, 1, a, rsv1=True) + frame(True, 0, b))
    await w.drain(); await asyncio.sleep(0.2)
    print("    control (no ping): got=", got)
    w.close(); await asyncio.sleep(0.1); got.clear(); closed.clear()
    # F12 corrupt deflate
    r, w = await ws_connect(port)
    w.write(frame(True, 2, b"\xff\xff\xff\xff\xff", rsv1=True))
    await w.drain()
    try:
        data = await asyncio.wait_for(r.read(100), 0.5)
        print("F12 corrupt deflate: server sent", data, "(EOF)" if data == b"" else "")
    except asyncio.TimeoutError:
        print("F12 corrupt deflate: connection still OPEN after 0.5s; on_close calls:", closed)
    w.close(); await asyncio.sleep(0.1)

    # F8: close-delimited body larger than max_body_size
    async def handle(reader, writer):
        await reader.readuntil(b"\r\n\r\n")
        writer.write(b"HTTP/1.0 200 OK\r\n\r\n" + b"x" * 5000)
        await writer.drain(); writer.close()
    s = await asyncio.start_server(handle, "127.0.0.1", 0)
    p = s.sockets[0].getsockname()[1]
    c = simple_httpclient.SimpleAsyncHTTPClient(force_instance=True, max_body_size=1000)
    try:
        resp = await c.fetch("http://127.0.0.1:%d/" % p)
        print("F8 max_body_size=1000 delivered", len(resp.body))
    except Exception as e:
        print("F8 raised", type(e).__name__, e)
    # control: content-length
    async def handle2(reader, writer):
        await reader.readuntil(b"\r\n\r\n")
        writer.write(b"HTTP/1.1 200 OK\r\nContent-Length: 5000\r\n\r\n" + b"x" * 5000)
        await writer.drain(); writer.close()
    s2 = await asyncio.start_server(handle2, "127.0.0.1", 0)
    p2 = s2.sockets[0].getsockname()[1]
    try:
        resp = await c.fetch("http://127.0.0.1:%d/" % p2)
        print("   control CL delivered", len(resp.body))
    except Exception as e:
        print("   control CL raised", type(e).__name__, e)

    # F10: read_into pending then close then read_bytes
    a_s, b_s = socket.socketpair()
    sa = iostream.IOStream(a_s); sb = iostream.IOStream(b_s)
    buf = bytearray(10)
    fut = sa.read_into(buf)
    await sb.write(b"abcd"); await asyncio.sleep(0.05)
    sb.close(); await asyncio.sleep(0.05)
    print("F10 read_into failed:", type(fut.exception()).__name__, "closed", sa.closed())
    try:
        r2 = await sa.read_bytes(2)
        print("F10 later read_bytes(2) ->", repr(r2), type(r2).__name__)
    except Exception as e:
        print("F10 later read raises", type(e).__name__)

    # F9b: sync failure in secondary attempt
    from tornado.tcpclient import _Connector
    def connect(af, addr):
        if af == socket.AF_INET6:
            raise OSError("EAFNOSUPPORT")
        st = iostream.IOStream(socket.socket())
        f = asyncio.Future(); f.set_exception(IOError("refused"))
        return st, f
    conn = _Connector([(socket.AF_INET, ("127.0.0.1", 1)), (socket.AF_INET6, ("::1", 1))], connect)
    fut = conn.start()
    await asyncio.sleep(0.6)
    print("F9b connector future done:", fut.done(), "remaining", conn.remaining)
loop = asyncio.new_event_loop(); loop.set_exception_handler(lambda l,c: print("   [loop exception]", type(c.get("exception")).__name__))
loop.run_until_complete(main())
